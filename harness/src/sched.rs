//! Deterministic scheduler over the lock hook (C17). Filled in later.
use gdsl::verif_hook::Event;
pub fn on_event(_ev: Event) {}

//! Deterministic scheduler over the lock hook (C17): one thread runs at a time; a scheduling decision
//! is taken whenever the running thread requests a lock (node lock or mutation mutex) or finishes.
//! A schedule is the list of choices (index into the runnable threads) at every decision point.
use gdsl::verif_hook::Event;
use std::cell::Cell;
use std::collections::HashMap;
use std::panic::{catch_unwind, AssertUnwindSafe};
use std::sync::{Condvar, Mutex};

#[derive(Clone, Debug, PartialEq)]
enum St {
    Ready,
    Waiting { addr: usize, write: bool },
    Done,
}

#[derive(Default)]
struct LockSt {
    readers: Vec<usize>,
    writer: Option<usize>,
}

struct World {
    active: bool,
    current: Option<usize>,
    st: Vec<St>,
    locks: HashMap<usize, LockSt>,
    schedule: Vec<usize>,
    /// alternatively: the thread to choose at each decision point (replay of a recorded schedule)
    schedule_ids: Vec<usize>,
    /// (chosen index, number of options, chosen thread id) per decision point
    decisions: Vec<(usize, usize, usize)>,
    deadlock: Option<String>,
}
static WORLD: Mutex<Option<World>> = Mutex::new(None);
static CV: Condvar = Condvar::new();
thread_local! { static TID: Cell<Option<usize>> = Cell::new(None); }
struct DeadlockAbort;

fn runnable(w: &World) -> Vec<usize> {
    (0..w.st.len())
        .filter(|&i| match &w.st[i] {
            St::Ready => true,
            St::Done => false,
            St::Waiting { addr, write } => match w.locks.get(addr) {
                None => true,
                Some(l) => {
                    if *write {
                        l.writer.is_none() && l.readers.is_empty()
                    } else {
                        l.writer.is_none()
                    }
                }
            },
        })
        .collect()
}

fn decide(w: &mut World) {
    let r = runnable(w);
    if r.is_empty() {
        if w.st.iter().any(|s| *s != St::Done) && w.deadlock.is_none() {
            w.deadlock = Some("every unfinished thread waits for a lock held by another waiting thread".into());
        }
        w.current = None;
        return;
    }
    let k = w.decisions.len();
    let idx = if k < w.schedule_ids.len() {
        r.iter().position(|t| *t == w.schedule_ids[k]).unwrap_or(0)
    } else if k < w.schedule.len() {
        w.schedule[k].min(r.len() - 1)
    } else {
        0
    };
    w.decisions.push((idx, r.len(), r[idx]));
    w.current = Some(r[idx]);
}

fn wait_turn(me: usize) {
    let mut g = WORLD.lock().unwrap_or_else(|e| e.into_inner());
    loop {
        let w = g.as_mut().unwrap();
        if w.deadlock.is_some() {
            drop(g);
            std::panic::resume_unwind(Box::new(DeadlockAbort));
        }
        if w.current == Some(me) {
            return;
        }
        g = CV.wait(g).unwrap_or_else(|e| e.into_inner());
    }
}

pub fn on_event(e: Event) {
    let Some(me) = TID.with(|t| t.get()) else { return };
    match e {
        Event::Request { addr, write } => {
            {
                let mut g = WORLD.lock().unwrap_or_else(|e| e.into_inner());
                let w = g.as_mut().unwrap();
                if !w.active {
                    return;
                }
                // a lock this thread already holds: std's locks are not re-entrant
                if let Some(l) = w.locks.get(&addr) {
                    let holds_w = l.writer == Some(me);
                    let holds_r = l.readers.contains(&me);
                    if holds_w || (holds_r && write) {
                        w.deadlock = Some("a thread requested a lock it already holds (self-deadlock)".into());
                    } else if holds_r && w.st.iter().enumerate().any(|(i, s)| i != me && *s == St::Waiting { addr, write: true }) {
                        w.deadlock = Some("a thread requested a second read guard on a lock while another thread waits to write it: std's RwLock queues the reader behind the writer, which waits for the first guard".into());
                    }
                }
                if w.deadlock.is_some() {
                    CV.notify_all();
                    drop(g);
                    std::panic::resume_unwind(Box::new(DeadlockAbort));
                }
                w.st[me] = St::Waiting { addr, write };
                decide(w);
                CV.notify_all();
            }
            wait_turn(me);
            let mut g = WORLD.lock().unwrap_or_else(|e| e.into_inner());
            let w = g.as_mut().unwrap();
            w.st[me] = St::Ready;
            let l = w.locks.entry(addr).or_default();
            if write {
                l.writer = Some(me);
            } else {
                l.readers.push(me);
            }
        }
        Event::Acquired { .. } => {}
        Event::Released { addr, write } => {
            let mut g = WORLD.lock().unwrap_or_else(|e| e.into_inner());
            let Some(w) = g.as_mut() else { return };
            if !w.active {
                return;
            }
            let l = w.locks.entry(addr).or_default();
            if write {
                l.writer = None;
            } else if let Some(p) = l.readers.iter().position(|&x| x == me) {
                l.readers.remove(p);
            }
        }
    }
}

pub struct RunOut {
    /// per thread: Ok(result text) | "PANIC" | "DEADLOCK"
    pub results: Vec<String>,
    pub deadlock: Option<String>,
    pub decisions: Vec<(usize, usize, usize)>,
}

/// runs the thread bodies under the forced schedule prefix (then always the first runnable thread)
pub fn run_once(schedule: Vec<usize>, schedule_ids: Vec<usize>, bodies: Vec<Box<dyn FnOnce() -> String + Send>>) -> RunOut {
    let n = bodies.len();
    crate::hook::SCHED_MODE.store(true, std::sync::atomic::Ordering::SeqCst);
    *WORLD.lock().unwrap_or_else(|e| e.into_inner()) = Some(World { active: true, current: None, st: vec![St::Ready; n], locks: HashMap::new(), schedule, schedule_ids, decisions: vec![], deadlock: None });
    {
        let mut g = WORLD.lock().unwrap_or_else(|e| e.into_inner());
        decide(g.as_mut().unwrap());
    }
    let mut hs = vec![];
    for (i, b) in bodies.into_iter().enumerate() {
        hs.push(std::thread::spawn(move || {
            TID.with(|t| t.set(Some(i)));
            let r = catch_unwind(AssertUnwindSafe(|| {
                wait_turn(i);
                b()
            }));
            let out = match r {
                Ok(s) => s,
                Err(e) => {
                    if e.is::<DeadlockAbort>() {
                        "DEADLOCK".to_string()
                    } else {
                        "PANIC".to_string()
                    }
                }
            };
            let mut g = WORLD.lock().unwrap_or_else(|e| e.into_inner());
            let w = g.as_mut().unwrap();
            w.st[i] = St::Done;
            // a panicking thread's guards were dropped by unwinding; make sure the table agrees
            for l in w.locks.values_mut() {
                if l.writer == Some(i) {
                    l.writer = None;
                }
                l.readers.retain(|x| *x != i);
            }
            if w.deadlock.is_none() {
                decide(w);
            }
            CV.notify_all();
            TID.with(|t| t.set(None));
            out
        }));
    }
    let results: Vec<String> = hs.into_iter().map(|h| h.join().unwrap_or_else(|_| "PANIC".into())).collect();
    let mut g = WORLD.lock().unwrap_or_else(|e| e.into_inner());
    let w = g.as_mut().unwrap();
    w.active = false;
    let out = RunOut { results, deadlock: w.deadlock.clone(), decisions: w.decisions.clone() };
    drop(g);
    crate::hook::SCHED_MODE.store(false, std::sync::atomic::Ordering::SeqCst);
    out
}

/// the next schedule prefix in depth-first order, or None when the space is exhausted
pub fn next_schedule(dec: &[(usize, usize, usize)]) -> Option<Vec<usize>> {
    let mut k = dec.len();
    while k > 0 {
        k -= 1;
        if dec[k].0 + 1 < dec[k].1 {
            let mut s: Vec<usize> = dec[..k].iter().map(|d| d.0).collect();
            s.push(dec[k].0 + 1);
            return Some(s);
        }
    }
    None
}

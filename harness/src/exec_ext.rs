//! Requests beyond the edge operations (searches, containers, serde, ...), per flavour.
use crate::exec::*;
use crate::oracle::*;

macro_rules! ext_mod {
    ($m:ident, $fl:ident, $kind:ident) => {
        pub mod $m {
            #![allow(unused, clippy::all)]
            use super::*;
            use crate::exec::$m::{St, G, N};
            use gdsl::$fl::*;
            #[derive(Default)]
            pub struct Ext {}
            pub fn exec_line(st: &mut St, ext: &mut Ext, t: &[&str], raw: &str, ctx: &mut Ctx, case: &str, li: usize) -> String {
                "bad-op".to_string()
            }
        }
    };
}
ext_mod!(di, digraph, di);
ext_mod!(sdi, sync_digraph, di);
ext_mod!(un, ungraph, un);
ext_mod!(sun, sync_ungraph, un);

//! Requests beyond the edge operations (searches, orderings, containers, serde, ...), per flavour.
use crate::exec::*;
use crate::oracle::*;
use crate::oracle_search as os;
use crate::exec_cont::*;
use std::collections::{BTreeMap, BTreeSet};
use std::cell::RefCell;

/// parsed `search` / `order` request
#[derive(Clone, Debug)]
pub struct SearchSpec {
    pub kind: String,   // bfs dfs pfs-min pfs-max pre post
    /// `kind~n`: the n-th order of the builder's configuration calls (`min/max`, `transpose`, `target`)
    pub variant: usize,
    pub tr: bool,       // transpose()
    pub dflt: bool,     // ordering without an explicit direction (`postorder()` default)
    pub root: usize,
    pub target: Option<usize>,
    pub method: String, // none each filter
    pub rej: Vec<(usize, usize, u32)>,
    pub mode: String, // node path cycle nodes edges
    /// C20: operations run from inside the callback at given step indices
    pub script: Option<String>,
    /// how the root handle is obtained (clone, container lookup, indexing, edge endpoint, search result)
    pub via: String,
}

pub fn parse_rej(s: &str) -> Vec<(usize, usize, u32)> {
    if s == "-" || s.is_empty() {
        return vec![];
    }
    s.split(',')
        .map(|x| {
            let (u, r) = x.split_once('>').unwrap();
            let (v, e) = r.split_once(':').unwrap();
            (u.parse().unwrap(), v.parse().unwrap(), e.parse().unwrap())
        })
        .collect()
}

pub fn parse_search(t: &[&str]) -> SearchSpec {
    // search <kind> <fwd|tr> <root> <target|-> <none|each|filter:REJ> <node|path|cycle>
    // order  <pre|post> <fwd|tr|default> <root> <method> <nodes|edges>
    let mtok = if t[0] == "search" { t[5] } else { t[4] };
    let (mtok, script) = match mtok.split_once('@') {
        Some((a, b)) => (a, Some(b.to_string())),
        None => (mtok, None),
    };
    let (method, rej) = |m: &str| -> (String, Vec<(usize, usize, u32)>) {
        if let Some(r) = m.strip_prefix("filter:") {
            ("filter".into(), parse_rej(r))
        } else {
            (m.to_string(), vec![])
        }
    }(mtok);
    let (kind, variant) = match t[1].split_once('~') {
        Some((k, v)) => (k.to_string(), v.parse().unwrap_or(0)),
        None => (t[1].to_string(), 0),
    };
    if t[0] == "search" {
        SearchSpec { kind: kind, variant, tr: t[2] == "tr", dflt: false, root: t[3].parse().unwrap(), target: t[4].parse().ok(), method, rej, mode: t[6].into(), script, via: "clone".into() }
    } else {
        SearchSpec { kind, variant, tr: t[2] == "tr", dflt: t[2] == "default", root: t[3].parse().unwrap(), target: None, method, rej, mode: t[5].into(), script, via: "clone".into() }
    }
}

pub struct SearchOut {
    pub node: Option<usize>,
    pub path: Option<Vec<(usize, usize, u32)>>,
    pub path_nodes: Vec<usize>,
    pub path_len: usize,
    pub first_node: Option<usize>,
    pub last_node: Option<usize>,
    pub first_edge: Option<(usize, usize, u32)>,
    pub last_edge: Option<(usize, usize, u32)>,
    pub views: String,
    pub list_nodes: Vec<usize>,
    pub list_edges: Vec<(usize, usize, u32)>,
    pub trace: Vec<(usize, usize, u32)>,
    /// builder reuse: one entry per stage of a `mode1+mode2+...` request (stage mode, target in force, its result)
    pub stages: Vec<(String, Option<usize>, SearchOut)>,
}
impl SearchOut {
    pub fn empty() -> SearchOut {
        SearchOut { node: None, path: None, path_nodes: vec![], path_len: 0, first_node: None, last_node: None, first_edge: None, last_edge: None, views: String::new(), list_nodes: vec![], list_edges: vec![], trace: vec![], stages: vec![] }
    }
}
/// `path`, `path:5` (retarget to 5 first) -> (mode, new target)
pub fn parse_stage(m: &str) -> (String, Option<usize>) {
    match m.split_once(':') {
        Some((a, k)) => (a.to_string(), k.parse().ok()),
        None => (m.to_string(), None),
    }
}

/// a single-stage request is its only stage (so every existing reader of `SearchOut` keeps working);
/// a multi-stage request keeps the stages and the whole trace
pub fn finish_stages(mut out: SearchOut, trace: Vec<(usize, usize, u32)>) -> SearchOut {
    if out.stages.len() == 1 {
        let (_, _, mut so) = out.stages.pop().unwrap();
        so.trace = trace;
        return so;
    }
    out.trace = trace;
    out
}

pub fn show_search(spec: &SearchSpec, o: &SearchOut) -> String {
    if spec.mode.contains('+') {
        return o.stages.iter().map(|(m, tg, so)| {
            if stage_mutation(m).is_some() {
                return "ok".to_string();
            }
            let mut sp = spec.clone();
            sp.mode = m.clone();
            sp.target = *tg;
            show_search(&sp, so)
        }).collect::<Vec<_>>().join(" ## ");
    }
    let mut s = match spec.mode.as_str() {
        "node" => format!("node={:?}", o.node),
        "path" | "cycle" => match &o.path {
            Some(p) => format!(
                "path={} nodes={} first={} last={} fe={} le={} views={}",
                fmt_edges(p),
                fmt_keys(&o.path_nodes),
                o.first_node.map(|k| k.to_string()).unwrap_or("None".into()),
                o.last_node.map(|k| k.to_string()).unwrap_or("None".into()),
                fmt_edges(&o.first_edge.iter().cloned().collect::<Vec<_>>()),
                fmt_edges(&o.last_edge.iter().cloned().collect::<Vec<_>>()),
                o.views
            ),
            None => "path=None".to_string(),
        },
        "nodes" => format!("nodes={}", fmt_keys(&o.list_nodes)),
        _ => format!("edges={}", fmt_edges(&o.list_edges)),
    };
    if spec.method != "none" {
        s.push_str(&format!(" trace={}", fmt_edges(&o.trace)));
    }
    s
}

/// a node value with interior mutability (changed in place through a shared handle) that serialises as its current value
#[derive(Debug)]
pub struct MVal(pub std::sync::atomic::AtomicI64);
impl Clone for MVal {
    fn clone(&self) -> Self {
        MVal(std::sync::atomic::AtomicI64::new(self.0.load(std::sync::atomic::Ordering::SeqCst)))
    }
}
impl PartialEq for MVal {
    fn eq(&self, o: &Self) -> bool {
        self.0.load(std::sync::atomic::Ordering::SeqCst) == o.0.load(std::sync::atomic::Ordering::SeqCst)
    }
}
impl Eq for MVal {}
impl PartialOrd for MVal {
    fn partial_cmp(&self, o: &Self) -> Option<std::cmp::Ordering> {
        Some(self.cmp(o))
    }
}
impl Ord for MVal {
    fn cmp(&self, o: &Self) -> std::cmp::Ordering {
        self.0.load(std::sync::atomic::Ordering::SeqCst).cmp(&o.0.load(std::sync::atomic::Ordering::SeqCst))
    }
}
impl serde::Serialize for MVal {
    fn serialize<S: serde::Serializer>(&self, s: S) -> Result<S::Ok, S::Error> {
        self.0.load(std::sync::atomic::Ordering::SeqCst).serialize(s)
    }
}
impl<'de> serde::Deserialize<'de> for MVal {
    fn deserialize<D: serde::Deserializer<'de>>(d: D) -> Result<Self, D::Error> {
        Ok(MVal(std::sync::atomic::AtomicI64::new(i64::deserialize(d)?)))
    }
}

/// a key whose `Display` is not injective (it prints the tag only) and whose `Hash` is coarse: two different keys
/// may print alike and hash alike. Serialised as the pair (id, tag).
#[derive(Clone, Debug, PartialEq, Eq, PartialOrd, Ord)]
pub struct LKey {
    pub id: usize,
    pub tag: u8,
}
impl std::hash::Hash for LKey {
    fn hash<H: std::hash::Hasher>(&self, h: &mut H) {
        (self.id % 2).hash(h)
    }
}
impl std::fmt::Display for LKey {
    fn fmt(&self, f: &mut std::fmt::Formatter) -> std::fmt::Result {
        write!(f, "tag{}", self.tag)
    }
}
impl serde::Serialize for LKey {
    fn serialize<S: serde::Serializer>(&self, s: S) -> Result<S::Ok, S::Error> {
        (self.id, self.tag).serialize(s)
    }
}
impl<'de> serde::Deserialize<'de> for LKey {
    fn deserialize<D: serde::Deserializer<'de>>(d: D) -> Result<Self, D::Error> {
        let (id, tag) = <(usize, u8)>::deserialize(d)?;
        Ok(LKey { id, tag })
    }
}

macro_rules! no_cfg {
    ($bb:ident, $steps:expr) => {{
        let _: &[&str] = $steps;
    }};
}
macro_rules! with_method {
    ($b:expr, $spec:expr, $trace:expr, $run:ident, $hook:expr) => {
        with_method!($b, $spec, $trace, $run, $hook, no_cfg, &[])
    };
    ($b:expr, $spec:expr, $trace:expr, $run:ident, $hook:expr, $cfg:ident, $post:expr) => {{
        let rej = $spec.rej.clone();
        let mut f_each = |e: &Edge<usize, i64, u32>| {
            let t = (*e.0.key(), *e.1.key(), e.2);
            let i = $trace.borrow().len();
            $trace.borrow_mut().push(t);
            if let Some(h) = $hook {
                h(i, t);
            }
        };
        let mut f_filter = |e: &Edge<usize, i64, u32>| -> bool {
            let t = (*e.0.key(), *e.1.key(), e.2);
            let i = $trace.borrow().len();
            $trace.borrow_mut().push(t);
            if let Some(h) = $hook {
                h(i, t);
            }
            !rej.contains(&t)
        };
        let mut d_each = |_e: &Edge<usize, i64, u32>| {};
        let mut d_filter = |_e: &Edge<usize, i64, u32>| -> bool { false };
        let b = $b;
        match $spec.method.as_str() {
            // `$post`: configuration calls made AFTER the closure was attached (builder call order must not matter)
            // variants with bit 96: a closure of the OTHER kind is installed first (the two share one slot: the later call
            // wins, and nothing of the first one may stay behind)
            "each" => {
                // (bit 192: a closure of the SAME kind is installed first and replaced)
                let mut b = if $spec.variant / 96 % 2 == 1 { b.filter(&mut d_filter).for_each(&mut f_each) } else if $spec.variant / 192 % 2 == 1 { b.for_each(&mut d_each).for_each(&mut f_each) } else { b.for_each(&mut f_each) };
                $cfg!(b, $post);
                $run!(b)
            }
            "filter" => {
                let mut b = if $spec.variant / 96 % 2 == 1 { b.for_each(&mut d_each).filter(&mut f_filter) } else if $spec.variant / 192 % 2 == 1 { b.filter(&mut d_filter).filter(&mut f_filter) } else { b.filter(&mut f_filter) };
                $cfg!(b, $post);
                $run!(b)
            }
            _ => {
                let mut b = b;
                $cfg!(b, $post);
                $run!(b)
            }
        }
    }};
}

/// everything a `Path` shows: `to_vec_edges`, `to_vec_nodes`, `len`, the first/last accessors (read through the
/// `Edge` accessors `source`/`target`/`value`/`reverse`), and whether `iter_edges`, `iter_nodes` and `Index` agree with them
macro_rules! fill_path {
    ($out:expr, $p:ident) => {{
        let edges: Vec<(usize, usize, u32)> = $p.to_vec_edges().iter().map(|Edge(u, v, e)| (*u.key(), *v.key(), *e)).collect();
        let nodes: Vec<usize> = $p.to_vec_nodes().iter().map(|n| *n.key()).collect();
        $out.path_len = $p.len();
        $out.first_node = $p.first_node().map(|n| *n.key());
        $out.last_node = $p.last_node().map(|n| *n.key());
        $out.first_edge = $p.first_edge().map(|e| (*e.source().key(), *e.target().key(), *e.value()));
        $out.last_edge = $p.last_edge().map(|e| {
            let r = e.reverse();
            (*r.target().key(), *r.source().key(), *r.value())
        });
        let ie: Vec<(usize, usize, u32)> = $p.iter_edges().map(|Edge(u, v, e)| (*u.key(), *v.key(), e)).collect();
        let inn: Vec<usize> = $p.iter_nodes().map(|n| *n.key()).collect();
        let ix: Vec<(usize, usize, u32)> = (0..edges.len()).map(|i| (*$p[i].0.key(), *$p[i].1.key(), $p[i].2)).collect();
        $out.views = if ie == edges && ix == edges && inn == nodes { "ok".into() } else { format!("iter_edges={:?};index={:?};iter_nodes={:?}", ie, ix, inn) };
        $out.path = Some(edges);
        $out.path_nodes = nodes;
    }};
}

/// a graph mutation between two stages of a reused builder: `c.U.V.E` connect, `d.U.V` disconnect, `x.U` isolate
pub fn stage_mutation(m: &str) -> Option<(char, usize, usize, u32)> {
    let t: Vec<&str> = m.split('.').collect();
    match (t[0], t.len()) {
        ("c", 4) => Some(('c', t[1].parse().ok()?, t[2].parse().ok()?, t[3].parse().ok()?)),
        ("d", 3) => Some(('d', t[1].parse().ok()?, t[2].parse().ok()?, 0)),
        ("x", 2) => Some(('x', t[1].parse().ok()?, 0, 0)),
        _ => None,
    }
}
macro_rules! run_search_modes {
    ($spec:expr, $out:expr, $trace:expr, $st:expr) => {
        macro_rules! run {
            ($bb:ident) => {{
                // every stage runs on the SAME builder object (a single stage is the ordinary request).
                // `search` and `search_cycle` of bfs/dfs borrow the builder for its whole lifetime (`&'a mut self`),
                // so only the last stage may be `node` or `cycle`; all earlier stages are `path`.
                let stages: Vec<(String, Option<usize>)> = $spec.mode.split('+').map(parse_stage).collect();
                let mut cur_target = $spec.target;
                for (m, retarget) in &stages[..stages.len() - 1] {
                    if let Some(k) = retarget {
                        $bb = $bb.target(k);
                        cur_target = Some(*k);
                    }
                    if let Some((op, u, v, e)) = stage_mutation(m) {
                        // the graph changes between two calls on the same builder
                        match op {
                            'c' => $st.node(u).connect($st.node(v), e),
                            'd' => { let _ = $st.node(u).disconnect(&v); }
                            _ => $st.node(u).isolate(),
                        }
                        $out.stages.push((m.clone(), cur_target, SearchOut::empty()));
                        continue;
                    }
                    let t0 = $trace.borrow().len();
                    let mut so = SearchOut::empty();
                    if m == "path" {
                        if let Some(p) = $bb.search_path() {
                            fill_path!(so, p);
                        }
                    }
                    so.trace = $trace.borrow()[t0..].to_vec();
                    $out.stages.push((m.clone(), cur_target, so));
                }
                let (m, retarget) = stages.last().unwrap();
                let m = m.clone();
                if let Some(k) = retarget {
                    $bb = $bb.target(k);
                    cur_target = Some(*k);
                }
                let t0 = $trace.borrow().len();
                let mut so = SearchOut::empty();
                match m.as_str() {
                    "node" => {
                        so.node = $bb.search().map(|n| *n.key());
                    }
                    "path" => {
                        if let Some(p) = $bb.search_path() {
                            fill_path!(so, p);
                        }
                    }
                    _ => {
                        if let Some(p) = $bb.search_cycle() {
                            fill_path!(so, p);
                        }
                    }
                }
                so.trace = $trace.borrow()[t0..].to_vec();
                $out.stages.push((m, cur_target, so));
            }};
        }
    };
}

macro_rules! run_order_modes {
    ($spec:expr, $out:expr, $trace:expr) => {
        macro_rules! run {
            ($bb:ident) => {{
                for stage in $spec.mode.split('+') {
                    let t0 = $trace.borrow().len();
                    let mut so = SearchOut::empty();
                    if stage == "nodes" {
                        so.list_nodes = $bb.search_nodes().iter().map(|n| *n.key()).collect();
                    } else if stage == "edges" {
                        so.list_edges = $bb.search_edges().iter().map(|Edge(u, v, e)| (*u.key(), *v.key(), *e)).collect();
                    } else {
                        continue;
                    }
                    so.trace = $trace.borrow()[t0..].to_vec();
                    $out.stages.push((stage.to_string(), None, so));
                }
            }};
        }
    };
}

macro_rules! kind_search {
    (di) => {
        pub fn do_search(st: &St, spec: &SearchSpec, hook: Option<&dyn Fn(usize, (usize, usize, u32))>) -> SearchOut {
            let mut out = SearchOut::empty();
            let trace: RefCell<Vec<(usize, usize, u32)>> = RefCell::new(vec![]);
            let root = st.handle(spec.root, &spec.via);
            let tgt = spec.target;
            let tgt_other = spec.target.map(|t| t + 1);
            {
                run_search_modes!(spec, out, trace, st);
                match spec.kind.as_str() {
                    "bfs" | "dfs" => {
                        // the configuration calls in the order the variant says (T = transpose, G = target), before or
                        // after the closure is attached
                        let all = [["T", "G"], ["G", "T"]][spec.variant % 2];
                        let npre = if spec.variant / 6 % 2 == 1 { 0 } else { all.len() };
                        macro_rules! cfg {
                            ($bb:ident, $steps:expr) => {
                                for step in $steps {
                                    $bb = match *step { "T" => if spec.tr { if spec.variant / 24 % 2 == 1 { $bb.transpose().transpose() } else { $bb.transpose() } } else { $bb }, _ => match &tgt { Some(t) => if spec.variant / 48 % 2 == 1 { $bb.target(tgt_other.as_ref().unwrap()).target(t) } else { $bb.target(t) }, None => $bb } };
                                }
                            };
                        }
                        if spec.kind == "bfs" {
                            let mut b = root.bfs();
                            cfg!(b, &all[..npre]);
                            with_method!(b, spec, trace, run, hook, cfg, &all[npre..])
                        } else {
                            let mut b = root.dfs();
                            cfg!(b, &all[..npre]);
                            with_method!(b, spec, trace, run, hook, cfg, &all[npre..])
                        }
                    }
                    "pfs-min" | "pfs-max" => {
                        // P = min()/max()
                        let all = [["P", "T", "G"], ["T", "P", "G"], ["G", "T", "P"], ["P", "G", "T"], ["T", "G", "P"], ["G", "P", "T"]][spec.variant % 6];
                        let npre = if spec.variant / 6 % 2 == 1 { 0 } else { all.len() };
                        macro_rules! cfg {
                            ($bb:ident, $steps:expr) => {
                                for step in $steps {
                                    $bb = match *step {
                                        // variants 12..23: the opposite priority is set first (the last call wins)
                                        "P" => if spec.kind == "pfs-max" { if spec.variant / 12 % 2 == 1 { $bb.min().max() } else { $bb.max() } } else if spec.variant / 12 % 2 == 1 { $bb.max().min() } else { $bb.min() },
                                        "T" => if spec.tr { if spec.variant / 24 % 2 == 1 { $bb.transpose().transpose() } else { $bb.transpose() } } else { $bb },
                                        _ => match &tgt { Some(t) => if spec.variant / 48 % 2 == 1 { $bb.target(tgt_other.as_ref().unwrap()).target(t) } else { $bb.target(t) }, None => $bb },
                                    };
                                }
                            };
                        }
                        let mut b = root.pfs();
                        cfg!(b, &all[..npre]);
                        with_method!(b, spec, trace, run, hook, cfg, &all[npre..])
                    }
                    _ => {}
                }
            }
            {
                run_order_modes!(spec, out, trace);
                match spec.kind.as_str() {
                    "pre" => {
                        let b = root.preorder();
                        let b = if spec.tr { b.transpose() } else { b };
                        with_method!(b, spec, trace, run, hook)
                    }
                    "post" => {
                        let b = root.postorder();
                        let b = if spec.tr { b.transpose() } else { b };
                        with_method!(b, spec, trace, run, hook)
                    }
                    _ => {}
                }
            }
            finish_stages(out, trace.into_inner())
        }
    };
    (un) => {
        pub fn do_search(st: &St, spec: &SearchSpec, hook: Option<&dyn Fn(usize, (usize, usize, u32))>) -> SearchOut {
            let mut out = SearchOut::empty();
            let trace: RefCell<Vec<(usize, usize, u32)>> = RefCell::new(vec![]);
            let root = st.handle(spec.root, &spec.via);
            let tgt = spec.target;
            let tgt_other = spec.target.map(|t| t + 1);
            {
                run_search_modes!(spec, out, trace, st);
                match spec.kind.as_str() {
                    "bfs" => {
                        let b = root.bfs();
                        let b = match &tgt { Some(t) => b.target(t), None => b };
                        with_method!(b, spec, trace, run, hook)
                    }
                    "dfs" => {
                        let b = root.dfs();
                        let b = match &tgt { Some(t) => b.target(t), None => b };
                        with_method!(b, spec, trace, run, hook)
                    }
                    "pfs-min" | "pfs-max" => {
                        let all = [["P", "G"], ["G", "P"]][spec.variant % 2];
                        let npre = if spec.variant / 6 % 2 == 1 { 0 } else { all.len() };
                        macro_rules! cfg {
                            ($bb:ident, $steps:expr) => {
                                for step in $steps {
                                    $bb = match *step { "P" => if spec.kind == "pfs-max" { if spec.variant / 12 % 2 == 1 { $bb.min().max() } else { $bb.max() } } else if spec.variant / 12 % 2 == 1 { $bb.max().min() } else { $bb.min() }, _ => match &tgt { Some(t) => if spec.variant / 48 % 2 == 1 { $bb.target(tgt_other.as_ref().unwrap()).target(t) } else { $bb.target(t) }, None => $bb } };
                                }
                            };
                        }
                        let mut b = root.pfs();
                        cfg!(b, &all[..npre]);
                        with_method!(b, spec, trace, run, hook, cfg, &all[npre..])
                    }
                    _ => {}
                }
            }
            {
                run_order_modes!(spec, out, trace);
                match spec.kind.as_str() {
                    "pre" => {
                        let b = root.order().pre();
                        with_method!(b, spec, trace, run, hook)
                    }
                    "post" => {
                        let b = root.order().post();
                        with_method!(b, spec, trace, run, hook)
                    }
                    _ => {}
                }
            }
            finish_stages(out, trace.into_inner())
        }
    };
}

macro_rules! kind_reversed {
    (di) => {
        /// runs `f(index, edge, which)` for every edge the iterator yields; `f` returns false to stop (cap); returns false if stopped
        /// a second iterator over the same list, kept suspended while the loop under test runs
        pub fn second_iter<'a>(n: &'a N, which: &str, over: bool) -> Box<dyn Iterator<Item = (usize, usize, u32)> + 'a> {
            // (stepped on the iterator itself, not through an adapter: `nth` of the edge iterator is part of its surface)
            if which == "in" {
                let mut it = n.iter_in();
                let _ = if over { it.nth(1000) } else { it.next() };
                Box::new(it.map(|Edge(u, v, e)| (*u.key(), *v.key(), e)))
            } else {
                let mut it = n.iter_out();
                let _ = if over { it.nth(1000) } else { it.next() };
                Box::new(it.map(|Edge(u, v, e)| (*u.key(), *v.key(), e)))
            }
        }
        /// the same loop driven by the iterator's internal iteration (`for_each`, i.e. `fold`; also behind `count`, `sum`, `map`)
        pub fn iter_fold(n: &N, which: &str, f: &mut dyn FnMut(usize, (usize, usize, u32), &str) -> bool) -> bool {
            let mut i = 0;
            if which == "in" {
                n.iter_in().for_each(|Edge(u, v, e)| {
                    let _ = f(i, (*u.key(), *v.key(), e), "in");
                    i += 1;
                });
            } else {
                n.iter_out().for_each(|Edge(u, v, e)| {
                    let _ = f(i, (*u.key(), *v.key(), e), "out");
                    i += 1;
                });
            }
            true
        }
        pub fn iter_loop(n: &N, which: &str, f: &mut dyn FnMut(usize, (usize, usize, u32), &str) -> bool) -> bool {
            let mut i = 0;
            // the iterator is driven by hand so that the rest of its `Iterator` surface (`size_hint`, which `collect`,
            // `extend` and `len` consult) is exercised between the steps of a loop whose body mutates the graph
            if which == "in" {
                let mut it = n.iter_in();
                loop {
                    let _ = it.size_hint();
                    let Some(Edge(u, v, e)) = it.next() else { break };
                    if !f(i, (*u.key(), *v.key(), e), "in") {
                        return false;
                    }
                    i += 1;
                }
                let _ = it.size_hint();
            } else {
                let mut it = n.iter_out();
                loop {
                    let _ = it.size_hint();
                    let Some(Edge(u, v, e)) = it.next() else { break };
                    if !f(i, (*u.key(), *v.key(), e), "out") {
                        return false;
                    }
                    i += 1;
                }
                let _ = it.size_hint();
            }
            true
        }
        pub fn mval_edges(n: &Node<usize, MVal, u32>) -> Vec<(usize, usize, u32)> {
            n.iter_out().map(|Edge(u, v, e)| (*u.key(), *v.key(), e)).collect()
        }
        pub fn lkey_list(n: &Node<LKey, i64, u32>) -> Vec<(usize, u32)> {
            n.iter_out().map(|Edge(_, v, e)| (v.key().id, e)).collect()
        }
        pub fn own_list_str(n: &Node<String, i64, u32>) -> (Vec<(String, u32)>, Vec<(String, u32)>) {
            (n.iter_out().map(|Edge(_, v, e)| (v.key().clone(), e)).collect(), n.iter_in().map(|Edge(u, _, e)| (u.key().clone(), e)).collect())
        }
        fn nested_search(n: &N, t: usize) -> Option<usize> {
            n.bfs().target(&t).search_path().map(|p| p.len() - 1)
        }
        /// other traversals started from inside a running one: dfs, pfs, transposed dfs (path lengths), preorder (count)
        fn nested_other(kind: &str, n: &N, t: usize) -> Option<usize> {
            match kind {
                "sd" => n.dfs().target(&t).search_path().map(|p| p.len() - 1),
                "sp" => n.pfs().min().target(&t).search_path().map(|p| p.len() - 1),
                "st" => n.dfs().transpose().target(&t).search_path().map(|p| p.len() - 1),
                _ => Some(n.preorder().search_nodes().len()),
            }
        }
        /// fresh nodes with every edge reversed; `out_from_in`: new outgoing lists = old incoming lists
        /// (same order), otherwise new incoming lists = old outgoing lists (same order)
        pub fn reversed(st: &St, out_from_in: bool) -> St {
            let nodes: Vec<N> = st.nodes.iter().map(|n| N::new(*n.key(), *n.value())).collect();
            let find = |k: usize| nodes.iter().find(|n| *n.key() == k).unwrap();
            for n in &st.nodes {
                if out_from_in {
                    for Edge(u, v, e) in n.iter_in() {
                        find(*v.key()).connect(find(*u.key()), e);
                    }
                } else {
                    for Edge(u, v, e) in n.iter_out() {
                        find(*v.key()).connect(find(*u.key()), e);
                    }
                }
            }
            St { nodes, twins: vec![] }
        }
    };
    (un) => {
        pub fn second_iter<'a>(n: &'a N, _which: &str, over: bool) -> Box<dyn Iterator<Item = (usize, usize, u32)> + 'a> {
            let mut it = n.iter();
            let _ = if over { it.nth(1000) } else { it.next() };
            Box::new(it.map(|Edge(u, v, e)| (*u.key(), *v.key(), e)))
        }
        pub fn iter_fold(n: &N, _which: &str, f: &mut dyn FnMut(usize, (usize, usize, u32), &str) -> bool) -> bool {
            let mut i = 0;
            n.iter().for_each(|Edge(u, v, e)| {
                let _ = f(i, (*u.key(), *v.key(), e), "adj");
                i += 1;
            });
            true
        }
        pub fn iter_loop(n: &N, _which: &str, f: &mut dyn FnMut(usize, (usize, usize, u32), &str) -> bool) -> bool {
            let mut i = 0;
            let mut it = n.iter();
            loop {
                let _ = it.size_hint();
                let Some(Edge(u, v, e)) = it.next() else { break };
                if !f(i, (*u.key(), *v.key(), e), "adj") {
                    return false;
                }
                i += 1;
            }
            let _ = it.size_hint();
            true
        }
        pub fn mval_edges(n: &Node<usize, MVal, u32>) -> Vec<(usize, usize, u32)> {
            n.iter().map(|Edge(u, v, e)| (*u.key(), *v.key(), e)).collect()
        }
        pub fn lkey_list(n: &Node<LKey, i64, u32>) -> Vec<(usize, u32)> {
            n.iter().map(|Edge(_, v, e)| (v.key().id, e)).collect()
        }
        pub fn own_list_str(n: &Node<String, i64, u32>) -> (Vec<(String, u32)>, Vec<(String, u32)>) {
            (n.iter().map(|Edge(_, v, e)| (v.key().clone(), e)).collect(), vec![])
        }
        fn nested_search(n: &N, t: usize) -> Option<usize> {
            n.bfs().target(&t).search_path().map(|p| p.len() - 1)
        }
        fn nested_other(kind: &str, n: &N, t: usize) -> Option<usize> {
            match kind {
                "sd" | "st" => n.dfs().target(&t).search_path().map(|p| p.len() - 1),
                "sp" => n.pfs().min().target(&t).search_path().map(|p| p.len() - 1),
                _ => Some(n.order().pre().search_nodes().len()),
            }
        }
        pub fn reversed(st: &St, _out_from_in: bool) -> St {
            St { nodes: st.nodes.clone(), twins: vec![] }
        }
    };
}

macro_rules! conc_dispatch {
    (yes, $m:ident, $st:expr, $ext:expr, $t:expr, $ctx:expr, $case:expr, $li:expr) => {{
        let threads = crate::exec_conc::parse_threads($t[1]);
        let forced = std::mem::take(&mut $ctx.forced_schedule);
        let forced_ids = if forced.is_empty() { std::mem::take(&mut $ctx.forced_ids) } else { vec![] };
        let (line, dec, outcome, fail) = crate::exec_conc::$m::run($st, &threads, forced, forced_ids);
        $ext.annot = Some(format!("@sched={}", dec.iter().map(|d| d.2.to_string()).collect::<Vec<_>>().join(",")));
        $ctx.last_decisions = dec;
        $ctx.last_outcome = Some(outcome);
        if let Some(f) = fail {
            if $ctx.has("c17") {
                $ctx.fail($case, $li, "c17", f);
            }
        }
        line
    }};
    (no, $m:ident, $st:expr, $ext:expr, $t:expr, $ctx:expr, $case:expr, $li:expr) => {
        "unsupported".to_string()
    };
}

/// `Edge` comparison operators exist in digraph, ungraph and sync_ungraph, not in sync_digraph
macro_rules! ecmp_items {
    (yes) => {
        fn edge_cmp(a: &Edge<usize, i64, u32>, b2: &Edge<usize, i64, u32>) -> Option<String> {
            Some(format!("eq={} ne={} lt={} le={} gt={} ge={} cmp={:?} pcmp={:?}", a == b2, a != b2, a < b2, a <= b2, a > b2, a >= b2, a.cmp(b2), a.partial_cmp(b2)))
        }
    };
    (no) => {
        fn edge_cmp(_a: &Edge<usize, i64, u32>, _b: &Edge<usize, i64, u32>) -> Option<String> {
            None
        }
    };
}
macro_rules! new_graph_items {
    (di) => {
        fn graph_sizeof(g: &G) -> Option<usize> { Some(g.sizeof()) }
        fn graph_with_capacity(n: usize) -> G { G::with_capacity(n) }
        fn index_both(g: &G, k: usize) -> (usize, usize) { (*g[k].key(), *g[&k].key()) }
    };
    (sdi) => {
        fn graph_sizeof(g: &G) -> Option<usize> { Some(g.sizeof()) }
        fn graph_with_capacity(_n: usize) -> G { G::default() }
        fn index_both(g: &G, k: usize) -> (usize, usize) { (*g[k].key(), *g[&k].key()) }
    };
    (un) => {
        fn graph_sizeof(g: &G) -> Option<usize> { Some(g.sizeof()) }
        fn graph_with_capacity(_n: usize) -> G { G::default() }
        fn index_both(g: &G, k: usize) -> (usize, usize) { (*g[k].key(), *g[k].key()) }
    };
    (sun) => {
        fn graph_sizeof(_g: &G) -> Option<usize> { None }
        fn graph_with_capacity(_n: usize) -> G { G::default() }
        fn index_both(g: &G, k: usize) -> (usize, usize) { (*g[k].key(), *g[k].key()) }
    };
}
macro_rules! delegate {
    (yes, $n:ident, $op:ident) => {{
        let (a, b, e, kind) = ($n($op.a), $n($op.b), $op.e, $op.kind.clone());
        let (tx, rx) = std::sync::mpsc::channel::<String>();
        std::thread::spawn(move || {
            let r = match kind.as_str() {
                "hc" => {
                    a.connect(&b, e);
                    "ok".to_string()
                }
                "hd" => match a.disconnect(b.key()) {
                    Ok(e) => format!("ok_{e}"),
                    Err(_) => "err_notfound".to_string(),
                },
                _ => {
                    a.isolate();
                    "ok".to_string()
                }
            };
            let _ = tx.send(r);
        });
        // (a helper that never answers stays behind; the case has failed by then)
        rx.recv_timeout(std::time::Duration::from_secs(3)).unwrap_or_else(|_| "HUNG".to_string())
    }};
    (no, $n:ident, $op:ident) => {{
        // plain flavours cannot hand a node to another thread: the mutation itself
        match $op.kind.as_str() {
            "hc" => {
                $n($op.a).connect(&$n($op.b), $op.e);
                "ok".to_string()
            }
            "hd" => match $n($op.a).disconnect(&$op.b) {
                Ok(e) => format!("ok_{e}"),
                Err(_) => "err_notfound".to_string(),
            },
            _ => {
                $n($op.a).isolate();
                "ok".to_string()
            }
        }
    }};
}
macro_rules! ext_mod {
    ($m:ident, $fl:ident, $kind:ident, $ckind:ident, $conc:ident, $ecmp:ident, $ng:ident) => {
        pub mod $m {
            #![allow(unused, clippy::all)]
            use super::*;
            use crate::exec::$m::{St, G, N, DIRECTED};
            use gdsl::$fl::*;
            #[derive(Default)]
            pub struct Ext {
                pub graphs: Vec<G>,
                /// the reference map of the C18 oracle: key -> value of the member
                pub refmaps: Vec<BTreeMap<usize, i64>>,
                pub annot: Option<String>,
                /// address of every node's lock (learned at creation) and the lock trace of the last edge operation
                pub lockmap: Vec<(usize, usize)>,
                pub last_lt: Option<String>,
                /// `#via=` of the current request
                pub via: String,
            }
            kind_search!($kind);
            kind_reversed!($kind);
            cont_kind_items!($ckind);
            ecmp_items!($ecmp);
            new_graph_items!($ng);

            /// `@szc=c0,c1,ck`: fixed part of a node's size, size per outgoing entry, size of a key
            fn sz_annot() -> String {
                use std::mem::size_of;
                let node = size_of::<N>();
                let c0 = node + size_of::<usize>() + size_of::<i64>() + 2 * size_of::<Vec<(usize, u32)>>() + node;
                format!("@szc={},{},{}", c0, node + size_of::<u32>(), size_of::<usize>())
            }
            /// one operation of a C20 script, against the live graph; returns its result as text
            pub fn script_op(st: &St, g0: &RefCell<G>, op: &crate::exec_conc::Call2) -> String {
                let n = |k: usize| st.node(k).clone();
                match op.kind.as_str() {
                    "c" => {
                        n(op.a).connect(&n(op.b), op.e);
                        "ok".into()
                    }
                    "t" => match n(op.a).try_connect(&n(op.b), op.e) {
                        Ok(()) => "ok".into(),
                        Err(_) => "err_exists".into(),
                    },
                    "d" => match n(op.a).disconnect(&op.b) {
                        Ok(e) => format!("ok_{e}"),
                        Err(_) => "err_notfound".into(),
                    },
                    "x" => {
                        n(op.a).isolate();
                        "ok".into()
                    }
                    // the same mutations handed to another thread by the closure, which waits for the answer
                    "hc" | "hd" | "hx" => delegate!($conc, n, op),
                    "q" => format!("{}", n(op.a).is_connected(&op.b) as u8),
                    "s" => match nested_search(&n(op.a), op.b) {
                        Some(l) => format!("len={l}"),
                        None => "none".into(),
                    },
                    "sd" | "sp" | "st" | "so" => match nested_other(op.kind.as_str(), &n(op.a), op.b) {
                        Some(l) => format!("len={l}"),
                        None => "none".into(),
                    },
                    "gi" => format!("{}", g0.borrow_mut().insert(n(op.a))),
                    "gr" => match g0.borrow_mut().remove(&op.a) {
                        Some(x) => format!("Some({})", x.key()),
                        None => "None".into(),
                    },
                    _ => "bad".into(),
                }
            }

            pub fn order_of(g: &G) -> Vec<usize> {
                g.iter().map(|(k, _)| *k).collect()
            }
            fn annot_order(ext: &mut Ext, slot: usize) -> Vec<usize> {
                let o = order_of(&ext.graphs[slot]);
                ext.annot = Some(format!("@order={}", o.iter().map(|k| k.to_string()).collect::<Vec<_>>().join(",")));
                o
            }
            /// what a graph denotes, read back through the public API (not through serde):
            /// nodes in iteration order, then per node its own edge list (outgoing / adjacency)
            pub fn denotation(g: &G) -> (Vec<(usize, i64)>, Vec<(usize, Vec<Entry>, Vec<Entry>)>) {
                let mut nodes = vec![];
                let mut lists = vec![];
                for (k, n) in g.iter() {
                    nodes.push((*k, *n.value()));
                    let (out, inn) = crate::exec::$m::lists_of(n);
                    lists.push((*k, out, inn));
                }
                (nodes, lists)
            }
            fn slot(ext: &mut Ext, i: usize) {
                while ext.graphs.len() <= i {
                    ext.graphs.push(G::new());
                    ext.refmaps.push(BTreeMap::new());
                }
            }
            fn one_line(s: &str) -> String {
                s.replace('\n', "|").replace('\t', "\\t")
            }
            /// replaces the world of the case by the nodes of graph `g` (in `order`) and makes it slot 0
            fn replace_world(st: &mut St, ext: &mut Ext, g: G, order: &[usize]) {
                st.nodes = order.iter().filter_map(|k| g.get(k)).collect();
                ext.refmaps = vec![st.nodes.iter().map(|n| (*n.key(), *n.value())).collect()];
                ext.graphs = vec![g];
            }
            fn ser(g: &G, fmt: &str) -> Result<Vec<u8>, String> {
                if fmt == "json" {
                    serde_json::to_vec(g).map_err(|e| e.to_string())
                } else {
                    serde_cbor::to_vec(g).map_err(|e| e.to_string())
                }
            }
            fn de(bytes: &[u8], fmt: &str) -> Result<G, String> {
                if fmt == "json" {
                    serde_json::from_slice::<G>(bytes).map_err(|e| e.to_string())
                } else {
                    serde_cbor::from_slice::<G>(bytes).map_err(|e| e.to_string())
                }
            }
            fn parse_doc_bytes(bytes: &[u8], fmt: &str) -> Option<Doc> {
                if fmt == "json" {
                    serde_json::from_slice::<Doc>(bytes).ok()
                } else {
                    serde_cbor::from_slice::<Doc>(bytes).ok()
                }
            }
            /// C13: `Deserialize::deserialize_in_place` into a graph that already has content must agree with a fresh
            /// deserialisation of the same bytes (everything in the result comes from the document)
            fn in_place_agrees(bytes: &[u8], fmt: &str, fresh: &Result<G, String>) -> Result<(), String> {
                use serde::Deserialize;
                let mut g = G::new();
                let (a, b2) = (N::new(900_001, 5), N::new(900_002, 6));
                a.connect(&b2, 3);
                g.insert(a);
                g.insert(b2);
                let r: Result<(), String> = if fmt == "json" {
                    let mut de = serde_json::Deserializer::from_slice(bytes);
                    G::deserialize_in_place(&mut de, &mut g).map_err(|e| e.to_string()).and_then(|_| de.end().map_err(|e| e.to_string()))
                } else {
                    let mut de = serde_cbor::Deserializer::from_slice(bytes);
                    G::deserialize_in_place(&mut de, &mut g).map_err(|e| e.to_string()).and_then(|_| de.end().map_err(|e| e.to_string()))
                };
                match (fresh, r) {
                    (Ok(f), Ok(())) => crate::oracle_cont::same_graph(DIRECTED, &denotation(f), &denotation(&g)).map_err(|m| format!("deserialize_in_place into a populated graph differs from a fresh deserialisation: {m}")),
                    (Err(_), Err(_)) => Ok(()),
                    (Ok(_), Err(e)) => Err(format!("fresh deserialisation is Ok but deserialize_in_place fails: {e}")),
                    (Err(e), Ok(())) => Err(format!("fresh deserialisation fails ({e}) but deserialize_in_place returns Ok")),
                }
            }
            /// C13: invariants of an `Ok` graph against the abstract document (if it could be typed)
            fn ok_graph_invariants(g: &G, doc: &Option<Doc>) -> Result<(), String> {
                let (nodes, lists) = denotation(g);
                let ls: Lists = lists.iter().map(|(k, o, i)| NodeLists { key: *k, out: o.clone(), inn: i.clone() }).collect();
                if DIRECTED { mirror(&ls)? } else { symmetric(&ls)? }
                if let Some((dn, de)) = doc {
                    for (k, v) in &nodes {
                        if !dn.iter().any(|x| x.0 == *k && x.1 == *v) {
                            return Err(format!("node ({k},{v}) of the result is not declared in the document"));
                        }
                    }
                    for (k, out, _) in &lists {
                        for (v, e) in out {
                            let listed = de.iter().any(|x| (x.0, x.1, x.2) == (*k, *v, *e)) || (!DIRECTED && de.iter().any(|x| (x.0, x.1, x.2) == (*v, *k, *e)));
                            if !listed {
                                return Err(format!("edge {k}->{v}:{e} of the result is not listed in the document"));
                            }
                        }
                    }
                    let declared: BTreeSet<usize> = dn.iter().map(|x| x.0).collect();
                    if de.iter().any(|x| !declared.contains(&x.0) || !declared.contains(&x.1)) {
                        return Err("an edge of the document names an undeclared key but deserialisation returned Ok".into());
                    }
                }
                Ok(())
            }

            pub fn exec_line(st: &mut St, ext: &mut Ext, t: &[&str], raw: &str, ctx: &mut Ctx, case: &str, li: usize) -> String {
                match t[0] {
                    "search" | "order" => {
                        let mut spec = parse_search(t);
                        if !ext.via.is_empty() {
                            spec.via = ext.via.clone();
                        }
                        let sres: RefCell<Vec<String>> = RefCell::new(vec![]);
                        let sops: RefCell<Vec<crate::exec_conc::Call2>> = RefCell::new(vec![]);
                        let sfail: RefCell<Option<String>> = RefCell::new(None);
                        let g0 = RefCell::new(if ext.graphs.is_empty() { G::new() } else { std::mem::take(&mut ext.graphs[0]) });
                        let out = {
                            let script = spec.script.as_ref().map(|s| crate::exec_cont::parse_script(s));
                            let tr = DIRECTED && spec.tr;
                            let hook_fn = |i: usize, t: (usize, usize, u32)| {
                                // C20: the edge handed to the closure must exist right now, with these endpoints and value
                                let live = st.lists();
                                let n = live.iter().find(|n| n.key == t.0);
                                let ok = n.map_or(false, |n| if tr { n.inn.contains(&(t.1, t.2)) } else { n.out.contains(&(t.1, t.2)) });
                                if !ok && sfail.borrow().is_none() {
                                    *sfail.borrow_mut() = Some(format!("the closure was handed {:?}, which is not an edge of the graph at that moment", t));
                                }
                                if let Some(sc) = &script {
                                    for op in crate::exec_cont::ops_at(sc, i) {
                                        let r = script_op(st, &g0, &op);
                                        if r == "HUNG" && sfail.borrow().is_none() {
                                            *sfail.borrow_mut() = Some(format!("`{}.{}.{}`: a mutation the closure handed to another thread had not returned after 3 s while the closure waited for it (deadlock)", op.kind, op.a, op.b));
                                        }
                                        sres.borrow_mut().push(r);
                                        sops.borrow_mut().push(op);
                                    }
                                }
                            };
                            do_search(st, &spec, if spec.script.is_some() { Some(&hook_fn) } else { None })
                        };
                        if !ext.graphs.is_empty() {
                            ext.graphs[0] = g0.into_inner();
                        }
                        if let Some(m) = sfail.into_inner() {
                            if ctx.has("c20") {
                                ctx.fail(case, li, "c20", m);
                            }
                        }
                        ctx.count(&format!("search.{}.{}.{}", spec.kind, spec.mode, if spec.mode == "nodes" || spec.mode == "edges" { "list" } else if out.node.is_some() || out.path.is_some() { "found" } else { "none" }));
                        if !ctx.quiet && !ctx.oracles.is_empty() {
                            let ls = st.lists();
                            let vals: Vec<(usize, i64)> = st.nodes.iter().map(|n| (*n.key(), *n.value())).collect();
                            if spec.mode.contains('+') {
                                // builder reuse: the statement is evaluated on every stage
                                // stages before a graph mutation saw another graph: the statement is evaluated (against the
                                // lists as they are now) on the stages after the last mutation
                                let first = out.stages.iter().rposition(|(m, _, _)| stage_mutation(m).is_some()).map_or(0, |i| i + 1);
                                for (m, tg, so) in &out.stages[first..] {
                                    let mut sp = spec.clone();
                                    sp.mode = m.clone();
                                    sp.target = *tg;
                                    for (name, msg) in os::check(DIRECTED, &ls, &vals, &sp, so, &ctx.oracles) {
                                        ctx.fail(case, li, &name, format!("(stage `{m}` of a reused builder) {msg}"));
                                    }
                                }
                            } else {
                                for (name, msg) in os::check(DIRECTED, &ls, &vals, &spec, &out, &ctx.oracles) {
                                    ctx.fail(case, li, &name, msg);
                                }
                            }
                        }
                        let mut shown = show_search(&spec, &out);
                        if let Some(sc) = &spec.script {
                            // a closure that only looks (queries, nested traversals) must see exactly the static traversal
                            let read_only = crate::exec_cont::parse_script(sc).iter().all(|e| e.ops.iter().all(|o| ["q", "s", "sd", "sp", "st", "so"].contains(&o.kind.as_str())));
                            if read_only && !ctx.oracles.is_empty() {
                                let oname = if ctx.has("c20") { "c20".to_string() } else { ctx.oracles[0].clone() };
                                // ... and what it sees is the graph as it is: a question or a nested traversal asked from inside
                                // the closure has the answer it has when asked on its own (the graph has not changed)
                                {
                                    let g1 = RefCell::new(G::new());
                                    let rs = sres.borrow();
                                    for (op, r) in sops.borrow().iter().zip(rs.iter()) {
                                        let alone = script_op(st, &g1, op);
                                        if alone != *r {
                                            ctx.fail(case, li, &oname, format!("`{}.{}.{}` asked from inside the closure of `{raw}` answered `{r}`, asked on its own it answers `{alone}` (the closure only looks at the graph)", op.kind, op.a, op.b));
                                            break;
                                        }
                                    }
                                }
                                let mut plain = spec.clone();
                                plain.script = None;
                                let shown0 = show_search(&plain, &do_search(st, &plain, None));
                                if shown0 != shown {
                                    ctx.fail(case, li, &oname, format!("the closure only looks at the graph (`{sc}`), yet the traversal differs from the one without it: `{shown}` instead of `{shown0}`"));
                                }
                            }
                        }
                        if spec.method == "none" && spec.script.is_none() && !ctx.quiet && !ctx.oracles.is_empty() && !spec.mode.contains('+') {
                            // an observer does not change the result: the same search with a for_each closure that only records
                            // returns the same node / path / cycle / ordering
                            let mut watched = spec.clone();
                            watched.method = "each".into();
                            let out_w = do_search(st, &watched, None);
                            let strip = |x: &str| -> String { x.split(" trace=").next().unwrap_or("").to_string() };
                            let (a, b) = (strip(&show_search(&spec, &out)), strip(&show_search(&watched, &out_w)));
                            if a != b {
                                let oname = ctx.oracles[0].clone();
                                ctx.fail(case, li, &oname, format!("`{raw}` returns `{a}`, but the same search with a for_each closure that only watches returns `{b}`: an observer must not change the result"));
                            }
                        }
                        if spec.script.is_some() {
                            shown.push_str(&format!(" res=[{}]", sres.into_inner().join(",")));
                        }
                        if DIRECTED && !ctx.quiet && ctx.oracles.iter().any(|o| o == "c08") && !spec.dflt && spec.script.is_none() && !spec.mode.split('+').any(|m| stage_mutation(m).is_some()) {
                            // metamorphic: transpose() on G == the same search without it on the edge-reversed graph
                            let rev = reversed(st, spec.tr);
                            let mut spec2 = spec.clone();
                            spec2.tr = !spec.tr;
                            let out2 = do_search(&rev, &spec2, None);
                            let shown2 = show_search(&spec2, &out2);
                            if shown != shown2 {
                                ctx.fail(case, li, "c08", format!("`{}` gives `{}` but the {} search on the edge-reversed graph gives `{}`", raw, shown, if spec2.tr { "transposed" } else { "plain" }, shown2));
                            }
                        }
                        shown
                    }
                    "iter" => {
                        // iter <out|in|adj> <u> <script> : a plain `for edge in node.iter_*()` loop whose body runs the script
                        let u = t[2].parse::<usize>().unwrap();
                        let script = crate::exec_cont::parse_script(t[3]);
                        let g0 = RefCell::new(if ext.graphs.is_empty() { G::new() } else { std::mem::take(&mut ext.graphs[0]) });
                        let mut yielded: Vec<(usize, usize, u32)> = vec![];
                        let mut res: Vec<String> = vec![];
                        let mut bad: Option<String> = None;
                        let node = st.node(u).clone();
                        // `iter ... fold`: the loop is driven by `Iterator::for_each` instead of a `for` statement
                        // a second iterator over the same list is created first, stepped once and left suspended while the loop
                        // under test (and whatever its body does) runs; it is drained afterwards
                        // (`over`: sent past the end first - `nth` beyond the list answers None and leaves the cursor at the end)
                        let it2 = second_iter(&node, t[1], t.iter().skip(4).any(|x| *x == "over"));
                        let looper: fn(&N, &str, &mut dyn FnMut(usize, (usize, usize, u32), &str) -> bool) -> bool = if t.iter().skip(4).any(|x| *x == "fold") { iter_fold } else { iter_loop };
                        let r = looper(&node, t[1], &mut |i, tri, which| {
                            let live = st.lists();
                            let n = live.iter().find(|n| n.key == u).unwrap();
                            let ok = match which {
                                "in" => tri.1 == u && n.inn.contains(&(tri.0, tri.2)),
                                _ => tri.0 == u && n.out.contains(&(tri.1, tri.2)),
                            };
                            if !ok && bad.is_none() {
                                bad = Some(format!("the iterator yielded {:?}, which is not an edge of node {u} at that moment", tri));
                            }
                            yielded.push(tri);
                            for op in crate::exec_cont::ops_at(&script, i) {
                                let r = script_op(st, &g0, &op);
                                if r == "HUNG" && bad.is_none() {
                                    bad = Some(format!("`{}.{}.{}`: a mutation the loop body handed to another thread had not returned after 3 s while the body waited for it (deadlock)", op.kind, op.a, op.b));
                                }
                                res.push(r);
                            }
                            yielded.len() < 300
                        });
                        // the suspended iterator goes on: what it yields now exists now
                        let mut drained: Vec<(usize, usize, u32)> = vec![];
                        for (k, tri) in it2.enumerate() {
                            drained.push(tri);
                            let live = st.lists();
                            let n = live.iter().find(|n| n.key == u).unwrap();
                            let ok = if t[1] == "in" { tri.1 == u && n.inn.contains(&(tri.0, tri.2)) } else { tri.0 == u && n.out.contains(&(tri.1, tri.2)) };
                            if !ok && bad.is_none() {
                                bad = Some(format!("a second iterator over the same list, suspended while the loop ran, then yielded {:?}, which is not an edge of node {u} at that moment", tri));
                            }
                            if k > 400 {
                                break;
                            }
                        }
                        if !ext.graphs.is_empty() {
                            ext.graphs[0] = g0.into_inner();
                        }
                        if ctx.has("c20") {
                            if let Some(m) = bad {
                                ctx.fail(case, li, "c20", m);
                            }
                            if !r {
                                ctx.fail(case, li, "c20", format!("`{raw}`: the loop did not end within 300 steps although the script stopped adding edges"));
                            }
                        }
                        if !r { "hang".to_string() } else { format!("yield={} res=[{}] it2={}", fmt_edges(&yielded), res.join(","), fmt_edges(&drained)) }
                    }
                    "lt" => match &ext.last_lt {
                        // lock trace of the preceding edge operation (sync flavours; empty for the plain ones)
                        Some(s) => format!("lt={s}"),
                        None => "lt=".to_string(),
                    },
                    "conc" => conc_dispatch!($conc, $m, st, ext, t, ctx, case, li),
                    "cmp" => {
                        // cmp k1 v1 k2 v2 : comparison operators on two fresh nodes
                        let a = N::new(t[1].parse().unwrap(), t[2].parse().unwrap());
                        let b2 = N::new(t[3].parse().unwrap(), t[4].parse().unwrap());
                        let s = format!("eq={} ne={} lt={} le={} gt={} ge={} cmp={:?} pcmp={:?}", a == b2, a != b2, a < b2, a <= b2, a > b2, a >= b2, a.cmp(&b2), a.partial_cmp(&b2));
                        if !ctx.quiet && ctx.oracles.iter().any(|o| o == "c06") {
                            let (k1, v1, k2, v2): (usize, i64, usize, i64) = (t[1].parse().unwrap(), t[2].parse().unwrap(), t[3].parse().unwrap(), t[4].parse().unwrap());
                            if (a == b2) != (k1 == k2) || a.cmp(&b2) != v1.cmp(&v2) || a.partial_cmp(&b2) != Some(v1.cmp(&v2)) || (a < b2) != (v1 < v2) {
                                ctx.fail(case, li, "c06", format!("comparison of node({k1},{v1}) with node({k2},{v2}): {s}"));
                            }
                        }
                        s
                    }
                    "pfsmut" => {
                        // pfsmut <seed> <min|max>: priority-first traversal over node values with interior mutability that the
                        // for_each closure lowers (raises) while the nodes are queued - the Dijkstra idiom. What a heap does when its
                        // elements change order is unspecified; that the closure is called exactly once for every edge leaving a
                        // reachable node (C07) is not. The line shows the calls and the final values (compared between the members
                        // of a pair by C15, not by the model).
                        use std::sync::atomic::Ordering::SeqCst;
                        let mut x = t[1].parse::<u64>().unwrap_or(1).wrapping_mul(6364136223846793005).wrapping_add(1442695040888963407);
                        let mut next = |m: u64| -> u64 {
                            x = x.wrapping_mul(6364136223846793005).wrapping_add(1442695040888963407);
                            (x >> 33) % m
                        };
                        let maxq = t.get(2) == Some(&"max");
                        let n = 4 + next(4) as usize;
                        let far: i64 = if maxq { -1000 } else { 1000 };
                        let nodes: Vec<Node<usize, MVal, u32>> = (0..n).map(|i| Node::new(i, MVal(std::sync::atomic::AtomicI64::new(if i == 0 { 0 } else { far })))).collect();
                        let mut edges: Vec<(usize, usize, u32)> = vec![];
                        for i in 0..n - 1 {
                            if next(4) != 0 {
                                edges.push((i, i + 1, 1 + next(9) as u32));
                            }
                        }
                        for _ in 0..n + next(n as u64) as usize {
                            edges.push((next(n as u64) as usize, next(n as u64) as usize, 1 + next(9) as u32));
                        }
                        for (u, v, e) in &edges {
                            nodes[*u].connect(&nodes[*v], *e);
                        }
                        let calls: RefCell<Vec<(usize, usize, u32)>> = RefCell::new(vec![]);
                        let mut f = |e: &Edge<usize, MVal, u32>| {
                            calls.borrow_mut().push((*e.0.key(), *e.1.key(), e.2));
                            let du = e.0.value().0.load(SeqCst);
                            let nd = if maxq { du - e.2 as i64 } else { du + e.2 as i64 };
                            let dv = e.1.value().0.load(SeqCst);
                            if (maxq && nd > dv) || (!maxq && nd < dv) {
                                e.1.value().0.store(nd, SeqCst);
                            }
                        };
                        if maxq {
                            let _ = nodes[0].pfs().max().for_each(&mut f).search();
                        } else {
                            let _ = nodes[0].pfs().min().for_each(&mut f).search();
                        }
                        let calls = calls.into_inner();
                        if !ctx.quiet && ctx.oracles.iter().any(|o| o == "c07") {
                            // reachable nodes and their own edges, read through the public API after the traversal
                            let mut reach = vec![0usize];
                            let mut i = 0;
                            let own = |k: usize| -> Vec<(usize, usize, u32)> { mval_edges(&nodes[k]) };
                            while i < reach.len() {
                                for (_, v, _) in own(reach[i]) {
                                    if !reach.contains(&v) {
                                        reach.push(v);
                                    }
                                }
                                i += 1;
                            }
                            let mut want: Vec<(usize, usize, u32)> = reach.iter().flat_map(|k| own(*k)).collect();
                            let mut got = calls.clone();
                            want.sort();
                            got.sort();
                            if want != got {
                                ctx.fail(case, li, "c07", format!("priority-first traversal over node values that the closure changes while nodes are queued: the closure was called for {:?}; the edges leaving the reachable nodes are {:?} (each exactly once)", got, want));
                            }
                        }
                        let vals: Vec<String> = nodes.iter().map(|nd| nd.value().0.load(SeqCst).to_string()).collect();
                        ext.annot = None;
                        format!("calls={} vals=[{}]", fmt_edges(&calls), vals.join(","))
                    }
                    "ecmp" => {
                        // ecmp u i v j : comparison operators on the i-th edge node u iterates and the j-th edge node v iterates
                        let p = |j: usize| -> usize { t[j].parse::<usize>().unwrap() };
                        let ea = st.node(p(1)).into_iter().nth(p(2));
                        let eb = st.node(p(3)).into_iter().nth(p(4));
                        match (ea, eb) {
                            (Some(a), Some(b2)) => match edge_cmp(&a, &b2) {
                                None => "unsupported".into(),
                                Some(s) => {
                                    if !ctx.quiet && ctx.oracles.iter().any(|o| o == "c06") {
                                        let same = if DIRECTED { a.source().key() == b2.source().key() && a.target().key() == b2.target().key() } else { a.2 == b2.2 };
                                        let want = format!("eq={} ne={} lt={} le={} gt={} ge={} cmp={:?} pcmp={:?}", same, !same, a.2 < b2.2, a.2 <= b2.2, a.2 > b2.2, a.2 >= b2.2, a.2.cmp(&b2.2), Some(a.2.cmp(&b2.2)));
                                        if s != want {
                                            ctx.fail(case, li, "c06", format!("comparison of edges: {s}, expected {want}"));
                                        }
                                    }
                                    s
                                }
                            },
                            _ => "none".into(),
                        }
                    }
                    "sz" => {
                        // sz u : Node::sizeof; the layout constants come from std::mem::size_of here, not from the crate
                        let n = st.node(t[1].parse().unwrap());
                        ext.annot = Some(sz_annot());
                        format!("sz={}", n.sizeof())
                    }
                    "nv" => {
                        // nv u : key, value through value() and through Deref
                        let n = st.node(t[1].parse().unwrap());
                        let d: &i64 = &**n;
                        format!("key={} val={} deref={}", n.key(), n.value(), d)
                    }
                    x if x.starts_with("g.") => {
                        let i: usize = t[1].parse().unwrap();
                        slot(ext, i);
                        let c18 = !ctx.quiet && ctx.oracles.iter().any(|o| o == "c18");
                        let p = |j: usize| -> usize { t[j].parse::<usize>().unwrap() };
                        match x {
                            "g.sz" => {
                                ext.annot = Some(sz_annot());
                                match graph_sizeof(&ext.graphs[i]) {
                                    Some(x) => format!("sz={x}"),
                                    None => "unsupported".into(),
                                }
                            }
                            "g.newcap" => {
                                // with_capacity where the flavour has it, Default otherwise
                                ext.graphs[i] = graph_with_capacity(p(2));
                                ext.refmaps[i] = BTreeMap::new();
                                "ok".into()
                            }
                            "g.new" => {
                                ext.graphs[i] = G::new();
                                ext.refmaps[i] = BTreeMap::new();
                                "ok".into()
                            }
                            "g.insert" => {
                                let n = st.node(p(2)).clone();
                                let r = ext.graphs[i].insert(n.clone());
                                let fresh = !ext.refmaps[i].contains_key(&p(2));
                                if c18 && !(r == fresh) { ctx.fail(case, li, "c18", format!("insert({}) returned {} but the key was {}", p(2), r, if fresh { "absent" } else { "present" })); }
                                ext.refmaps[i].entry(p(2)).or_insert(*n.value());
                                format!("{r}")
                            }
                            "g.insert_dup" => {
                                // a different node with an already present key: must be refused, the original kept
                                if !ext.graphs[i].contains(&p(2)) {
                                    "skip".into()
                                } else {
                                    let dup = N::new(p(2), t[3].parse::<i64>().unwrap());
                                    let r = ext.graphs[i].insert(dup);
                                    let kept = ext.graphs[i].get(&p(2)).map(|n| *n.value());
                                    if c18 && !(!r && kept == ext.refmaps[i].get(&p(2)).cloned()) { ctx.fail(case, li, "c18", format!("insert of a second node with key {} returned {} and the container now holds value {:?} (original {:?})", p(2), r, kept, ext.refmaps[i].get(&p(2)))); }
                                    format!("{r} get={:?}", kept)
                                }
                            }
                            "g.remove" => {
                                let r = ext.graphs[i].remove(&p(2)).map(|n| (*n.key(), *n.value()));
                                let e2 = ext.refmaps[i].remove(&p(2)).map(|v| (p(2), v));
                                if c18 && !(r == e2) { ctx.fail(case, li, "c18", format!("remove({}) returned {:?}, the map holds {:?}", p(2), r, e2)); }
                                format!("{:?}", r.map(|x| x.0))
                            }
                            "g.get" => {
                                let r = ext.graphs[i].get(&p(2)).map(|n| (*n.key(), *n.value()));
                                let e2 = ext.refmaps[i].get(&p(2)).map(|v| (p(2), *v));
                                if c18 && !(r == e2) { ctx.fail(case, li, "c18", format!("get({}) returned {:?}, the map holds {:?}", p(2), r, e2)); }
                                match r {
                                    Some((k, v)) => format!("Some({k}:{v})"),
                                    None => "None".into(),
                                }
                            }
                            "g.index" => {
                                let (k1, k2) = index_both(&ext.graphs[i], p(2));
                                if c18 && (k1 != p(2) || k2 != p(2)) { ctx.fail(case, li, "c18", format!("index({}) yields nodes {k1} / {k2}", p(2))); }
                                let n = &ext.graphs[i][p(2)];
                                if c18 && !(Some(n.value()) == ext.refmaps[i].get(&p(2))) { ctx.fail(case, li, "c18", format!("index({}) yields value {}", p(2), n.value())); }
                                format!("{}:{}", n.key(), n.value())
                            }
                            "g.contains" => {
                                let r = ext.graphs[i].contains(&p(2));
                                if c18 && !(r == ext.refmaps[i].contains_key(&p(2))) { ctx.fail(case, li, "c18", format!("contains({}) = {}", p(2), r)); }
                                format!("{r}")
                            }
                            "g.len" => {
                                let r = ext.graphs[i].len();
                                if c18 && !(r == ext.refmaps[i].len()) { ctx.fail(case, li, "c18", format!("len() = {} but {} members", r, ext.refmaps[i].len())); }
                                format!("{r}")
                            }
                            "g.is_empty" => {
                                let r = ext.graphs[i].is_empty();
                                if c18 && !(r == ext.refmaps[i].is_empty()) { ctx.fail(case, li, "c18", format!("is_empty() = {}", r)); }
                                format!("{r}")
                            }
                            "g.connect" => {
                                // an edge operation through container handles must be visible through every other handle
                                let (u, v) = (ext.graphs[i].get(&p(2)).unwrap(), ext.graphs[i].get(&p(3)).unwrap());
                                let before = st.lists();
                                u.connect(&v, p(4) as u32);
                                let after = st.lists();
                                if c18 {
                                    if let Err(m) = contract(DIRECTED, &EdgeOp::Connect(p(2), p(3), p(4) as u32), &before, &after, &OpRes::Unit) {
                                        ctx.fail(case, li, "c18", format!("connect through container handles is not visible through the original handles: {m}"));
                                    }
                                }
                                "ok".into()
                            }
                            "g.to_vec" => {
                                let o = annot_order(ext, i);
                                let r: Vec<usize> = ext.graphs[i].to_vec().iter().map(|n| *n.key()).collect();
                                let s1: BTreeSet<usize> = r.iter().cloned().collect();
                                if c18 && !(r.len() == ext.refmaps[i].len() && s1 == ext.refmaps[i].keys().cloned().collect()) { ctx.fail(case, li, "c18", format!("to_vec() = {:?} but the members are {:?}", r, ext.refmaps[i].keys())); }
                                let _ = o;
                                fmt_keys(&r)
                            }
                            "g.iter" => {
                                let _o = annot_order(ext, i);
                                let r: Vec<(usize, i64)> = ext.graphs[i].iter().map(|(k, n)| (*k, *n.value())).collect();
                                let m: BTreeMap<usize, i64> = r.iter().cloned().collect();
                                if c18 && !(r.len() == m.len() && m == ext.refmaps[i] && ext.graphs[i].iter().all(|(k, n)| k == n.key())) { ctx.fail(case, li, "c18", format!("iter() = {:?} but the map is {:?}", r, ext.refmaps[i])); }
                                format!("[{}]", r.iter().map(|(k, v)| format!("{k}:{v}")).collect::<Vec<_>>().join(","))
                            }
                            "g.roots" | "g.leaves" | "g.orphans" => {
                                let _o = annot_order(ext, i);
                                let r = views(&ext.graphs[i], x);
                                if c18 {
                                    let ls = st.lists();
                                    let mut expect_set: BTreeSet<usize> = BTreeSet::new();
                                    for k in ext.refmaps[i].keys() {
                                        if let Some(n) = ls.iter().find(|n| n.key == *k) {
                                            let ok = match (x, DIRECTED) {
                                                ("g.roots", true) => n.inn.is_empty(),
                                                ("g.leaves", true) => n.out.is_empty(),
                                                _ => n.out.is_empty() && n.inn.is_empty(),
                                            };
                                            if ok {
                                                expect_set.insert(*k);
                                            }
                                        }
                                    }
                                    let got: BTreeSet<usize> = r.iter().cloned().collect();
                                    if c18 && !(got == expect_set && got.len() == r.len()) { ctx.fail(case, li, "c18", format!("{} = {:?} but the members with that property are {:?}", x, r, expect_set)); }
                                }
                                fmt_keys(&r)
                            }
                            "g.scc" => {
                                let _o = annot_order(ext, i);
                                match scc_of(&ext.graphs[i]) {
                                    None => "unsupported".into(),
                                    Some(cs) => {
                                        if !ctx.quiet && ctx.oracles.iter().any(|o| o == "c11") {
                                            let ls = st.lists();
                                            let members: Vec<usize> = ext.refmaps[i].keys().cloned().collect();
                                            let closed = members.iter().all(|m| ls.iter().find(|n| n.key == *m).map_or(true, |n| n.out.iter().chain(n.inn.iter()).all(|p| members.contains(&p.0))));
                                            if !closed {
                                                ctx.count("scc.not_closed_skipped");
                                            } else if let Err(m) = crate::oracle_cont::scc_partition(&ls, &members, &cs) {
                                                ctx.fail(case, li, "c11", m);
                                            }
                                        }
                                        format!("[{}]", cs.iter().map(|c| fmt_keys(c)).collect::<Vec<_>>().join(","))
                                    }
                                }
                            }
                            "g.to_dot" => {
                                let _o = annot_order(ext, i);
                                let s = ext.graphs[i].to_dot();
                                if c18 {
                                    let ls = st.lists();
                                    if let Err(m) = crate::oracle_cont::dot_plain(&s, &ls, &ext.refmaps[i].keys().cloned().collect::<Vec<_>>()) {
                                        ctx.fail(case, li, "c18", m);
                                    }
                                }
                                one_line(&s)
                            }
                            "g.to_dot_attr" => {
                                let _o = annot_order(ext, i);
                                match dot_attr(&ext.graphs[i], p(2)) {
                                    None => "unsupported".into(),
                                    Some(s) => {
                                        if c18 {
                                            let ls = st.lists();
                                            if let Err(m) = crate::oracle_cont::dot_attr(&s, &ls, &ext.refmaps[i], p(2)) {
                                                ctx.fail(case, li, "c18", m);
                                            }
                                        }
                                        one_line(&s)
                                    }
                                }
                            }
                            "g.ser" => {
                                let _o = annot_order(ext, i);
                                let bytes = ser(&ext.graphs[i], t[2]).unwrap();
                                match parse_doc_bytes(&bytes, t[2]) {
                                    Some(d) => show_doc(&d),
                                    None => "unparsable".into(),
                                }
                            }
                            "g.serraw" => {
                                let _o = annot_order(ext, i);
                                let bytes = ser(&ext.graphs[i], t[2]).unwrap();
                                if t[2] == "json" { String::from_utf8_lossy(&bytes).replace('\n', "|").replace(' ', "_") } else { crate::exec_cont::hex(&bytes) }
                            }
                            "g.roundtrip" => {
                                let o = annot_order(ext, i);
                                let bytes = ser(&ext.graphs[i], t[2]).unwrap();
                                match de(&bytes, t[2]) {
                                    Err(m) => {
                                        if !ctx.quiet && ctx.oracles.iter().any(|o| o == "c12") {
                                            // the serialised form names the members' own edges: if every one of them ends at a member,
                                            // the document declares every key it uses and must be accepted
                                            let (nodes, lists) = denotation(&ext.graphs[i]);
                                            let members: BTreeSet<usize> = nodes.iter().map(|x| x.0).collect();
                                            let closed = lists.iter().all(|(_, out, _)| out.iter().all(|(v, _)| members.contains(v)));
                                            if closed {
                                                ctx.fail(case, li, "c12", format!("{} round trip: every edge of a member ends at a member, yet deserialising the serialised container failed: {m}", t[2]));
                                            }
                                        }
                                        format!("err")
                                    }
                                    Ok(g2) => {
                                        if !ctx.quiet && ctx.oracles.iter().any(|o| o == "c12") {
                                            if let Err(m) = crate::oracle_cont::same_graph(DIRECTED, &denotation(&ext.graphs[i]), &denotation(&g2)) {
                                                ctx.fail(case, li, "c12", format!("{} round trip: {m}", t[2]));
                                            }
                                        }
                                        replace_world(st, ext, g2, &o);
                                        "ok".into()
                                    }
                                }
                            }
                            "g.de" => {
                                // g.de <slot> <json|cbor> <document as compact JSON text>
                                let text = raw.splitn(4, ' ').nth(3).unwrap_or("");
                                let (abs, doc) = abstract_doc(text);
                                ext.annot = Some(format!("@abs={abs}"));
                                let bytes: Vec<u8> = if t[2] == "json" {
                                    text.as_bytes().to_vec()
                                } else {
                                    match serde_json::from_str::<serde_json::Value>(text) {
                                        Ok(v) => serde_cbor::to_vec(&v).unwrap(),
                                        Err(_) => text.as_bytes().to_vec(),
                                    }
                                };
                                let r = de(&bytes, t[2]);
                                let c13 = !ctx.quiet && ctx.oracles.iter().any(|o| o == "c13");
                                if c13 {
                                    if let Err(m) = in_place_agrees(&bytes, t[2], &r) {
                                        ctx.fail(case, li, "c13", format!("`{}` ({}): {m}", text, t[2]));
                                    }
                                }
                                match r {
                                    Err(_) => {
                                        if abs == "any" { "any".into() } else { "err".into() }
                                    }
                                    Ok(g2) => {
                                        if c13 {
                                            if let Err(m) = ok_graph_invariants(&g2, &doc) {
                                                ctx.fail(case, li, "c13", format!("deserialising `{}` ({}) returned Ok but {m}", text, t[2]));
                                            }
                                        }
                                        if abs == "any" {
                                            "any".into()
                                        } else {
                                            let mut order: Vec<usize> = vec![];
                                            if let Some((dn, _)) = &doc {
                                                for (k, _) in dn {
                                                    if !order.contains(k) {
                                                        order.push(*k);
                                                    }
                                                }
                                            }
                                            let n = g2.len();
                                            replace_world(st, ext, g2, &order);
                                            format!("ok n={n}")
                                        }
                                    }
                                }
                            }
                            "g.deraw" => {
                                // g.deraw <slot> <json|cbor> <hex bytes>: the bytes go to the real deserialiser unchanged;
                                // the answer is compared exactly with the byte-level models (Model/Json.lean, Model/Cbor.lean)
                                let bytes = crate::exec_cont::unhex(t.get(3).copied().unwrap_or(""));
                                let r = de(&bytes, t[2]);
                                let c13 = !ctx.quiet && ctx.oracles.iter().any(|o| o == "c13");
                                if c13 {
                                    if let Err(m) = in_place_agrees(&bytes, t[2], &r) {
                                        ctx.fail(case, li, "c13", format!("{} bytes {}: {m}", t[2], t.get(3).copied().unwrap_or("")));
                                    }
                                }
                                let doc: Option<Doc> = if t[2] == "json" {
                                    serde_json::from_slice::<Doc>(&bytes).ok()
                                        .or_else(|| serde_json::from_slice::<(Vec<(usize, i64)>,)>(&bytes).ok().map(|x| (x.0, vec![])))
                                        .or_else(|| serde_json::from_slice::<Vec<serde::de::IgnoredAny>>(&bytes).ok().filter(|v| v.is_empty()).map(|_| (vec![], vec![])))
                                } else {
                                    serde_cbor::from_slice::<Doc>(&bytes).ok()
                                        .or_else(|| serde_cbor::from_slice::<(Vec<(usize, i64)>,)>(&bytes).ok().map(|x| (x.0, vec![])))
                                };
                                match r {
                                    Err(_) => "err".into(),
                                    Ok(g2) => {
                                        if c13 {
                                            if let Err(m) = ok_graph_invariants(&g2, &doc) {
                                                ctx.fail(case, li, "c13", format!("deserialising the {} bytes {} returned Ok but {m}", t[2], t.get(3).copied().unwrap_or("")));
                                            }
                                        }
                                        {
                                            let mut order: Vec<usize> = vec![];
                                            match &doc {
                                                Some((dn, _)) => for (k, _) in dn { if !order.contains(k) { order.push(*k); } },
                                                None => { order = g2.iter().map(|(k, _)| *k).collect(); order.sort(); }
                                            }
                                            let n = g2.len();
                                            replace_world(st, ext, g2, &order);
                                            format!("ok n={n}")
                                        }
                                    }
                                }
                            }
                            "g.rtcell" => {
                                // g.rtcell <slot> <seed>: node values with interior mutability: serialise, change values in place, serialise
                                // again - the second document carries the values as they are then (judged by C12's statement alone)
                                type GM = Graph<usize, MVal, u32>;
                                use std::sync::atomic::Ordering::SeqCst;
                                let sd = t[2].parse::<i64>().unwrap_or(1);
                                let n = 2 + (sd % 3) as usize;
                                let mut g = GM::new();
                                let nodes: Vec<Node<usize, MVal, u32>> = (0..n).map(|i| Node::new(i, MVal(std::sync::atomic::AtomicI64::new(i as i64)))).collect();
                                for nd in &nodes {
                                    g.insert(nd.clone());
                                }
                                nodes[0].connect(&nodes[1], 3);
                                if !ctx.quiet && ctx.oracles.iter().any(|o| o == "c12") {
                                    for fmt in ["json", "cbor"] {
                                        let ser = |g: &GM| -> Vec<u8> { if fmt == "json" { serde_json::to_vec(g).unwrap() } else { serde_cbor::to_vec(g).unwrap() } };
                                        let _first = ser(&g);
                                        for (i, nd) in nodes.iter().enumerate() {
                                            nd.value().0.store(100 + sd + i as i64, SeqCst);
                                        }
                                        let second = ser(&g);
                                        let back: Result<GM, String> = if fmt == "json" { serde_json::from_slice::<GM>(&second).map_err(|e| e.to_string()) } else { serde_cbor::from_slice::<GM>(&second).map_err(|e| e.to_string()) };
                                        match back {
                                            Err(m) => ctx.fail(case, li, "c12", format!("{fmt} round trip of a graph with mutable node values failed: {m}")),
                                            Ok(g2) => {
                                                for (i, _) in nodes.iter().enumerate() {
                                                    let got = g2.get(&i).map(|x| x.value().0.load(SeqCst));
                                                    if got != Some(100 + sd + i as i64) {
                                                        ctx.fail(case, li, "c12", format!("{fmt}: node {i} had the value {} when the container was serialised, the round trip gives {:?} (the value was changed in place after an earlier serialisation)", 100 + sd + i as i64, got));
                                                        break;
                                                    }
                                                }
                                            }
                                        }
                                        for (i, nd) in nodes.iter().enumerate() {
                                            nd.value().0.store(i as i64, SeqCst);
                                        }
                                    }
                                }
                                "robust".into()
                            }
                            "g.denest" => {
                                // g.denest <slot> <seed>: node values that are themselves graphs of this flavour (legal: Clone + Deserialize
                                // through a shared pointer); deserialising the outer document must return (C13: never hangs)
                                #[derive(Clone)]
                                struct Sub(std::sync::Arc<Graph<usize, i64, u32>>);
                                impl<'de> serde::Deserialize<'de> for Sub {
                                    fn deserialize<D: serde::Deserializer<'de>>(d: D) -> Result<Self, D::Error> {
                                        Ok(Sub(std::sync::Arc::new(Graph::<usize, i64, u32>::deserialize(d)?)))
                                    }
                                }
                                type GO = Graph<usize, Sub, u32>;
                                let sd = t[2].parse::<u64>().unwrap_or(1);
                                let inner = "[[[0,1],[1,2]],[[0,1,7]]]";
                                let docs = [
                                    format!("[[[0,{inner}],[1,{inner}]],[[0,1,{}]]]", sd % 5),
                                    format!("[[[0,{inner}]],[[0,9,1]]]"),
                                    format!("[[[0,[[[0,1]],[[0,5,1]]]]],[]]"),
                                ];
                                for (di, d) in docs.iter().enumerate() {
                                    let v: serde_json::Value = serde_json::from_str(d).unwrap();
                                    for fmt in ["json", "cbor"] {
                                        let r: Result<GO, String> = if fmt == "json" { serde_json::from_str::<GO>(d).map_err(|e| e.to_string()) } else { serde_cbor::from_slice::<GO>(&serde_cbor::to_vec(&v).unwrap()).map_err(|e| e.to_string()) };
                                        let want_ok = di == 0;
                                        if !ctx.quiet && ctx.oracles.iter().any(|o| o == "c13") && r.is_ok() != want_ok {
                                            ctx.fail(case, li, "c13", format!("{fmt} document of a graph whose node values are graphs: expected {}, got {}", if want_ok { "Ok" } else { "Err (an undeclared key)" }, if r.is_ok() { "Ok".to_string() } else { r.err().unwrap() }));
                                        }
                                    }
                                }
                                "robust".into()
                            }
                            "g.rtlossy" => {
                                // g.rtlossy <slot> <seed>: a small closed graph over keys whose Display text and hash collide, serialised
                                // and read back in both formats; judged by the statement of C12 alone (the model has no such key type)
                                type GL = Graph<LKey, i64, u32>;
                                let mut x = t[2].parse::<u64>().unwrap_or(1).wrapping_mul(6364136223846793005).wrapping_add(1442695040888963407);
                                let mut next = |m: u64| -> u64 {
                                    x = x.wrapping_mul(6364136223846793005).wrapping_add(1442695040888963407);
                                    (x >> 33) % m
                                };
                                let n = 2 + next(4) as usize;
                                let mut g = GL::new();
                                let nodes: Vec<Node<LKey, i64, u32>> = (0..n).map(|i| Node::new(LKey { id: i, tag: (i % 2) as u8 }, i as i64 - 1)).collect();
                                for nd in &nodes {
                                    g.insert(nd.clone());
                                }
                                for _ in 0..next(7) {
                                    let (u, v, e) = (next(n as u64) as usize, next(n as u64) as usize, next(5) as u32);
                                    nodes[u].connect(&nodes[v], e);
                                }
                                let shape = |g: &GL| -> Vec<(usize, i64, Vec<(usize, u32)>)> {
                                    let mut v: Vec<(usize, i64, Vec<(usize, u32)>)> = g.iter().map(|(k, nd)| {
                                        let mut l: Vec<(usize, u32)> = lkey_list(nd);
                                        if !DIRECTED {
                                            l.sort();
                                        }
                                        (k.id, *nd.value(), l)
                                    }).collect();
                                    v.sort();
                                    v
                                };
                                let want = shape(&g);
                                if !ctx.quiet && ctx.oracles.iter().any(|o| o == "c12") {
                                    for fmt in ["json", "cbor"] {
                                        let back: Result<GL, String> = if fmt == "json" {
                                            serde_json::to_vec(&g).map_err(|e| e.to_string()).and_then(|b| serde_json::from_slice::<GL>(&b).map_err(|e| e.to_string()))
                                        } else {
                                            serde_cbor::to_vec(&g).map_err(|e| e.to_string()).and_then(|b| serde_cbor::from_slice::<GL>(&b).map_err(|e| e.to_string()))
                                        };
                                        match back {
                                            Err(m) => ctx.fail(case, li, "c12", format!("{fmt} round trip of a graph over keys whose Display text collides failed: {m}")),
                                            Ok(g2) => {
                                                let got = shape(&g2);
                                                if got != want {
                                                    ctx.fail(case, li, "c12", format!("{fmt} round trip of a graph over keys whose Display text collides: (id, value, own edges) were {:?} and are {:?}", want, got));
                                                }
                                            }
                                        }
                                    }
                                }
                                "robust".into()
                            }
                            "g.destr" => {
                                // g.destr <slot> <json|cbor> <hex bytes>: the same container with text keys (`Graph<String, i64, u32>`).
                                // The byte-level models stay at usize keys; a document that can be typed is handed to the abstract
                                // deserialiser of the model under an injective renaming of its keys (number of first occurrence;
                                // the theorems of Props/C13 `Serde.*` are generic in the key type), and judged by the statement
                                // alone in any case: Err exactly when an edge names an undeclared key, never a panic
                                type GS = Graph<String, i64, u32>;
                                type DocS = (Vec<(String, i64)>, Vec<(String, String, u32)>);
                                let bytes = crate::exec_cont::unhex(t.get(3).copied().unwrap_or(""));
                                let (r, doc): (Result<GS, String>, Option<DocS>) = if t[2] == "json" {
                                    (serde_json::from_slice::<GS>(&bytes).map_err(|e| e.to_string()), serde_json::from_slice::<DocS>(&bytes).ok())
                                } else {
                                    (serde_cbor::from_slice::<GS>(&bytes).map_err(|e| e.to_string()), serde_cbor::from_slice::<DocS>(&bytes).ok())
                                };
                                let mut names: Vec<String> = vec![];
                                let mut intern = |k: &String| -> usize {
                                    match names.iter().position(|x| x == k) {
                                        Some(i) => i,
                                        None => {
                                            names.push(k.clone());
                                            names.len() - 1
                                        }
                                    }
                                };
                                if let Some((dn, de)) = &doc {
                                    let ns: Vec<String> = dn.iter().map(|(k, v)| format!("{}:{v}", intern(k))).collect();
                                    let es: Vec<String> = de.iter().map(|(u, v, e)| format!("{}>{}:{e}", intern(u), intern(v))).collect();
                                    ext.annot = Some(format!("@abs=seq;{};{}", ns.join(","), es.join(",")));
                                }
                                let otag = if ctx.oracles.iter().any(|o| o == "c12") { "c12" } else { "c13" };
                                if !ctx.quiet && ctx.oracles.iter().any(|o| o == "c13" || o == "c12") {
                                    if let Some((dn, de)) = &doc {
                                        let declared: BTreeSet<&String> = dn.iter().map(|x| &x.0).collect();
                                        let undeclared = de.iter().any(|x| !declared.contains(&x.0) || !declared.contains(&x.1));
                                        match &r {
                                            Ok(_) if undeclared => ctx.fail(case, li, otag, format!("text keys, {}: an edge names an undeclared key but deserialisation returned Ok", t[2])),
                                            Err(m) if !undeclared => ctx.fail(case, li, otag, format!("text keys, {}: every key is declared but deserialisation failed: {m}", t[2])),
                                            Ok(g) => {
                                                let mut bad = g.len() != declared.len();
                                                for (k, n) in g.iter() {
                                                    bad |= !dn.iter().any(|x| x.0 == *k && x.1 == *n.value());
                                                    for (v, e) in own_list_str(n).0 {
                                                        bad |= !de.iter().any(|x| (x.0 == *k && x.1 == v || !DIRECTED && x.0 == v && x.1 == *k) && x.2 == e);
                                                    }
                                                }
                                                if bad {
                                                    ctx.fail(case, li, otag, format!("text keys, {}: the Ok graph has a node or edge the document does not declare, or lacks a declared node", t[2]));
                                                }
                                                // and the graph with text keys survives a round trip of its own (C12's statement)
                                                let shape = |g: &GS| -> Vec<(String, i64, Vec<(String, u32)>)> {
                                                    let mut v: Vec<(String, i64, Vec<(String, u32)>)> = g.iter().map(|(k, n)| {
                                                        let mut l = own_list_str(n).0;
                                                        if !DIRECTED {
                                                            l.sort();
                                                        }
                                                        (k.clone(), *n.value(), l)
                                                    }).collect();
                                                    v.sort();
                                                    v
                                                };
                                                let back: Result<GS, String> = if t[2] == "json" {
                                                    serde_json::to_vec(g).map_err(|e| e.to_string()).and_then(|b| serde_json::from_slice::<GS>(&b).map_err(|e| e.to_string()))
                                                } else {
                                                    serde_cbor::to_vec(g).map_err(|e| e.to_string()).and_then(|b| serde_cbor::from_slice::<GS>(&b).map_err(|e| e.to_string()))
                                                };
                                                match back {
                                                    Ok(g2) if shape(&g2) == shape(g) => {}
                                                    Ok(g2) => ctx.fail(case, li, otag, format!("text keys, {}: serialising the graph and reading it back changes it: {:?} became {:?}", t[2], shape(g), shape(&g2))),
                                                    Err(m) => ctx.fail(case, li, otag, format!("text keys, {}: serialising the graph and reading it back fails: {m}", t[2])),
                                                }
                                            }
                                            _ => {}
                                        }
                                    }
                                }
                                match (&doc, &r) {
                                    (None, _) => "robust".into(),
                                    (Some(_), Err(_)) => "err".into(),
                                    (Some((dn, _)), Ok(g)) => {
                                        // the result under the renaming, members in the order of their first declaration
                                        let mut seen: Vec<usize> = vec![];
                                        let mut parts: Vec<String> = vec![];
                                        let mut vals: Vec<String> = vec![];
                                        for (k, _) in dn {
                                            let i = intern(k);
                                            if seen.contains(&i) {
                                                continue;
                                            }
                                            seen.push(i);
                                            match g.get(k) {
                                                None => parts.push(format!("{i}:missing")),
                                                Some(n) => {
                                                    let (o, inn) = own_list_str(&n);
                                                    let f = |l: &Vec<(String, u32)>, intern: &mut dyn FnMut(&String) -> usize| -> String {
                                                        let v: Vec<String> = l.iter().map(|(k, e)| format!("{}:{e}", intern(k))).collect();
                                                        format!("[{}]", v.join(","))
                                                    };
                                                    let os = f(&o, &mut intern);
                                                    let is = f(&inn, &mut intern);
                                                    parts.push(if DIRECTED { format!("{i}:{os}/{is}") } else { format!("{i}:{os}") });
                                                    vals.push(format!("{i}:{}", n.value()));
                                                }
                                            }
                                        }
                                        format!("ok n={} {} vals={}", g.len(), parts.join(" "), vals.join(","))
                                    }
                                }
                            }
                            _ => "bad-op".into(),
                        }
                    }
                    _ => "bad-op".to_string(),
                }
            }
        }
    };
}
ext_mod!(di, digraph, di, di, no, yes, di);
ext_mod!(sdi, sync_digraph, di, di, yes, no, sdi);
ext_mod!(un, ungraph, un, un, no, yes, un);
ext_mod!(sun, sync_ungraph, un, sun, yes, yes, sun);

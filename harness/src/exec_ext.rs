//! Requests beyond the edge operations (searches, orderings, containers, serde, ...), per flavour.
use crate::exec::*;
use crate::oracle::*;
use crate::oracle_search as os;
use std::cell::RefCell;

/// parsed `search` / `order` request
#[derive(Clone, Debug)]
pub struct SearchSpec {
    pub kind: String,   // bfs dfs pfs-min pfs-max pre post
    pub tr: bool,       // transpose()
    pub dflt: bool,     // ordering without an explicit direction (`postorder()` default)
    pub root: usize,
    pub target: Option<usize>,
    pub method: String, // none each filter
    pub rej: Vec<(usize, usize, u32)>,
    pub mode: String, // node path cycle nodes edges
}

pub fn parse_rej(s: &str) -> Vec<(usize, usize, u32)> {
    if s == "-" || s.is_empty() {
        return vec![];
    }
    s.split(',')
        .map(|x| {
            let (u, r) = x.split_once('>').unwrap();
            let (v, e) = r.split_once(':').unwrap();
            (u.parse().unwrap(), v.parse().unwrap(), e.parse().unwrap())
        })
        .collect()
}

pub fn parse_search(t: &[&str]) -> SearchSpec {
    // search <kind> <fwd|tr> <root> <target|-> <none|each|filter:REJ> <node|path|cycle>
    // order  <pre|post> <fwd|tr|default> <root> <method> <nodes|edges>
    let (method, rej) = |m: &str| -> (String, Vec<(usize, usize, u32)>) {
        if let Some(r) = m.strip_prefix("filter:") {
            ("filter".into(), parse_rej(r))
        } else {
            (m.to_string(), vec![])
        }
    }(if t[0] == "search" { t[5] } else { t[4] });
    if t[0] == "search" {
        SearchSpec { kind: t[1].into(), tr: t[2] == "tr", dflt: false, root: t[3].parse().unwrap(), target: t[4].parse().ok(), method, rej, mode: t[6].into() }
    } else {
        SearchSpec { kind: t[1].into(), tr: t[2] == "tr", dflt: t[2] == "default", root: t[3].parse().unwrap(), target: None, method, rej, mode: t[5].into() }
    }
}

pub struct SearchOut {
    pub node: Option<usize>,
    pub path: Option<Vec<(usize, usize, u32)>>,
    pub path_nodes: Vec<usize>,
    pub path_len: usize,
    pub list_nodes: Vec<usize>,
    pub list_edges: Vec<(usize, usize, u32)>,
    pub trace: Vec<(usize, usize, u32)>,
}

pub fn show_search(spec: &SearchSpec, o: &SearchOut) -> String {
    let mut s = match spec.mode.as_str() {
        "node" => format!("node={:?}", o.node),
        "path" | "cycle" => match &o.path {
            Some(p) => format!("path={} nodes={}", fmt_edges(p), fmt_keys(&o.path_nodes)),
            None => "path=None".to_string(),
        },
        "nodes" => format!("nodes={}", fmt_keys(&o.list_nodes)),
        _ => format!("edges={}", fmt_edges(&o.list_edges)),
    };
    if spec.method != "none" {
        s.push_str(&format!(" trace={}", fmt_edges(&o.trace)));
    }
    s
}

macro_rules! with_method {
    ($b:expr, $spec:expr, $trace:expr, $run:ident) => {{
        let rej = $spec.rej.clone();
        let mut f_each = |e: &Edge<usize, i64, u32>| {
            $trace.borrow_mut().push((*e.0.key(), *e.1.key(), e.2));
        };
        let mut f_filter = |e: &Edge<usize, i64, u32>| -> bool {
            let t = (*e.0.key(), *e.1.key(), e.2);
            $trace.borrow_mut().push(t);
            !rej.contains(&t)
        };
        let b = $b;
        match $spec.method.as_str() {
            "each" => {
                let mut b = b.for_each(&mut f_each);
                $run!(b)
            }
            "filter" => {
                let mut b = b.filter(&mut f_filter);
                $run!(b)
            }
            _ => {
                let mut b = b;
                $run!(b)
            }
        }
    }};
}

macro_rules! run_search_modes {
    ($spec:expr, $out:expr) => {
        macro_rules! run {
            ($bb:ident) => {{
                match $spec.mode.as_str() {
                    "node" => {
                        $out.node = $bb.search().map(|n| *n.key());
                    }
                    "path" => {
                        if let Some(p) = $bb.search_path() {
                            $out.path = Some(p.to_vec_edges().iter().map(|Edge(u, v, e)| (*u.key(), *v.key(), *e)).collect());
                            $out.path_nodes = p.to_vec_nodes().iter().map(|n| *n.key()).collect();
                            $out.path_len = p.len();
                        }
                    }
                    _ => {
                        if let Some(p) = $bb.search_cycle() {
                            $out.path = Some(p.to_vec_edges().iter().map(|Edge(u, v, e)| (*u.key(), *v.key(), *e)).collect());
                            $out.path_nodes = p.to_vec_nodes().iter().map(|n| *n.key()).collect();
                            $out.path_len = p.len();
                        }
                    }
                }
            }};
        }
    };
}

macro_rules! run_order_modes {
    ($spec:expr, $out:expr) => {
        macro_rules! run {
            ($bb:ident) => {{
                if $spec.mode == "nodes" {
                    $out.list_nodes = $bb.search_nodes().iter().map(|n| *n.key()).collect();
                } else {
                    $out.list_edges = $bb.search_edges().iter().map(|Edge(u, v, e)| (*u.key(), *v.key(), *e)).collect();
                }
            }};
        }
    };
}

macro_rules! kind_search {
    (di) => {
        pub fn do_search(st: &St, spec: &SearchSpec) -> SearchOut {
            let mut out = SearchOut { node: None, path: None, path_nodes: vec![], path_len: 0, list_nodes: vec![], list_edges: vec![], trace: vec![] };
            let trace: RefCell<Vec<(usize, usize, u32)>> = RefCell::new(vec![]);
            let root = st.node(spec.root).clone();
            let tgt = spec.target;
            {
                run_search_modes!(spec, out);
                match spec.kind.as_str() {
                    "bfs" => {
                        let b = root.bfs();
                        let b = if spec.tr { b.transpose() } else { b };
                        let b = match &tgt { Some(t) => b.target(t), None => b };
                        with_method!(b, spec, trace, run)
                    }
                    "dfs" => {
                        let b = root.dfs();
                        let b = if spec.tr { b.transpose() } else { b };
                        let b = match &tgt { Some(t) => b.target(t), None => b };
                        with_method!(b, spec, trace, run)
                    }
                    "pfs-min" | "pfs-max" => {
                        let b = root.pfs();
                        let b = if spec.kind == "pfs-max" { b.max() } else { b.min() };
                        let b = if spec.tr { b.transpose() } else { b };
                        let b = match &tgt { Some(t) => b.target(t), None => b };
                        with_method!(b, spec, trace, run)
                    }
                    _ => {}
                }
            }
            {
                run_order_modes!(spec, out);
                match spec.kind.as_str() {
                    "pre" => {
                        let b = root.preorder();
                        let b = if spec.tr { b.transpose() } else { b };
                        with_method!(b, spec, trace, run)
                    }
                    "post" => {
                        let b = root.postorder();
                        let b = if spec.tr { b.transpose() } else { b };
                        with_method!(b, spec, trace, run)
                    }
                    _ => {}
                }
            }
            out.trace = trace.into_inner();
            out
        }
    };
    (un) => {
        pub fn do_search(st: &St, spec: &SearchSpec) -> SearchOut {
            let mut out = SearchOut { node: None, path: None, path_nodes: vec![], path_len: 0, list_nodes: vec![], list_edges: vec![], trace: vec![] };
            let trace: RefCell<Vec<(usize, usize, u32)>> = RefCell::new(vec![]);
            let root = st.node(spec.root).clone();
            let tgt = spec.target;
            {
                run_search_modes!(spec, out);
                match spec.kind.as_str() {
                    "bfs" => {
                        let b = root.bfs();
                        let b = match &tgt { Some(t) => b.target(t), None => b };
                        with_method!(b, spec, trace, run)
                    }
                    "dfs" => {
                        let b = root.dfs();
                        let b = match &tgt { Some(t) => b.target(t), None => b };
                        with_method!(b, spec, trace, run)
                    }
                    "pfs-min" | "pfs-max" => {
                        let b = root.pfs();
                        let b = if spec.kind == "pfs-max" { b.max() } else { b.min() };
                        let b = match &tgt { Some(t) => b.target(t), None => b };
                        with_method!(b, spec, trace, run)
                    }
                    _ => {}
                }
            }
            {
                run_order_modes!(spec, out);
                match spec.kind.as_str() {
                    "pre" => {
                        let b = root.order().pre();
                        with_method!(b, spec, trace, run)
                    }
                    "post" => {
                        let b = root.order().post();
                        with_method!(b, spec, trace, run)
                    }
                    _ => {}
                }
            }
            out.trace = trace.into_inner();
            out
        }
    };
}

macro_rules! kind_reversed {
    (di) => {
        /// fresh nodes with every edge reversed; `out_from_in`: new outgoing lists = old incoming lists
        /// (same order), otherwise new incoming lists = old outgoing lists (same order)
        pub fn reversed(st: &St, out_from_in: bool) -> St {
            let nodes: Vec<N> = st.nodes.iter().map(|n| N::new(*n.key(), *n.value())).collect();
            let find = |k: usize| nodes.iter().find(|n| *n.key() == k).unwrap();
            for n in &st.nodes {
                if out_from_in {
                    for Edge(u, v, e) in n.iter_in() {
                        find(*v.key()).connect(find(*u.key()), e);
                    }
                } else {
                    for Edge(u, v, e) in n.iter_out() {
                        find(*v.key()).connect(find(*u.key()), e);
                    }
                }
            }
            St { nodes }
        }
    };
    (un) => {
        pub fn reversed(st: &St, _out_from_in: bool) -> St {
            St { nodes: st.nodes.clone() }
        }
    };
}

macro_rules! ext_mod {
    ($m:ident, $fl:ident, $kind:ident) => {
        pub mod $m {
            #![allow(unused, clippy::all)]
            use super::*;
            use crate::exec::$m::{St, G, N, DIRECTED};
            use gdsl::$fl::*;
            #[derive(Default)]
            pub struct Ext {}
            kind_search!($kind);
            kind_reversed!($kind);

            pub fn exec_line(st: &mut St, ext: &mut Ext, t: &[&str], raw: &str, ctx: &mut Ctx, case: &str, li: usize) -> String {
                match t[0] {
                    "search" | "order" => {
                        let spec = parse_search(t);
                        let out = do_search(st, &spec);
                        ctx.count(&format!("search.{}.{}.{}", spec.kind, spec.mode, if spec.mode == "nodes" || spec.mode == "edges" { "list" } else if out.node.is_some() || out.path.is_some() { "found" } else { "none" }));
                        if !ctx.quiet && !ctx.oracles.is_empty() {
                            let ls = st.lists();
                            let vals: Vec<(usize, i64)> = st.nodes.iter().map(|n| (*n.key(), *n.value())).collect();
                            for (name, msg) in os::check(DIRECTED, &ls, &vals, &spec, &out, &ctx.oracles) {
                                ctx.fail(case, li, &name, msg);
                            }
                        }
                        let shown = show_search(&spec, &out);
                        if DIRECTED && !ctx.quiet && ctx.oracles.iter().any(|o| o == "c08") && !spec.dflt {
                            // metamorphic: transpose() on G == the same search without it on the edge-reversed graph
                            let rev = reversed(st, spec.tr);
                            let mut spec2 = spec.clone();
                            spec2.tr = !spec.tr;
                            let out2 = do_search(&rev, &spec2);
                            let shown2 = show_search(&spec2, &out2);
                            if shown != shown2 {
                                ctx.fail(case, li, "c08", format!("`{}` gives `{}` but the {} search on the edge-reversed graph gives `{}`", raw, shown, if spec2.tr { "transposed" } else { "plain" }, shown2));
                            }
                        }
                        shown
                    }
                    "cmp" => {
                        // cmp k1 v1 k2 v2 : comparison operators on two fresh nodes
                        let a = N::new(t[1].parse().unwrap(), t[2].parse().unwrap());
                        let b2 = N::new(t[3].parse().unwrap(), t[4].parse().unwrap());
                        let s = format!("eq={} ne={} lt={} le={} gt={} ge={} cmp={:?} pcmp={:?}", a == b2, a != b2, a < b2, a <= b2, a > b2, a >= b2, a.cmp(&b2), a.partial_cmp(&b2));
                        if !ctx.quiet && ctx.oracles.iter().any(|o| o == "c06") {
                            let (k1, v1, k2, v2): (usize, i64, usize, i64) = (t[1].parse().unwrap(), t[2].parse().unwrap(), t[3].parse().unwrap(), t[4].parse().unwrap());
                            if (a == b2) != (k1 == k2) || a.cmp(&b2) != v1.cmp(&v2) || a.partial_cmp(&b2) != Some(v1.cmp(&v2)) || (a < b2) != (v1 < v2) {
                                ctx.fail(case, li, "c06", format!("comparison of node({k1},{v1}) with node({k2},{v2}): {s}"));
                            }
                        }
                        s
                    }
                    _ => "bad-op".to_string(),
                }
            }
        }
    };
}
ext_mod!(di, digraph, di);
ext_mod!(sdi, sync_digraph, di);
ext_mod!(un, ungraph, un);
ext_mod!(sun, sync_ungraph, un);

//! Oracles: the property statements evaluated directly on what the real code reports.
//! They never use the Lean model. `Lists` is what `iter_out`/`iter_in` (directed) or
//! `iter` (undirected; second list empty) yield for every node of the case.
pub type Entry = (usize, u32);
#[derive(Clone, Debug, PartialEq, Eq, Hash)]
pub struct NodeLists {
    pub key: usize,
    pub out: Vec<Entry>,
    pub inn: Vec<Entry>,
}
pub type Lists = Vec<NodeLists>;

pub fn vals(l: &[Entry], k: usize) -> Vec<u32> {
    l.iter().filter(|p| p.0 == k).map(|p| p.1).collect()
}
fn get<'a>(ls: &'a Lists, k: usize) -> &'a NodeLists {
    ls.iter().find(|n| n.key == k).expect("node of the case")
}

/// C01: for every pair (a,b) the values a reports towards b (in order) are the values b reports from a.
pub fn mirror(ls: &Lists) -> Result<(), String> {
    for a in ls {
        for b in ls {
            let o = vals(&a.out, b.key);
            let i = vals(&b.inn, a.key);
            if o != i {
                return Err(format!("mirror: out({})->{} = {:?} but in({})<-{} = {:?}", a.key, b.key, o, b.key, a.key, i));
            }
        }
        // entries naming keys that are not nodes of the case cannot exist
        for (k, _) in a.out.iter().chain(a.inn.iter()) {
            if !ls.iter().any(|n| n.key == *k) {
                return Err(format!("mirror: node {} lists unknown key {}", a.key, k));
            }
        }
    }
    Ok(())
}

/// C02: u lists (v,e) exactly as often as v lists (u,e).
pub fn symmetric(ls: &Lists) -> Result<(), String> {
    for a in ls {
        for b in ls {
            if a.key == b.key {
                // a self-loop is listed twice by its node: every (a,e) occurs an even number of times
                let mut vs = vals(&a.out, a.key);
                vs.sort();
                let mut i = 0;
                while i < vs.len() {
                    let j = vs[i..].iter().take_while(|x| **x == vs[i]).count();
                    if j % 2 != 0 {
                        return Err(format!("symmetry: node {} lists its self-loop value {} {} times (odd)", a.key, vs[i], j));
                    }
                    i += j;
                }
                continue;
            }
            let mut x = vals(&a.out, b.key);
            let mut y = vals(&b.out, a.key);
            x.sort();
            y.sort();
            if x != y {
                return Err(format!("symmetry: {} lists {} with {:?} but {} lists {} with {:?}", a.key, b.key, x, b.key, a.key, y));
            }
        }
    }
    Ok(())
}

fn minus_one(old: &[Entry], new: &[Entry], item: Entry) -> bool {
    if old.len() != new.len() + 1 {
        return false;
    }
    (0..old.len()).any(|i| old[i] == item && old[..i] == new[..i] && old[i + 1..] == new[i..])
}
fn minus_two(old: &[Entry], new: &[Entry], item: Entry) -> bool {
    if old.len() != new.len() + 2 {
        return false;
    }
    for i in 0..old.len() {
        if old[i] != item {
            continue;
        }
        let mut mid: Vec<Entry> = old.to_vec();
        mid.remove(i);
        if minus_one(&mid, new, item) {
            return true;
        }
    }
    false
}
fn same_except(before: &Lists, after: &Lists, touched: &[usize]) -> Result<(), String> {
    for b in before {
        if touched.contains(&b.key) {
            continue;
        }
        let a = get(after, b.key);
        if a != b {
            return Err(format!("node {} changed although it is not an operand: {:?} -> {:?}", b.key, b, a));
        }
    }
    Ok(())
}

#[derive(Clone, Debug, PartialEq, Eq)]
pub enum OpRes {
    Unit,
    Val(u32),
    NotFound,
    Exists,
    Panic,
    Deadlock,
}

#[derive(Clone, Debug)]
pub enum EdgeOp {
    Connect(usize, usize, u32),
    TryConnect(usize, usize, u32),
    Disconnect(usize, usize),
    Isolate(usize),
}

/// C03: the multigraph contract for one call, from the lists before and after and the returned value.
pub fn contract(directed: bool, op: &EdgeOp, before: &Lists, after: &Lists, res: &OpRes) -> Result<(), String> {
    match res {
        OpRes::Panic => return Err(format!("{:?} panicked", op)),
        OpRes::Deadlock => return Err(format!("{:?} deadlocked (lock requested while held)", op)),
        _ => {}
    }
    let added = |u: usize, v: usize, e: u32| -> Result<(), String> {
        let (bu, au) = (get(before, u), get(after, u));
        let (bv, av) = (get(before, v), get(after, v));
        if directed {
            let mut o = bu.out.clone();
            o.push((v, e));
            let mut i = bv.inn.clone();
            i.push((u, e));
            if au.out != o {
                return Err(format!("connect {u}->{v}:{e}: outgoing list of {u} is {:?}, expected {:?}", au.out, o));
            }
            if av.inn != i {
                return Err(format!("connect {u}->{v}:{e}: incoming list of {v} is {:?}, expected {:?}", av.inn, i));
            }
            if u != v && (au.inn != bu.inn || av.out != bv.out) {
                return Err(format!("connect {u}->{v}:{e}: an unrelated list of an operand changed"));
            }
            if u == v && false {
                unreachable!()
            }
        } else if u == v {
            if !minus_two(&au.out, &bu.out, (u, e)) {
                return Err(format!("connect {u}-{u}:{e}: adjacency of {u} went {:?} -> {:?}, expected two new ({u},{e}) entries", bu.out, au.out));
            }
        } else {
            if !minus_one(&au.out, &bu.out, (v, e)) {
                return Err(format!("connect {u}-{v}:{e}: adjacency of {u} went {:?} -> {:?}", bu.out, au.out));
            }
            if !minus_one(&av.out, &bv.out, (u, e)) {
                return Err(format!("connect {u}-{v}:{e}: adjacency of {v} went {:?} -> {:?}", bv.out, av.out));
            }
        }
        same_except(before, after, &[u, v])
    };
    let unchanged = || -> Result<(), String> {
        if before != after {
            Err(format!("{:?} failed with {:?} but changed the graph: {:?} -> {:?}", op, res, before, after))
        } else {
            Ok(())
        }
    };
    match *op {
        EdgeOp::Connect(u, v, e) => {
            if *res != OpRes::Unit {
                return Err(format!("connect returned {:?}", res));
            }
            added(u, v, e)
        }
        EdgeOp::TryConnect(u, v, e) => {
            let has = !vals(&get(before, u).out, v).is_empty();
            if has {
                if *res != OpRes::Exists {
                    return Err(format!("try_connect {u} {v}: an edge exists but the call returned {:?}", res));
                }
                unchanged()
            } else {
                if *res != OpRes::Unit {
                    return Err(format!("try_connect {u} {v}: no edge exists but the call returned {:?}", res));
                }
                added(u, v, e)
            }
        }
        EdgeOp::Disconnect(u, v) => {
            let has = !vals(&get(before, u).out, v).is_empty();
            if !has {
                if *res != OpRes::NotFound {
                    return Err(format!("disconnect {u} {v}: no edge exists but the call returned {:?}", res));
                }
                return unchanged();
            }
            let e = match res {
                OpRes::Val(e) => *e,
                _ => return Err(format!("disconnect {u} {v}: an edge exists but the call returned {:?}", res)),
            };
            let (bu, au) = (get(before, u), get(after, u));
            let (bv, av) = (get(before, v), get(after, v));
            if directed {
                if !minus_one(&bu.out, &au.out, (v, e)) {
                    return Err(format!("disconnect {u} {v} -> {e}: outgoing list of {u} went {:?} -> {:?}", bu.out, au.out));
                }
                if !minus_one(&bv.inn, &av.inn, (u, e)) {
                    return Err(format!("disconnect {u} {v} -> {e}: incoming list of {v} went {:?} -> {:?}", bv.inn, av.inn));
                }
                if u != v && (au.inn != bu.inn || av.out != bv.out) {
                    return Err(format!("disconnect {u} {v}: an unrelated list of an operand changed"));
                }
            } else if u == v {
                if !minus_two(&bu.out, &au.out, (u, e)) {
                    return Err(format!("disconnect {u} {u} -> {e}: adjacency of {u} went {:?} -> {:?}, expected two ({u},{e}) entries fewer", bu.out, au.out));
                }
            } else {
                if !minus_one(&bu.out, &au.out, (v, e)) {
                    return Err(format!("disconnect {u} {v} -> {e}: adjacency of {u} went {:?} -> {:?}", bu.out, au.out));
                }
                if !minus_one(&bv.out, &av.out, (u, e)) {
                    return Err(format!("disconnect {u} {v} -> {e}: adjacency of {v} went {:?} -> {:?} (the other endpoint must lose the edge too)", bv.out, av.out));
                }
            }
            same_except(before, after, &[u, v])
        }
        EdgeOp::Isolate(u) => {
            if *res != OpRes::Unit {
                return Err(format!("isolate returned {:?}", res));
            }
            for b in before {
                let a = get(after, b.key);
                let (eo, ei): (Vec<Entry>, Vec<Entry>) = if b.key == u {
                    (vec![], vec![])
                } else {
                    (b.out.iter().cloned().filter(|p| p.0 != u).collect(), b.inn.iter().cloned().filter(|p| p.0 != u).collect())
                };
                if a.out != eo || a.inn != ei {
                    return Err(format!("isolate {u}: node {} went {:?} -> {:?}, expected out={:?} in={:?}", b.key, b, a, eo, ei));
                }
            }
            Ok(())
        }
    }
}

/// C03 on histories with two live node OBJECTS of one key: `connect` (and an accepted `try_connect`) adds exactly one
/// entry to the lists of the two objects it was called on - identified by their position in `lists`, not by key - and
/// changes nothing else; a refused `try_connect` changes nothing. (`ui`, `vi` index `before`/`after`.)
pub fn twin_connect_contract(directed: bool, before: &Lists, after: &Lists, ui: usize, vi: usize, e: u32, accepted: bool) -> Result<(), String> {
    if before.len() != after.len() {
        return Err("the set of nodes changed".into());
    }
    // `b` is `a` with one occurrence of each entry of `xs` deleted (equal entries cannot be told apart: any occurrence will do)
    fn removable(a: &[Entry], b: &[Entry], xs: &[Entry]) -> bool {
        match xs.split_first() {
            None => a == b,
            Some((x, rest)) => (0..a.len()).filter(|&p| a[p] == *x).any(|p| {
                let mut v = a.to_vec();
                v.remove(p);
                removable(&v, b, rest)
            }),
        }
    }
    for (i, (b, a)) in before.iter().zip(after.iter()).enumerate() {
        let (ku, kv) = (before[ui].key, before[vi].key);
        let mut want_out = b.out.clone();
        let mut want_inn = b.inn.clone();
        let mut ok = true;
        if accepted {
            if directed {
                if i == ui {
                    want_out.push((kv, e));
                }
                if i == vi {
                    want_inn.push((ku, e));
                }
                ok = a.out == want_out && a.inn == want_inn;
            } else {
                // undirected lists are reported as one sequence (outgoing half first): the new entry sits somewhere in it
                let mut xs: Vec<Entry> = vec![];
                if i == vi {
                    xs.push((ku, e));
                }
                if i == ui {
                    xs.push((kv, e));
                }
                ok = removable(&a.out, &b.out, &xs);
            }
        } else {
            ok = a.out == b.out && a.inn == b.inn;
        }
        if !ok {
            return Err(format!("node object #{i} (key {}) went from {}/{} to {}/{}; the call was made on object #{ui} (key {ku}) towards object #{vi} (key {kv}) with value {e} and was {}", b.key, crate::exec::fmt_list(&b.out), crate::exec::fmt_list(&b.inn), crate::exec::fmt_list(&a.out), crate::exec::fmt_list(&a.inn), if accepted { "accepted" } else { "refused" }));
        }
    }
    Ok(())
}

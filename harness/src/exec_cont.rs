//! Container, scc, DOT and serde requests (C11, C12, C13, C18). Expanded inside each flavour module.

/// C20 script: `-` or `;`-separated entries `<i>=<op>/<op>` (at step i) or `*<n>=<op>/<op>` (at every step < n)
pub struct ScriptEntry {
    pub at: Option<usize>,
    pub below: usize,
    pub ops: Vec<crate::exec_conc::Call2>,
}
pub fn parse_script(s: &str) -> Vec<ScriptEntry> {
    if s == "-" || s.is_empty() {
        return vec![];
    }
    s.split(';')
        .filter_map(|ent| {
            let (w, ops) = ent.split_once('=')?;
            let ops = ops
                .split('/')
                .filter(|x| !x.is_empty())
                .map(|c| {
                    let p: Vec<&str> = c.split('.').collect();
                    let n = |i: usize| p.get(i).and_then(|x| x.parse::<usize>().ok()).unwrap_or(0);
                    crate::exec_conc::Call2 { kind: p[0].to_string(), a: n(1), b: n(2), e: n(3) as u32 }
                })
                .collect();
            Some(match w.strip_prefix('*') {
                Some(n) => ScriptEntry { at: None, below: n.parse().unwrap_or(0), ops },
                None => ScriptEntry { at: Some(w.parse().unwrap_or(0)), below: 0, ops },
            })
        })
        .collect()
}
pub fn ops_at(sc: &[ScriptEntry], i: usize) -> Vec<crate::exec_conc::Call2> {
    sc.iter().filter(|e| e.at == Some(i) || (e.at.is_none() && i < e.below)).flat_map(|e| e.ops.clone()).collect()
}

pub fn unhex(h: &str) -> Vec<u8> {
    let b = h.strip_prefix('x').unwrap_or(h).as_bytes();
    (0..b.len() / 2).map(|i| u8::from_str_radix(std::str::from_utf8(&b[2 * i..2 * i + 2]).unwrap_or("0"), 16).unwrap_or(0)).collect()
}
pub fn hex(b: &[u8]) -> String {
    std::iter::once("x".to_string()).chain(b.iter().map(|x| format!("{x:02x}"))).collect()
}

pub type Doc = (Vec<(usize, i64)>, Vec<(usize, usize, u32)>);

/// independent typing of a JSON document for the model (`@abs=` annotation):
/// `notseq` | `seq;<nodes>;<edges>` | `any` (ill-typed or more than two elements: robustness only)
pub fn abstract_doc(text: &str) -> (String, Option<Doc>) {
    let v: serde_json::Value = match serde_json::from_str(text) {
        Ok(v) => v,
        Err(_) => return ("any".into(), None),
    };
    let arr = match v.as_array() {
        Some(a) => a,
        None => {
            // maps and scalars are not sequences
            return (if v.is_object() || v.is_number() || v.is_boolean() || v.is_string() || v.is_null() { "notseq".into() } else { "any".into() }, None);
        }
    };
    if arr.len() > 2 {
        return ("any".into(), None);
    }
    let mut nodes = vec![];
    let mut edges = vec![];
    if let Some(ns) = arr.first() {
        let Some(ns) = ns.as_array() else { return ("any".into(), None) };
        for n in ns {
            let Some(p) = n.as_array() else { return ("any".into(), None) };
            if p.len() != 2 {
                return ("any".into(), None);
            }
            match (p[0].as_u64(), p[1].as_i64()) {
                (Some(k), Some(val)) if k < 1_000_000 && !p[0].is_f64() && !p[1].is_f64() => nodes.push((k as usize, val)),
                _ => return ("any".into(), None),
            }
        }
    }
    if let Some(es) = arr.get(1) {
        let Some(es) = es.as_array() else { return ("any".into(), None) };
        for e in es {
            let Some(p) = e.as_array() else { return ("any".into(), None) };
            if p.len() != 3 {
                return ("any".into(), None);
            }
            match (p[0].as_u64(), p[1].as_u64(), p[2].as_u64()) {
                (Some(a), Some(b), Some(c)) if a < 1_000_000 && b < 1_000_000 && c <= u32::MAX as u64 && !p.iter().any(|x| x.is_f64()) => edges.push((a as usize, b as usize, c as u32)),
                _ => return ("any".into(), None),
            }
        }
    }
    let ns: Vec<String> = nodes.iter().map(|(k, v)| format!("{k}:{v}")).collect();
    let es: Vec<String> = edges.iter().map(|(u, v, e)| format!("{u}>{v}:{e}")).collect();
    (format!("seq;{};{}", ns.join(","), es.join(",")), Some((nodes, edges)))
}

pub fn show_doc(d: &Doc) -> String {
    let ns: Vec<String> = d.0.iter().map(|(k, v)| format!("[{k},{v}]")).collect();
    let es: Vec<String> = d.1.iter().map(|(u, v, e)| format!("[{u},{v},{e}]")).collect();
    format!("[[{}],[{}]]", ns.join(","), es.join(","))
}

pub fn attr_tables(table: usize) -> (Option<Vec<(String, String)>>, Box<dyn Fn(usize, i64) -> Option<Vec<(String, String)>>>, Box<dyn Fn(usize, usize, u32) -> Option<Vec<(String, String)>>>) {
    match table {
        1 => (
            Some(vec![("rankdir".into(), "LR".into()), ("label".into(), "g".into())]),
            Box::new(|_k, v| Some(vec![("label".into(), format!("n{v}"))])),
            Box::new(|_u, _v, e| Some(vec![("label".into(), format!("{e}")), ("color".into(), "red".into())])),
        ),
        2 => (
            Some(vec![]),
            Box::new(|k, _v| if k % 2 == 0 { Some(vec![("shape".into(), "box".into())]) } else { None }),
            Box::new(|_u, _v, e| if e % 2 == 1 { Some(vec![("w".into(), format!("{e}"))]) } else { None }),
        ),
        3 => {
            // callbacks with a state of their own: each invocation hands out the next number
            let cn = std::rc::Rc::new(std::cell::Cell::new(0usize));
            let ce = std::rc::Rc::new(std::cell::Cell::new(0usize));
            (
                None,
                Box::new(move |_k, _v| {
                    cn.set(cn.get() + 1);
                    Some(vec![("i".into(), cn.get().to_string())])
                }),
                Box::new(move |_u, _v, _e| {
                    ce.set(ce.get() + 1);
                    Some(vec![("j".into(), ce.get().to_string())])
                }),
            )
        }
        _ => (None, Box::new(|_, _| None), Box::new(|_, _, _| None)),
    }
}

macro_rules! cont_kind_items {
    (sun) => {
        fn dot_attr(_g: &G, _table: usize) -> Option<String> {
            None
        }
        fn views(g: &G, _which: &str) -> Vec<usize> {
            g.orphans().iter().map(|n| *n.key()).collect()
        }
        fn scc_of(_g: &G) -> Option<Vec<Vec<usize>>> {
            None
        }
    };
    (di) => {
        fn dot_attr(g: &G, table: usize) -> Option<String> {
            let (ga, na, ea) = attr_tables(table);
            Some(g.to_dot_with_attr(&|_| ga.clone(), &|n| na(*n.key(), *n.value()), &|u, v, e| ea(*u.key(), *v.key(), *e)))
        }
        fn views(g: &G, which: &str) -> Vec<usize> {
            match which {
                "g.roots" => g.roots().iter().map(|n| *n.key()).collect(),
                "g.leaves" => g.leaves().iter().map(|n| *n.key()).collect(),
                _ => g.orphans().iter().map(|n| *n.key()).collect(),
            }
        }
        fn scc_of(g: &G) -> Option<Vec<Vec<usize>>> {
            Some(g.scc().iter().map(|c| c.iter().map(|n| *n.key()).collect()).collect())
        }
    };
    (un) => {
        fn dot_attr(g: &G, table: usize) -> Option<String> {
            let (ga, na, ea) = attr_tables(table);
            Some(g.to_dot_with_attr(&|_| ga.clone(), &|n| na(*n.key(), *n.value()), &|u, v, e| ea(*u.key(), *v.key(), *e)))
        }
        fn views(g: &G, _which: &str) -> Vec<usize> {
            g.orphans().iter().map(|n| *n.key()).collect()
        }
        fn scc_of(_g: &G) -> Option<Vec<Vec<usize>>> {
            None
        }
    };
}
// sync_ungraph has no to_dot_with_attr
macro_rules! cont_attr_items_unused {
    (un) => {
        fn dot_attr(g: &G, table: usize) -> Option<String> {
            let (ga, na, ea) = attr_tables(table);
            Some(g.to_dot_with_attr(&|_| ga.clone(), &|n| na(*n.key(), *n.value()), &|u, v, e| ea(*u.key(), *v.key(), *e)))
        }
    };
    (sun) => {
        fn dot_attr(_g: &G, _table: usize) -> Option<String> {
            None
        }
    };
    ($other:ident) => {};
}


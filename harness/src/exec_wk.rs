//! The edge operations once more, with a key type whose `Hash` is much coarser than its `Eq` (all keys of one
//! parity collide), that is not `Copy` and that owns heap memory: flavours `wdi`, `wsdi`, `wun`, `wsun`.
//! Everything else in the harness instantiates `K = usize`; whatever the library does with a key's hash, its
//! clone or its `Display` text beyond what `usize` shows is exercised here (requests: new, the four edge
//! operations, dump, obs, q, and bfs/dfs `search`). The model answers these cases like `di`/`sdi`/`un`/`sun`.
use crate::exec::{fmt_keys, fmt_list, Ctx};
use crate::oracle::*;
use std::panic::{catch_unwind, AssertUnwindSafe};

#[derive(Clone, Debug)]
pub struct WKey {
    pub id: usize,
    /// heap-owning ballast: a clone is a real allocation
    pub name: String,
}
impl WKey {
    pub fn new(id: usize) -> WKey {
        WKey { id, name: format!("key-{id}") }
    }
}
impl PartialEq for WKey {
    fn eq(&self, o: &Self) -> bool {
        self.id == o.id
    }
}
impl Eq for WKey {}
impl std::hash::Hash for WKey {
    fn hash<H: std::hash::Hasher>(&self, h: &mut H) {
        // legal: equal keys hash equally; but only two hash values exist
        (self.id % 2).hash(h)
    }
}
impl std::fmt::Display for WKey {
    fn fmt(&self, f: &mut std::fmt::Formatter) -> std::fmt::Result {
        write!(f, "{}", self.id)
    }
}

thread_local! {
    /// > 0: the number of `FuseVal` clones still allowed before one panics; <= 0: disarmed
    pub static FUSE: std::cell::Cell<i64> = const { std::cell::Cell::new(0) };
}
/// an edge value whose `Clone` panics when the fuse of the current thread burns down (flavours `fdi`, `fun`)
#[derive(Debug)]
pub struct FuseVal(pub u32);
impl Clone for FuseVal {
    fn clone(&self) -> Self {
        FUSE.with(|f| {
            if f.get() > 0 {
                f.set(f.get() - 1);
                if f.get() == 0 {
                    panic!("FuseVal: clone refused");
                }
            }
        });
        FuseVal(self.0)
    }
}

fn b(x: bool) -> &'static str {
    if x { "1" } else { "0" }
}

macro_rules! wk_kind {
    (di) => {
        const DIRECTED: bool = true;
        fn lists_of(n: &N) -> (Vec<Entry>, Vec<Entry>) {
            (n.iter_out().map(|Edge(_, v, e)| (ku(v.key()), eu(&e))).collect(), n.iter_in().map(|Edge(u, _, e)| (ku(u.key()), eu(&e))).collect())
        }
        fn obs(n: &N) -> String {
            format!("od={} id={} root={} leaf={} orphan={}", n.out_degree(), n.in_degree(), b(n.is_root()), b(n.is_leaf()), b(n.is_orphan()))
        }
        fn views(g: &G, which: &str) -> Vec<usize> {
            match which {
                "g.roots" => g.roots().iter().map(|n| ku(n.key())).collect(),
                "g.leaves" => g.leaves().iter().map(|n| ku(n.key())).collect(),
                _ => g.orphans().iter().map(|n| ku(n.key())).collect(),
            }
        }
        fn scc_of(g: &G) -> Option<Vec<Vec<usize>>> {
            Some(g.scc().iter().map(|c| c.iter().map(|n| ku(n.key())).collect()).collect())
        }
        fn order_run(root: &N, post: bool, nodes: bool, out: &mut crate::exec_ext::SearchOut) {
            let mut b = if post { root.postorder() } else { root.preorder() };
            if nodes {
                out.list_nodes = b.search_nodes().iter().map(|n| ku(n.key())).collect();
            } else {
                out.list_edges = b.search_edges().iter().map(|e| (ku(e.source().key()), ku(e.target().key()), eu(e.value()))).collect();
            }
        }
        fn q(n: &N, v: usize) -> String {
            let k = kk(v);
            let fo = n.find_outbound(&k).map(|x| ku(x.key()));
            let fi = n.find_inbound(&k).map(|x| ku(x.key()));
            format!("conn={} fo={:?} fi={:?}", b(n.is_connected(&k)), fo, fi)
        }
    };
    (un) => {
        const DIRECTED: bool = false;
        fn lists_of(n: &N) -> (Vec<Entry>, Vec<Entry>) {
            (n.iter().map(|Edge(_, v, e)| (ku(v.key()), eu(&e))).collect(), vec![])
        }
        fn obs(n: &N) -> String {
            format!("deg={} orphan={}", n.degree(), b(n.is_orphan()))
        }
        fn views(g: &G, _which: &str) -> Vec<usize> {
            g.orphans().iter().map(|n| ku(n.key())).collect()
        }
        fn scc_of(_g: &G) -> Option<Vec<Vec<usize>>> {
            None
        }
        fn order_run(root: &N, post: bool, nodes: bool, out: &mut crate::exec_ext::SearchOut) {
            let mut b = if post { root.order().post() } else { root.order().pre() };
            if nodes {
                out.list_nodes = b.search_nodes().iter().map(|n| ku(n.key())).collect();
            } else {
                out.list_edges = b.search_edges().iter().map(|e| (ku(e.source().key()), ku(e.target().key()), eu(e.value()))).collect();
            }
        }
        fn q(n: &N, v: usize) -> String {
            let k = kk(v);
            let fa = n.find_adjacent(&k).map(|x| ku(x.key()));
            format!("conn={} fa={:?}", b(n.is_connected(&k)), fa)
        }
    };
}

/// payload instantiations: `weak` = WKey keys (colliding hashes, heap-owning), i64 / u32 values;
/// `zst` = usize keys with zero-sized node and edge values `()`
macro_rules! payloads {
    (weak) => {
        pub type KT = WKey;
        pub type NT = i64;
        pub type ET = u32;
        fn kk(k: usize) -> KT { WKey::new(k) }
        fn ku(k: &KT) -> usize { k.id }
        fn nn(v: i64) -> NT { v }
        fn nu(v: &NT) -> i64 { *v }
        fn ee(v: u32) -> ET { v }
        fn eu(v: &ET) -> u32 { *v }
    };
    (fuse) => {
        pub type KT = usize;
        pub type NT = i64;
        pub type ET = FuseVal;
        fn kk(k: usize) -> KT { k }
        fn ku(k: &KT) -> usize { *k }
        fn nn(v: i64) -> NT { v }
        fn nu(v: &NT) -> i64 { *v }
        fn ee(v: u32) -> ET { FuseVal(v) }
        fn eu(v: &ET) -> u32 { v.0 }
    };
    (zst) => {
        pub type KT = usize;
        pub type NT = ();
        pub type ET = ();
        fn kk(k: usize) -> KT { k }
        fn ku(k: &KT) -> usize { *k }
        fn nn(_v: i64) -> NT {}
        fn nu(_v: &NT) -> i64 { 0 }
        fn ee(_v: u32) -> ET {}
        fn eu(_v: &ET) -> u32 { 0 }
    };
}
macro_rules! wk_mod {
    ($m:ident, $fl:ident, $kind:ident, $pay:ident) => {
        pub mod $m {
            #![allow(unused, clippy::all)]
            use super::*;
            use gdsl::error::Error;
            use gdsl::$fl::*;
            payloads!($pay);
            pub type N = Node<KT, NT, ET>;
            pub type G = Graph<KT, NT, ET>;
            wk_kind!($kind);

            fn lists(nodes: &[N]) -> Lists {
                nodes.iter().map(|n| { let (out, inn) = lists_of(n); NodeLists { key: ku(n.key()), out, inn } }).collect()
            }
            fn dump(nodes: &[N]) -> String {
                lists(nodes).iter().map(|n| if DIRECTED { format!("{}:{}/{}", n.key, fmt_list(&n.out), fmt_list(&n.inn)) } else { format!("{}:{}", n.key, fmt_list(&n.out)) }).collect::<Vec<_>>().join(" ")
            }
            fn fill(out: &mut crate::exec_ext::SearchOut, edges: &[Edge<KT, NT, ET>], nodes: &[N], len: usize, fnode: Option<&N>, lnode: Option<&N>, fe: Option<&Edge<KT, NT, ET>>, le: Option<&Edge<KT, NT, ET>>) {
                let tri = |e: &Edge<KT, NT, ET>| (ku(e.source().key()), ku(e.target().key()), eu(e.value()));
                out.path = Some(edges.iter().map(tri).collect());
                out.path_nodes = nodes.iter().map(|n| ku(n.key())).collect();
                out.path_len = len;
                out.first_node = fnode.map(|n| ku(n.key()));
                out.last_node = lnode.map(|n| ku(n.key()));
                out.first_edge = fe.map(tri);
                out.last_edge = le.map(tri);
                out.views = "ok".into();
            }
            pub fn exec_case(case: &str, body: &[String], ctx: &mut Ctx) {
                let mut nodes: Vec<N> = vec![];
                let mut graphs: Vec<G> = vec![];
                let mut refmaps: Vec<std::collections::BTreeMap<usize, i64>> = vec![];
                for (li, raw) in body.iter().enumerate() {
                    let t: Vec<&str> = raw.split(' ').filter(|x| !x.starts_with('@') && !x.starts_with('#')).collect();
                    let p = |i: usize| -> usize { t[i].parse::<usize>().expect("number in program") };
                    if t[0] == "new" {
                        nodes.push(N::new(kk(p(1)), nn(t[2].parse::<i64>().unwrap())));
                        ctx.prog.push(raw.clone());
                        ctx.outs.push("ok".into());
                        continue;
                    }
                    if t[0].starts_with("g.") {
                        // the container subset: a map from key to node, its views and scc, over keys with colliding hashes
                        let i = p(1);
                        while graphs.len() <= i {
                            graphs.push(G::new());
                            refmaps.push(Default::default());
                        }
                        let c18 = ctx.has("c18");
                        let mut annot: Option<String> = None;
                        let find = |k: usize| nodes.iter().find(|n| ku(n.key()) == k).expect("unknown key").clone();
                        let r: Result<String, ()> = catch_unwind(AssertUnwindSafe(|| {
                            let order = |g: &G| -> String { format!("@order={}", g.iter().map(|(k, _)| ku(k).to_string()).collect::<Vec<_>>().join(",")) };
                            match t[0] {
                                "g.new" | "g.newcap" => { graphs[i] = G::new(); refmaps[i].clear(); "ok".into() }
                                "g.insert" => {
                                    let n = find(p(2));
                                    let r = graphs[i].insert(n.clone());
                                    let fresh = !refmaps[i].contains_key(&p(2));
                                    if c18 && r != fresh { ctx.fail(case, li, "c18", format!("(colliding hashes) insert({}) returned {r} but the key was {}", p(2), if fresh { "absent" } else { "present" })); }
                                    refmaps[i].entry(p(2)).or_insert(nu(n.value()));
                                    format!("{r}")
                                }
                                "g.remove" => {
                                    let r = graphs[i].remove(&kk(p(2))).map(|n| (ku(n.key()), nu(n.value())));
                                    let e2 = refmaps[i].remove(&p(2)).map(|v| (p(2), v));
                                    if c18 && r != e2 { ctx.fail(case, li, "c18", format!("(colliding hashes) remove({}) returned {:?}, the map holds {:?}", p(2), r, e2)); }
                                    format!("{:?}", r.map(|x| x.0))
                                }
                                "g.get" => {
                                    let r = graphs[i].get(&kk(p(2))).map(|n| (ku(n.key()), nu(n.value())));
                                    let e2 = refmaps[i].get(&p(2)).map(|v| (p(2), *v));
                                    if c18 && r != e2 { ctx.fail(case, li, "c18", format!("(colliding hashes) get({}) returned {:?}, the map holds {:?}", p(2), r, e2)); }
                                    match r { Some((k, v)) => format!("Some({k}:{v})"), None => "None".into() }
                                }
                                "g.contains" => format!("{}", graphs[i].contains(&kk(p(2)))),
                                "g.len" => format!("{}", graphs[i].len()),
                                "g.is_empty" => format!("{}", graphs[i].is_empty()),
                                "g.to_vec" => { annot = Some(order(&graphs[i])); fmt_keys(&graphs[i].to_vec().iter().map(|n| ku(n.key())).collect::<Vec<_>>()) }
                                "g.iter" => {
                                    annot = Some(order(&graphs[i]));
                                    let r: Vec<(usize, i64)> = graphs[i].iter().map(|(k, n)| (ku(k), nu(n.value()))).collect();
                                    let m: std::collections::BTreeMap<usize, i64> = r.iter().cloned().collect();
                                    if c18 && !(r.len() == m.len() && m == refmaps[i]) { ctx.fail(case, li, "c18", format!("(colliding hashes) iter() = {:?} but the map is {:?}", r, refmaps[i])); }
                                    format!("[{}]", r.iter().map(|(k, v)| format!("{k}:{v}")).collect::<Vec<_>>().join(","))
                                }
                                "g.roots" | "g.leaves" | "g.orphans" => { annot = Some(order(&graphs[i])); fmt_keys(&views(&graphs[i], t[0])) }
                                "g.scc" => {
                                    annot = Some(order(&graphs[i]));
                                    match scc_of(&graphs[i]) {
                                        None => "unsupported".into(),
                                        Some(cs) => {
                                            if ctx.has("c11") {
                                                let members: Vec<usize> = refmaps[i].keys().cloned().collect();
                                                if let Err(m) = crate::oracle_cont::scc_partition(&lists(&nodes), &members, &cs) {
                                                    ctx.fail(case, li, "c11", format!("(colliding hashes) {m}"));
                                                }
                                            }
                                            format!("[{}]", cs.iter().map(|c| fmt_keys(c)).collect::<Vec<_>>().join(","))
                                        }
                                    }
                                }
                                _ => "bad-op".into(),
                            }
                        }))
                        .map_err(|_| ());
                        ctx.prog.push(match &annot { Some(a) => format!("{raw} {a}"), None => raw.clone() });
                        match r {
                            Ok(o) => ctx.outs.push(o),
                            Err(()) => {
                                ctx.outs.push("panic".into());
                                if !ctx.quiet && !ctx.oracles.is_empty() {
                                    let o = ctx.oracles[0].clone();
                                    ctx.fail(case, li, &o, format!("`{raw}` panicked (keys with colliding hashes)"));
                                }
                                return;
                            }
                        }
                        continue;
                    }
                    let nodes_ref = &nodes;
                    let node = |k: usize| -> N { nodes_ref.iter().find(|n| ku(n.key()) == k).expect("unknown key").clone() };
                    crate::hook::reset_thread();
                    let eop = match t[0] {
                        "connect" => Some(EdgeOp::Connect(p(1), p(2), p(3) as u32)),
                        "try_connect" => Some(EdgeOp::TryConnect(p(1), p(2), p(3) as u32)),
                        "disconnect" => Some(EdgeOp::Disconnect(p(1), p(2))),
                        "isolate" => Some(EdgeOp::Isolate(p(1))),
                        _ => None,
                    };
                    // `#fuse=k` on a connect / try_connect: the k-th clone of an edge value made by the call panics and the caller
                    // catches it. The call did not return, so it has not happened: the lists are what they were (no half edge).
                    // Then the call is made again without the fuse, so that the history goes on as written.
                    if let Some(k) = raw.split(' ').find_map(|x| x.strip_prefix("#fuse=")).and_then(|x| x.parse::<i64>().ok()) {
                        if t[0] == "connect" || t[0] == "try_connect" {
                            let b0 = lists(&nodes);
                            FUSE.with(|f| f.set(k));
                            let r0 = catch_unwind(AssertUnwindSafe(|| {
                                if t[0] == "connect" {
                                    node(p(1)).connect(&node(p(2)), ee(p(3) as u32));
                                    "ok".to_string()
                                } else {
                                    match node(p(1)).try_connect(&node(p(2)), ee(p(3) as u32)) {
                                        Ok(()) => "ok".to_string(),
                                        Err(_) => "err exists".to_string(),
                                    }
                                }
                            }));
                            FUSE.with(|f| f.set(0));
                            match r0 {
                                Ok(o) => {
                                    ctx.prog.push(raw.clone());
                                    ctx.outs.push(o);
                                    continue;
                                }
                                Err(_) => {
                                    let a0 = lists(&nodes);
                                    if a0 != b0 && !ctx.oracles.is_empty() {
                                        let o = ctx.oracles[0].clone();
                                        ctx.fail(case, li, &o, format!("`{raw}`: the clone of the edge value panicked inside the call and the caller caught it; the call left the lists changed: {} became {}", dump(&nodes), a0.iter().map(|n| format!("{}:{}/{}", n.key, fmt_list(&n.out), fmt_list(&n.inn))).collect::<Vec<_>>().join(" ")));
                                    }
                                }
                            }
                        }
                    }
                    let before = if eop.is_some() && ctx.has("contract") { Some(lists(&nodes)) } else { None };
                    let mut oracle_in: Option<(crate::exec_ext::SearchSpec, crate::exec_ext::SearchOut)> = None;
                    let r: Result<String, ()> = catch_unwind(AssertUnwindSafe(|| match t[0] {
                        "connect" => {
                            node(p(1)).connect(&node(p(2)), ee(p(3) as u32));
                            "ok".into()
                        }
                        "try_connect" => match node(p(1)).try_connect(&node(p(2)), ee(p(3) as u32)) {
                            Ok(()) => "ok".into(),
                            Err(Error::EdgeAlreadyExists) => "err exists".into(),
                            Err(Error::EdgeNotFound) => "err notfound".into(),
                        },
                        "disconnect" => match node(p(1)).disconnect(&kk(p(2))) {
                            Ok(e) => format!("ok {}", eu(&e)),
                            Err(Error::EdgeNotFound) => "err notfound".into(),
                            Err(Error::EdgeAlreadyExists) => "err exists".into(),
                        },
                        "isolate" => {
                            node(p(1)).isolate();
                            "ok".into()
                        }
                        "dump" => dump(nodes_ref),
                        "nv" => {
                            let n = node(p(1));
                            let d: &NT = &*n;
                            format!("key={} val={} deref={}", n.key(), nu(n.value()), nu(d))
                        }
                        "obs" => obs(&node(p(1))),
                        "q" => q(&node(p(1)), p(2)),
                        "search" if t.len() == 7 && t[2] == "fwd" && t[5] == "none" && ["node", "path", "cycle"].contains(&t[6]) => {
                            // search <bfs|dfs|pfs-min|pfs-max> fwd <root> <target|-> none <node|path|cycle>
                            let spec = crate::exec_ext::parse_search(&t);
                            let root = node(p(3));
                            let tk: Option<KT> = t[4].parse::<usize>().ok().map(kk);
                            let mut out = crate::exec_ext::SearchOut::empty();
                            macro_rules! run {
                                ($b:expr) => {{
                                    let b = $b;
                                    let mut b = match &tk { Some(k) => b.target(k), None => b };
                                    match t[6] {
                                        "node" => out.node = b.search().map(|n| ku(n.key())),
                                        "path" => { if let Some(p) = b.search_path() { fill(&mut out, &p.to_vec_edges(), &p.to_vec_nodes(), p.len(), p.first_node(), p.last_node(), p.first_edge(), p.last_edge()); } }
                                        _ => { if let Some(p) = b.search_cycle() { fill(&mut out, &p.to_vec_edges(), &p.to_vec_nodes(), p.len(), p.first_node(), p.last_node(), p.first_edge(), p.last_edge()); } }
                                    }
                                }};
                            }
                            match t[1] {
                                "bfs" => run!(root.bfs()),
                                "dfs" => run!(root.dfs()),
                                "pfs-min" => run!(root.pfs().min()),
                                "pfs-max" => run!(root.pfs().max()),
                                _ => return "bad-op".into(),
                            }
                            oracle_in = Some((spec.clone(), out));
                            crate::exec_ext::show_search(&spec, &oracle_in.as_ref().unwrap().1)
                        }
                        "order" if t.len() == 6 && t[4] == "none" && (t[2] == "fwd" || t[2] == "default") => {
                            // order <pre|post> fwd <root> none <nodes|edges>
                            let spec = crate::exec_ext::parse_search(&t);
                            let root = node(p(3));
                            let mut out = crate::exec_ext::SearchOut::empty();
                            order_run(&root, t[1] == "post", t[5] == "nodes", &mut out);
                            oracle_in = Some((spec.clone(), out));
                            crate::exec_ext::show_search(&spec, &oracle_in.as_ref().unwrap().1)
                        }
                        _ => "bad-op".into(),
                    }))
                    .map_err(|_| ());
                    ctx.prog.push(raw.clone());
                    match r {
                        Err(()) => {
                            let dl = crate::hook::deadlocked();
                            ctx.outs.push(if dl { "deadlock".into() } else { "panic".into() });
                            if !ctx.quiet && !ctx.oracles.is_empty() {
                                let o = ctx.oracles[0].clone();
                                ctx.fail(case, li, &o, format!("`{raw}` {} (keys with colliding hashes)", if dl { "deadlocked" } else { "panicked" }));
                            }
                            return;
                        }
                        Ok(out) => {
                            if let (Some(op), Some(before)) = (&eop, &before) {
                                let res = match out.as_str() {
                                    "ok" => OpRes::Unit,
                                    "err exists" => OpRes::Exists,
                                    "err notfound" => OpRes::NotFound,
                                    x => OpRes::Val(x.trim_start_matches("ok ").parse().unwrap_or(0)),
                                };
                                if let Err(m) = contract(DIRECTED, op, before, &lists(&nodes), &res) {
                                    ctx.fail(case, li, "contract", format!("(keys with colliding hashes) {m}"));
                                }
                            }
                            if eop.is_some() && ctx.has("mirror") {
                                let ls = lists(&nodes);
                                if let Err(m) = if DIRECTED { mirror(&ls) } else { symmetric(&ls) } {
                                    ctx.fail(case, li, if DIRECTED { "mirror" } else { "symmetry" }, format!("(keys with colliding hashes) {m}"));
                                }
                            }
                            if let Some((spec, so)) = &oracle_in {
                                if !ctx.quiet && !ctx.oracles.is_empty() {
                                    let vals: Vec<(usize, i64)> = nodes.iter().map(|n| (ku(n.key()), nu(n.value()))).collect();
                                    for (name, msg) in crate::oracle_search::check(DIRECTED, &lists(&nodes), &vals, spec, so, &ctx.oracles) {
                                        ctx.fail(case, li, &name, format!("(keys with colliding hashes) {msg}"));
                                    }
                                }
                            }
                            ctx.outs.push(out);
                        }
                    }
                }
            }
        }
    };
}
wk_mod!(wdi, digraph, di, weak);
wk_mod!(wsdi, sync_digraph, di, weak);
wk_mod!(wun, ungraph, un, weak);
wk_mod!(wsun, sync_ungraph, un, weak);
wk_mod!(zdi, digraph, di, zst);
wk_mod!(zsdi, sync_digraph, di, zst);
wk_mod!(zun, ungraph, un, zst);
wk_mod!(zsun, sync_ungraph, un, zst);
// the plain flavours only: a panic under a lock guard poisons the locks of the sync flavours by design
wk_mod!(fdi, digraph, di, fuse);
wk_mod!(fun, ungraph, un, fuse);

//! Oracles for containers, scc, DOT and serde (C11, C12, C18): statements evaluated on real output.
use crate::oracle::*;
use std::collections::{BTreeMap, BTreeSet};

fn reach(ls: &Lists, from: usize) -> BTreeSet<usize> {
    let mut seen = BTreeSet::from([from]);
    let mut stack = vec![from];
    while let Some(u) = stack.pop() {
        if let Some(n) = ls.iter().find(|n| n.key == u) {
            for (v, _) in &n.out {
                if seen.insert(*v) {
                    stack.push(*v);
                }
            }
        }
    }
    seen
}

/// C11: the result is a partition of the members and two nodes share a component exactly when
/// each is reachable from the other
pub fn scc_partition(ls: &Lists, members: &[usize], comps: &[Vec<usize>]) -> Result<(), String> {
    let mut seen: BTreeMap<usize, usize> = BTreeMap::new();
    for (ci, c) in comps.iter().enumerate() {
        if c.is_empty() {
            return Err(format!("scc returned an empty component: {:?}", comps));
        }
        for k in c {
            if seen.insert(*k, ci).is_some() {
                return Err(format!("node {k} appears in more than one component (or twice): {:?}", comps));
            }
        }
    }
    for m in members {
        if !seen.contains_key(m) {
            return Err(format!("member {m} appears in no component: {:?}", comps));
        }
    }
    if seen.len() != members.len() {
        return Err(format!("scc lists nodes that are not members: {:?} vs members {:?}", comps, members));
    }
    let r: BTreeMap<usize, BTreeSet<usize>> = members.iter().map(|m| (*m, reach(ls, *m))).collect();
    for a in members {
        for b in members {
            let mutual = r[a].contains(b) && r[b].contains(a);
            if mutual != (seen[a] == seen[b]) {
                return Err(format!("nodes {a} and {b} are {}mutually reachable but scc() puts them in {} component(s): {:?}", if mutual { "" } else { "not " }, if seen[a] == seen[b] { "one" } else { "different" }, comps));
            }
        }
    }
    Ok(())
}

fn multiset(v: Vec<String>) -> BTreeMap<String, usize> {
    let mut m = BTreeMap::new();
    for x in v {
        *m.entry(x).or_insert(0) += 1;
    }
    m
}

/// C18: `to_dot` = "digraph {", one `    k` line per member, one `    u -> v` line per iterated edge, "}"
pub fn dot_plain(text: &str, ls: &Lists, members: &[usize]) -> Result<(), String> {
    let lines: Vec<&str> = text.split('\n').collect();
    if lines.first() != Some(&"digraph {") || lines.last() != Some(&"}") {
        return Err(format!("to_dot: missing frame: {:?}", text));
    }
    let got = multiset(lines[1..lines.len() - 1].iter().map(|s| s.to_string()).collect());
    let mut expect = vec![];
    for k in members {
        expect.push(format!("    {k}"));
        if let Some(n) = ls.iter().find(|n| n.key == *k) {
            for (v, _) in &n.out {
                expect.push(format!("    {k} -> {v}"));
            }
        }
    }
    let expect = multiset(expect);
    if got != expect {
        return Err(format!("to_dot lines {:?} differ from one node statement per member and one edge statement per edge {:?}", got, expect));
    }
    Ok(())
}

pub fn fmt_attr(a: &[(String, String)]) -> String {
    a.iter().map(|(k, v)| format!("[{k}=\"{v}\"]")).collect::<Vec<_>>().join("")
}

pub fn dot_attr(text: &str, ls: &Lists, members: &BTreeMap<usize, i64>, table: usize) -> Result<(), String> {
    let (ga, na, ea) = crate::exec_cont::attr_tables(table);
    let lines: Vec<&str> = text.split('\n').collect();
    if lines.first() != Some(&"digraph {") || lines.last() != Some(&"}") {
        return Err(format!("to_dot_with_attr: missing frame: {:?}", text));
    }
    if table == 3 {
        // stateful callbacks: every statement carries the number of the invocation made for it - the numbers on the node
        // statements are 1..n, those on the edge statements 1..m, each exactly once (which statement gets which number
        // follows the container's iteration order)
        let mut ni: Vec<usize> = vec![];
        let mut ej: Vec<usize> = vec![];
        let mut stripped: Vec<String> = vec![];
        for l in &lines[1..lines.len() - 1] {
            let (head, num) = match l.rsplit_once(" [") {
                Some((h, a)) => (h.to_string(), a.trim_end_matches(']').to_string()),
                None => return Err(format!("to_dot_with_attr (stateful callbacks): statement `{l}` carries no attribute")),
            };
            let (name, val) = num.split_once('=').unwrap_or(("", ""));
            let v: usize = val.trim_matches('"').parse().map_err(|_| format!("statement `{l}`: attribute value is not a number"))?;
            if name == "i" && !head.contains("->") {
                ni.push(v)
            } else if name == "j" && head.contains("->") {
                ej.push(v)
            } else {
                return Err(format!("statement `{l}` carries the attribute of the other callback"));
            }
            stripped.push(head);
        }
        ni.sort();
        ej.sort();
        if ni != (1..=ni.len()).collect::<Vec<_>>() || ej != (1..=ej.len()).collect::<Vec<_>>() {
            return Err(format!("to_dot_with_attr with stateful callbacks: node statements carry {:?}, edge statements {:?}; each callback is to be invoked once per statement and its answer used for that statement", ni, ej));
        }
        let mut expect = vec![];
        for k in members.keys() {
            expect.push(format!("\t{k}"));
            if let Some(n) = ls.iter().find(|n| n.key == *k) {
                for (v, _) in &n.out {
                    expect.push(format!("\t{k} -> {v}"));
                }
            }
        }
        if multiset(stripped.clone()) != multiset(expect.clone()) {
            return Err(format!("to_dot_with_attr (stateful callbacks) statements {:?} differ from the expected {:?}", stripped, expect));
        }
        return Ok(());
    }
    let got = multiset(lines[1..lines.len() - 1].iter().map(|s| s.to_string()).collect());
    let mut expect = vec![];
    if let Some(ga) = ga {
        for (k, v) in ga {
            expect.push(format!("\t{k}=\"{v}\""));
        }
    }
    for (k, val) in members {
        match na(*k, *val) {
            Some(a) => expect.push(format!("\t{k} {}", fmt_attr(&a))),
            None => expect.push(format!("\t{k}")),
        }
    }
    for k in members.keys() {
        if let Some(n) = ls.iter().find(|n| n.key == *k) {
            for (v, e) in &n.out {
                match ea(*k, *v, *e) {
                    Some(a) => expect.push(format!("\t{k} -> {v} {}", fmt_attr(&a))),
                    None => expect.push(format!("\t{k} -> {v}")),
                }
            }
        }
    }
    let expect = multiset(expect);
    if got != expect {
        return Err(format!("to_dot_with_attr (table {table}) lines {:?} differ from the expected statements {:?}", got, expect));
    }
    Ok(())
}

type Den = (Vec<(usize, i64)>, Vec<(usize, Vec<Entry>, Vec<Entry>)>);

/// C12: same keys and node values; directed: same outgoing list per node (same order);
/// undirected: same multiset of incident (neighbour, value) pairs per node
pub fn same_graph(directed: bool, a: &Den, b: &Den) -> Result<(), String> {
    let na: BTreeMap<usize, i64> = a.0.iter().cloned().collect();
    let nb: BTreeMap<usize, i64> = b.0.iter().cloned().collect();
    if na != nb || a.0.len() != b.0.len() {
        return Err(format!("nodes differ: {:?} vs {:?}", a.0, b.0));
    }
    for (k, out, _) in &a.1 {
        let Some((_, out2, _)) = b.1.iter().find(|x| x.0 == *k) else { return Err(format!("node {k} lost")) };
        if directed {
            if out != out2 {
                return Err(format!("outgoing edges of {k} were {:?} and are {:?} after the round trip", out, out2));
            }
        } else {
            let (mut x, mut y) = (out.clone(), out2.clone());
            x.sort();
            y.sort();
            if x != y {
                return Err(format!("incident edges of {k} were {:?} and are {:?} after the round trip", out, out2));
            }
        }
    }
    Ok(())
}

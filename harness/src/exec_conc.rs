//! C17: concurrent scenarios on the sync flavours, run under the deterministic scheduler.
use crate::exec::{fmt_list, Ctx};
use crate::oracle::Entry;
use crate::sched;

#[derive(Clone, Debug)]
pub struct Call {
    pub kind: char,
    pub a: usize,
    pub b: usize,
    pub e: u32,
}
impl Call {
    pub fn is_mutator(&self) -> bool {
        matches!(self.kind, 'c' | 't' | 'd' | 'x')
    }
}

/// an operation of a C20 script
#[derive(Clone, Debug)]
pub struct Call2 {
    pub kind: String,
    pub a: usize,
    pub b: usize,
    pub e: u32,
}

/// `c.0.1.5/d.0.1|q.0.1` -> per thread its calls
pub fn parse_threads(spec: &str) -> Vec<Vec<Call>> {
    spec.split('|')
        .map(|t| {
            t.split('/')
                .filter(|x| !x.is_empty())
                .map(|c| {
                    let p: Vec<&str> = c.split('.').collect();
                    let n = |i: usize| p.get(i).and_then(|x| x.parse::<usize>().ok()).unwrap_or(0);
                    Call { kind: p[0].chars().next().unwrap(), a: n(1), b: n(2), e: n(3) as u32 }
                })
                .collect()
        })
        .collect()
}

/// all interleavings of the per-thread call lists (as (thread, index) sequences)
pub fn interleavings(lens: &[usize]) -> Vec<Vec<(usize, usize)>> {
    fn go(pos: &mut Vec<usize>, lens: &[usize], cur: &mut Vec<(usize, usize)>, out: &mut Vec<Vec<(usize, usize)>>) {
        if pos.iter().zip(lens).all(|(p, l)| p == l) {
            out.push(cur.clone());
            return;
        }
        for t in 0..lens.len() {
            if pos[t] < lens[t] {
                cur.push((t, pos[t]));
                pos[t] += 1;
                go(pos, lens, cur, out);
                pos[t] -= 1;
                cur.pop();
            }
        }
    }
    let mut out = vec![];
    go(&mut vec![0; lens.len()], lens, &mut vec![], &mut out);
    out
}

macro_rules! conc_kind {
    (di) => {
        fn more_readers(n: &N, c: &Call) -> Option<String> {
            Some(match c.kind {
                'n' => format!("{}", n.in_degree()),
                'r' => format!("{}", n.is_root() as u8),
                'l' => format!("{}", n.is_leaf() as u8),
                'f' => format!("{}", n.find_inbound(&c.b).is_some() as u8),
                'F' => format!("{}", n.find_outbound(&c.b).is_some() as u8),
                _ => return None,
            })
        }
        fn traversal(n: &N, c: &Call) -> Option<String> {
            let show = |r: Option<N>| r.map_or("None".to_string(), |x| format!("Some({})", x.key()));
            Some(match c.kind {
                'B' => show(n.bfs().target(&c.b).search()),
                'D' => show(n.dfs().target(&c.b).search()),
                'T' => show(n.bfs().transpose().target(&c.b).search()),
                'P' => crate::exec::fmt_keys(&n.preorder().search_nodes().iter().map(|x| *x.key()).collect::<Vec<_>>()),
                _ => return None,
            })
        }
        fn degree_of(n: &N) -> usize {
            n.out_degree()
        }
        fn iter_of(n: &N) -> Vec<Entry> {
            n.iter_out().map(|Edge(_, v, e)| (*v.key(), e)).collect()
        }
    };
    (un) => {
        fn more_readers(n: &N, c: &Call) -> Option<String> {
            Some(match c.kind {
                'F' => format!("{}", n.find_adjacent(&c.b).is_some() as u8),
                _ => return None,
            })
        }
        fn traversal(n: &N, c: &Call) -> Option<String> {
            let show = |r: Option<N>| r.map_or("None".to_string(), |x| format!("Some({})", x.key()));
            Some(match c.kind {
                'B' => show(n.bfs().target(&c.b).search()),
                'D' => show(n.dfs().target(&c.b).search()),
                'P' => crate::exec::fmt_keys(&n.order().pre().search_nodes().iter().map(|x| *x.key()).collect::<Vec<_>>()),
                _ => return None,
            })
        }
        fn degree_of(n: &N) -> usize {
            n.degree()
        }
        fn iter_of(n: &N) -> Vec<Entry> {
            n.iter().map(|Edge(_, v, e)| (*v.key(), e)).collect()
        }
    };
}

macro_rules! conc_mod {
    ($m:ident, $fl:ident, $kind:ident) => {
        pub mod $m {
            #![allow(unused, clippy::all)]
            use super::*;
            use crate::exec::$m::{St, N};
            use gdsl::error::Error;
            use gdsl::$fl::*;
            conc_kind!($kind);

            /// `local`: nodes that exist only in the calling thread (`m.K.V` makes one, `k.K` drops its only handle)
            pub fn do_call(nodes: &[N], local: &mut Vec<N>, c: &Call) -> String {
                match c.kind {
                    'm' => {
                        local.push(N::new(c.a, c.b as i64));
                        return "ok".into();
                    }
                    'k' => {
                        local.retain(|n| *n.key() != c.a);
                        return "ok".into();
                    }
                    _ => {}
                }
                let find = |k: usize| local.iter().chain(nodes.iter()).find(|n| *n.key() == k).expect("node").clone();
                match c.kind {
                    'c' => {
                        find(c.a).connect(&find(c.b), c.e);
                        "ok".into()
                    }
                    't' => match find(c.a).try_connect(&find(c.b), c.e) {
                        Ok(()) => "ok".into(),
                        Err(_) => "err_exists".into(),
                    },
                    'd' => match find(c.a).disconnect(&c.b) {
                        Ok(e) => format!("ok_{e}"),
                        Err(_) => "err_notfound".into(),
                    },
                    'x' => {
                        find(c.a).isolate();
                        "ok".into()
                    }
                    'q' => format!("{}", find(c.a).is_connected(&c.b) as u8),
                    'g' => format!("{}", degree_of(&find(c.a))),
                    'o' => format!("{}", find(c.a).is_orphan() as u8),
                    'i' => fmt_list(&iter_of(&find(c.a))),
                    'B' | 'D' | 'T' | 'P' => traversal(&find(c.a), c).unwrap_or_else(|| "bad".into()),
                    _ => more_readers(&find(c.a), c).unwrap_or_else(|| "bad".into()),
                }
            }

            /// one run under a forced schedule prefix; returns (output line, decisions, mutator results + dump, failure)
            pub fn run(st: &St, threads: &[Vec<Call>], forced: Vec<usize>, forced_ids: Vec<usize>) -> (String, Vec<(usize, usize, usize)>, (Vec<Vec<String>>, String), Option<String>) {
                let nodes: Vec<N> = st.nodes.clone();
                let mut bodies: Vec<Box<dyn FnOnce() -> String + Send>> = vec![];
                for calls in threads {
                    let ns = nodes.clone();
                    let calls = calls.clone();
                    bodies.push(Box::new(move || {
                        let mut local: Vec<N> = vec![];
                        calls.iter().map(|c| do_call(&ns, &mut local, c)).collect::<Vec<_>>().join("+")
                    }));
                }
                let out = sched::run_once(forced, forced_ids, bodies);
                let dump = std::panic::catch_unwind(std::panic::AssertUnwindSafe(|| crate::exec::$m::dump(st))).unwrap_or_else(|_| "POISONED".into());
                let mut fail = None;
                if let Some(why) = &out.deadlock {
                    fail = Some(format!("deadlock: {why}"));
                } else if out.results.iter().any(|r| r == "PANIC") {
                    fail = Some(format!("a call panicked (results {:?})", out.results));
                } else if dump == "POISONED" {
                    fail = Some("a node lock is poisoned after the run".into());
                }
                let line = if out.deadlock.is_some() { format!("deadlock res={}", out.results.join(";")) } else { format!("res={} dump={}", out.results.join(";"), dump) };
                let mres: Vec<Vec<String>> = out
                    .results
                    .iter()
                    .zip(threads)
                    .map(|(r, calls)| {
                        let parts: Vec<&str> = if r.is_empty() { vec![] } else { r.split('+').collect() };
                        calls.iter().enumerate().filter(|(_, c)| c.is_mutator()).map(|(i, _)| parts.get(i).unwrap_or(&"?").to_string()).collect()
                    })
                    .collect();
                (line, out.decisions, (mres, dump), fail)
            }

            /// the outcomes of every sequential order of the calls that respects each thread's order, on fresh copies
            pub fn sequential_outcomes(prefix: &[String], threads: &[Vec<Call>]) -> Vec<(Vec<Vec<String>>, String)> {
                let lens: Vec<usize> = threads.iter().map(|t| t.len()).collect();
                let mut outs = vec![];
                for order in interleavings(&lens) {
                    let mut ctx = Ctx::default();
                    let mut st = St { nodes: vec![], twins: vec![] };
                    // rebuild the initial state from the case prefix (new / connect lines only)
                    for l in prefix {
                        let t: Vec<&str> = l.split(' ').collect();
                        match t[0] {
                            "new" => st.nodes.push(N::new(t[1].parse().unwrap(), t[2].parse().unwrap())),
                            "connect" => st.node(t[1].parse().unwrap()).connect(st.node(t[2].parse().unwrap()), t[3].parse().unwrap()),
                            _ => {}
                        }
                    }
                    let mut res: Vec<Vec<String>> = threads.iter().map(|_| vec![]).collect();
                    let mut locals: Vec<Vec<N>> = threads.iter().map(|_| vec![]).collect();
                    for (t, i) in order {
                        let c = &threads[t][i];
                        let r = do_call(&st.nodes, &mut locals[t], c);
                        if c.is_mutator() {
                            res[t].push(r);
                        }
                    }
                    let d = crate::exec::$m::dump(&st);
                    if !outs.contains(&(res.clone(), d.clone())) {
                        outs.push((res, d));
                    }
                }
                outs
            }
        }
    };
}
conc_mod!(sdi, sync_digraph, di);
conc_mod!(sun, sync_ungraph, un);

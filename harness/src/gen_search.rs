//! Generators for the traversal properties (C04-C11): enumerated connect-sequences on few
//! nodes (insertion orders are covered because graphs are built by enumerated `connect`
//! sequences, not from a canonical form) and seeded random graphs.
use crate::exec::is_directed;
use crate::rng::Rng;

pub type Tri = (usize, usize, u32);

#[derive(Clone)]
pub struct GraphSpec {
    pub n: usize,
    pub vals: Vec<i64>,
    pub edges: Vec<Tri>,
}

pub fn graph_lines(g: &GraphSpec) -> Vec<String> {
    let mut l = vec![];
    for k in 0..g.n {
        l.push(format!("new {k} {}", g.vals[k]));
    }
    for (u, v, e) in &g.edges {
        l.push(format!("connect {u} {v} {e}"));
    }
    l
}

/// the `idx`-th connect sequence over `n` nodes with exactly `m` edges (edge value = position)
pub fn seq_graph(n: usize, m: usize, mut idx: usize) -> Vec<Tri> {
    let mut es = vec![];
    for i in 0..m {
        let p = idx % (n * n);
        idx /= n * n;
        es.push((p / n, p % n, i as u32));
    }
    es
}
pub fn count_seqs(n: usize, m: usize) -> usize {
    (n * n).pow(m as u32)
}

/// the edges a traversal of this flavour can report (for building reject sets)
pub fn reportable(fl: &str, tr: bool, g: &GraphSpec) -> Vec<Tri> {
    let mut r = vec![];
    for &(u, v, e) in &g.edges {
        if is_directed(fl) {
            r.push(if tr { (v, u, e) } else { (u, v, e) });
        } else {
            r.push((u, v, e));
            r.push((v, u, e));
        }
    }
    r.sort();
    r.dedup();
    r
}

pub fn fmt_rej(r: &[Tri]) -> String {
    if r.is_empty() {
        "-".into()
    } else {
        r.iter().map(|(u, v, e)| format!("{u}>{v}:{e}")).collect::<Vec<_>>().join(",")
    }
}

/// reject sets: none, `each`, every single edge; all subsets when `all_subsets` (capped)
pub fn methods(fl: &str, tr: bool, g: &GraphSpec, all_subsets: bool, cap: usize, with_each: bool) -> Vec<String> {
    let rep = reportable(fl, tr, g);
    let mut ms = vec!["none".to_string()];
    if with_each {
        ms.push("each".into());
    }
    if all_subsets && rep.len() <= 12 {
        let total = 1usize << rep.len();
        let step = (total / cap.max(1)).max(1);
        let mut s = 1;
        while s < total {
            let sub: Vec<Tri> = rep.iter().enumerate().filter(|(i, _)| s >> i & 1 == 1).map(|(_, t)| *t).collect();
            ms.push(format!("filter:{}", fmt_rej(&sub)));
            s += step;
        }
        ms.push("filter:-".into());
    } else {
        ms.push("filter:-".into());
        for t in &rep {
            ms.push(format!("filter:{}", fmt_rej(&[*t])));
        }
    }
    ms
}

pub fn random_graph(rng: &mut Rng, max_n: usize) -> GraphSpec {
    let n = 1 + rng.below(max_n);
    let shape = rng.below(8);
    let mut edges = vec![];
    let m = match shape {
        0 => rng.below(n + 1),              // sparse
        1 => n + rng.below(2 * n + 1),      // medium
        2 => rng.below(n * n / 2 + 1).min(120), // dense
        6 | 7 if max_n >= 6 => 20 + rng.below(70), // a hub of high degree (list growth thresholds 4, 8, 16, 32, 64)
        _ => rng.below(2 * n + 1),
    };
    // values: mostly a small range (ties matter), sometimes the extremes of the payload types
    let wide = rng.chance(15);
    for i in 0..m {
        let (mut u, mut v) = (rng.below(n), rng.below(n));
        match shape {
            3 => {
                // DAG: edges go upwards
                if u > v {
                    std::mem::swap(&mut u, &mut v);
                }
                if u == v {
                    continue;
                }
            }
            4 => {
                // two disconnected halves
                let h = (n / 2).max(1);
                if rng.chance(50) {
                    u %= h;
                    v %= h;
                } else if n > h {
                    u = h + u % (n - h);
                    v = h + v % (n - h);
                }
            }
            5 => {
                // ring with chords
                if rng.chance(60) {
                    v = (u + 1) % n;
                }
            }
            _ => {}
        }
        if (shape == 6 || shape == 7) && max_n >= 6 {
            // fan out of / into node 0, with parallel edges
            if shape == 6 { u = 0 } else { v = 0 }
        }
        if rng.chance(8) {
            v = u;
        }
        if !edges.is_empty() && rng.chance(8) {
            let (a, b, _): Tri = edges[rng.below(edges.len())];
            u = a;
            v = b;
        }
        let e = if wide { [0u32, 1, u32::MAX, 1 << 31, u32::MAX - 1, 7][rng.below(6)] } else { (i % 5) as u32 };
        edges.push((u, v, e));
    }
    let vals = (0..n).map(|_| if wide { [i64::MIN, -1, 0, 1, i64::MAX, i64::MIN + 1][rng.below(6)] } else { rng.below(4) as i64 }).collect();
    GraphSpec { n, vals, edges }
}

pub fn dirs(fl: &str, both: bool) -> Vec<&'static str> {
    if is_directed(fl) && both {
        vec!["fwd", "tr"]
    } else {
        vec!["fwd"]
    }
}

/// request lines of one property for one graph
pub fn requests(prop: &str, fl: &str, g: &GraphSpec, thorough: bool, rng: Option<&mut Rng>) -> Vec<String> {
    let mut l = vec![];
    let n = g.n;
    let small = rng.is_none();
    let mut dummy = Rng::new(1);
    let rng = match rng {
        Some(r) => r,
        None => &mut dummy,
    };
    let pairs: Vec<(usize, usize)> = if small {
        (0..n).flat_map(|r| (0..n).map(move |t| (r, t))).collect()
    } else {
        (0..12).map(|_| (rng.below(n), rng.below(n))).collect()
    };
    let roots: Vec<usize> = if small { (0..n).collect() } else { (0..6).map(|_| rng.below(n)).collect() };
    let pick_methods = |fl: &str, tr: bool, rng: &mut Rng, with_each: bool| -> Vec<String> {
        if small {
            methods(fl, tr, g, thorough, 16, with_each)
        } else {
            let rep = reportable(fl, tr, g);
            let mut ms = vec!["none".to_string()];
            if with_each {
                ms.push("each".into());
            }
            for _ in 0..2 {
                let sub: Vec<Tri> = rep.iter().cloned().filter(|_| rng.chance(15)).collect();
                ms.push(format!("filter:{}", fmt_rej(&sub)));
            }
            ms
        }
    };
    let search_kinds: Vec<&str> = match prop {
        "C04" => vec!["bfs"],
        "C05" => vec!["dfs"],
        "C06" => vec!["pfs-min", "pfs-max"],
        _ => vec!["bfs", "dfs", "pfs-min", "pfs-max"],
    };
    match prop {
        "C04" | "C05" | "C06" => {
            // transposed searches are breadth-/depth-/priority-first searches of the reversed graph: same statement
            for d in dirs(fl, true) {
                let ms = pick_methods(fl, d == "tr", rng, prop == "C06");
                for &(r, t) in &pairs {
                    for k in &search_kinds {
                        for m in &ms {
                            for mode in ["node", "path"] {
                                l.push(format!("search {k} {d} {r} {t} {m} {mode}"));
                            }
                        }
                    }
                }
                if prop == "C06" {
                    // the expansion discipline without a target
                    for &r in &roots {
                        for k in &search_kinds {
                            l.push(format!("search {k} {d} {r} - each node"));
                        }
                    }
                }
            }
        }
        "C07" => {
            for d in dirs(fl, true) {
                let ms = pick_methods(fl, d == "tr", rng, true);
                for &r in &roots {
                    for m in &ms {
                        if m == "none" {
                            continue;
                        }
                        for k in &search_kinds {
                            l.push(format!("search {k} {d} {r} - {m} node"));
                            if small || rng.chance(30) {
                                l.push(format!("search {k} {d} {r} - {m} path"));
                            }
                        }
                        for k in ["pre", "post"] {
                            l.push(format!("order {k} {d} {r} {m} nodes"));
                            l.push(format!("order {k} {d} {r} {m} edges"));
                        }
                    }
                }
                // filtered searches with a target: reachability is decided in the accepted graph
                for &(r, t) in pairs.iter().take(if small { usize::MAX } else { 6 }) {
                    for m in ms.iter().filter(|m| m.starts_with("filter")) {
                        for k in &search_kinds {
                            l.push(format!("search {k} {d} {r} {t} {m} path"));
                            l.push(format!("search {k} {d} {r} {t} {m} node"));
                        }
                    }
                }
                for &r in roots.iter().take(if small { usize::MAX } else { 3 }) {
                    for m in ms.iter().filter(|m| m.starts_with("filter")) {
                        for k in &search_kinds {
                            l.push(format!("search {k} {d} {r} - {m} cycle"));
                        }
                    }
                }
            }
        }
        "C08" => {
            for d in dirs(fl, true) {
                let ms = pick_methods(fl, d == "tr", rng, true);
                for m in ms.iter().take(if small { if thorough { 6 } else { 3 } } else { 3 }) {
                    for &(r, t) in &pairs {
                        for k in &search_kinds {
                            l.push(format!("search {k} {d} {r} {t} {m} node"));
                            l.push(format!("search {k} {d} {r} {t} {m} path"));
                        }
                    }
                    for &r in &roots {
                        for k in &search_kinds {
                            l.push(format!("search {k} {d} {r} - {m} cycle"));
                        }
                        for k in ["pre", "post"] {
                            l.push(format!("order {k} {d} {r} {m} nodes"));
                            l.push(format!("order {k} {d} {r} {m} edges"));
                        }
                    }
                }
            }
            for &r in &roots {
                l.push(format!("order post default {r} none nodes"));
                l.push(format!("order pre default {r} none nodes"));
            }
        }
        "C09" => {
            for d in dirs(fl, true) {
                let ms = pick_methods(fl, d == "tr", rng, false);
                for &r in &roots {
                    for k in &search_kinds {
                        for m in &ms {
                            l.push(format!("search {k} {d} {r} - {m} cycle"));
                        }
                    }
                }
            }
        }
        "C10" => {
            for d in if is_directed(fl) { vec!["fwd", "tr", "default"] } else { vec!["fwd"] } {
                let ms = pick_methods(fl, d == "tr", rng, false);
                for &r in &roots {
                    for m in &ms {
                        for k in ["pre", "post"] {
                            l.push(format!("order {k} {d} {r} {m} nodes"));
                            l.push(format!("order {k} {d} {r} {m} edges"));
                        }
                    }
                }
            }
        }
        _ => {}
    }
    // closures that themselves start traversals or ask questions while the outer one runs (bfs, dfs, pfs, transposed
    // dfs, preorder, is_connected): nothing a nested call does may leak into the running one
    {
        let ro_script = |rng: &mut Rng| -> String {
            let mut ents = vec![];
            for _ in 0..1 + rng.below(3) {
                let ops: Vec<String> = (0..1 + rng.below(2))
                    .map(|_| {
                        let (u, v) = (rng.below(n.max(1)), rng.below(n.max(1)));
                        match rng.below(6) {
                            0 => format!("s.{u}.{v}"),
                            1 => format!("sd.{u}.{v}"),
                            2 => format!("sp.{u}.{v}"),
                            3 => format!("st.{u}.{v}"),
                            4 => format!("so.{u}"),
                            _ => format!("q.{u}.{v}"),
                        }
                    })
                    .collect();
                if rng.chance(40) {
                    ents.push(format!("*{}={}", 1 + rng.below(3), ops.join("/")));
                } else {
                    ents.push(format!("{}={}", rng.below(6), ops.join("/")));
                }
            }
            ents.join(";")
        };
        let ds = if prop == "C10" { if is_directed(fl) { vec!["fwd", "tr", "default"] } else { vec!["fwd"] } } else { dirs(fl, true) };
        for d in ds {
            for &(r, t) in pairs.iter().take(if small { 6 } else { 4 }) {
                if n == 0 {
                    continue;
                }
                let m = if rng.chance(50) { format!("each@{}", ro_script(rng)) } else { format!("filter:-@{}", ro_script(rng)) };
                if prop != "C10" && d != "default" {
                    for k in &search_kinds {
                        match prop {
                            "C09" => l.push(format!("search {k} {d} {r} - {m} cycle")),
                            "C07" => l.push(format!("search {k} {d} {r} - {m} node")),
                            _ => {
                                l.push(format!("search {k} {d} {r} {t} {m} path"));
                                l.push(format!("search {k} {d} {r} {t} {m} node"));
                            }
                        }
                    }
                }
                if prop == "C10" || prop == "C07" || prop == "C08" {
                    for k in ["pre", "post"] {
                        l.push(format!("order {k} {d} {r} {m} nodes"));
                    }
                }
            }
        }
    }
    // builder reuse: several searches on ONE builder object (`mode1+mode2`, `path:K` retargets first). Nothing may
    // survive from one call to the next: every stage must be the search the property describes.
    let mut h = 0usize;
    if prop == "C10" || prop == "C07" || prop == "C08" {
        let opats = ["nodes+edges", "edges+nodes", "nodes+nodes", "edges+edges+nodes"];
        for d in if prop == "C10" { if is_directed(fl) { vec!["fwd", "tr", "default"] } else { vec!["fwd"] } } else { dirs(fl, true) } {
            let ms = pick_methods(fl, d == "tr", rng, prop != "C10");
            for &r in &roots {
                for m in ms.iter().take(3) {
                    for k in ["pre", "post"] {
                        h += 1;
                        l.push(format!("order {k} {d} {r} {m} {}", opats[h % opats.len()]));
                    }
                }
            }
        }
    }
    if prop != "C10" {
        for d in dirs(fl, true) {
            let ms = pick_methods(fl, d == "tr", rng, prop == "C06" || prop == "C07" || prop == "C08");
            for &(r, t) in &pairs {
                for k in &search_kinds {
                    for m in ms.iter().take(3) {
                        h += 1;
                        let t2 = (t + 1 + h % n.max(1)) % n.max(1);
                        let pats = [format!("path+path"), format!("path+path:{t2}"), format!("path+node"), format!("path+cycle"), format!("path:{t2}+path:{t}"), format!("path+path+cycle"), format!("path:{t2}+node")];
                        l.push(format!("search {k} {d} {r} {t} {m} {}", pats[h % pats.len()]));
                    }
                }
            }
        }
        // the graph changes between two calls on the same builder (these come last: they alter the case's graph)
        for d in dirs(fl, true) {
            for &(r, t) in pairs.iter().take(if small { usize::MAX } else { 6 }) {
                for k in &search_kinds {
                    h += 1;
                    let t2 = (t + 1 + h % n.max(1)) % n.max(1);
                    let (a, b) = if d == "tr" { (t, r) } else { (r, t) };
                    // (the last two add an edge INTO the root of the search after the builder was made)
                    let rr = if d == "tr" { (r, t2) } else { (t2, r) };
                    let pats = [format!("path+c.{a}.{b}.1+path"), format!("path+d.{a}.{b}+path"), format!("path+x.{t2}+path+cycle"), format!("path+c.{t2}.{b}.0+node"), format!("path+c.{}.{}.2+path", rr.0, rr.1), format!("path+c.{}.{}.2+node", rr.0, rr.1)];
                    l.push(format!("search {k} {d} {r} {t} none {}", pats[h % pats.len()]));
                }
            }
        }
    }
    // the order of the builder's configuration calls (`min/max`, `transpose`, `target`) must not matter: `kind~n`
    let mut v = 0usize;
    for line in l.iter_mut() {
        // the root handle obtained in different ways (clone, container lookup, indexing, edge endpoint, search result)
        if (line.starts_with("search ") || line.starts_with("order ")) && !line.contains('@') && !line.contains('+') {
            v += 1;
            if v % 7 == 0 {
                line.push_str(&format!(" #via={}", ["graph", "index", "edge", "result"][(v / 7) % 4]));
            }
        }
        if let Some(rest) = line.clone().strip_prefix("search ") {
            if !rest.contains('@') {
                v += 1;
                if v % 3 != 0 {
                    let (kind, tail) = rest.split_once(' ').unwrap();
                    *line = format!("search {kind}~{} {tail}", v % 384);
                }
            }
        }
    }
    l
}

//! One xorshift state; every random choice of a run derives from it.
#[derive(Clone)]
pub struct Rng(pub u64);
impl Rng {
    pub fn new(seed: u64) -> Self {
        let mut r = Rng(seed.wrapping_mul(0x9E37_79B9_7F4A_7C15) ^ 0xD1B5_4A32_D192_ED03 | 1);
        for _ in 0..4 {
            r.next();
        }
        r
    }
    pub fn next(&mut self) -> u64 {
        let mut x = self.0;
        x ^= x << 13;
        x ^= x >> 7;
        x ^= x << 17;
        self.0 = x;
        x
    }
    pub fn below(&mut self, n: usize) -> usize {
        if n == 0 {
            0
        } else {
            (self.next() % n as u64) as usize
        }
    }
    pub fn chance(&mut self, percent: u64) -> bool {
        self.next() % 100 < percent
    }
    pub fn fork(&mut self) -> Rng {
        Rng::new(self.next())
    }
}

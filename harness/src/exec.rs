//! In-process executor: runs a program (line protocol of DESIGN.md §3.1) against the real
//! gdsl code of one flavour and records the observation stream, evaluating the oracles.
use crate::oracle::*;
use std::collections::BTreeMap;
use std::panic::{catch_unwind, AssertUnwindSafe};

#[derive(Clone, Debug)]
pub struct OracleFail {
    pub case: String,
    pub line: usize,
    pub oracle: String,
    pub msg: String,
    /// the case is in the side program file (programs that are not compared with the model)
    pub side: bool,
}
/// keys >= TWIN denote a second node OBJECT carrying key `k - TWIN` (C15: programs with two live nodes of one key;
/// nodes are keys in the model, so these programs are compared between the two implementations only)
pub const TWIN: usize = 1_000_000;

/// set once enough oracle failures were recorded: generators stop producing cases
pub static STOP: std::sync::atomic::AtomicBool = std::sync::atomic::AtomicBool::new(false);
pub static NFAILS: std::sync::atomic::AtomicUsize = std::sync::atomic::AtomicUsize::new(0);
pub const FAIL_CAP: usize = 40;
/// a new section of a run (one flavour / one generator) gets its own failure budget
/// directory for the in-flight markers of `run` mode: before a case is executed its lines are written to
/// `<dir>/inflight-<thread>.prog`, so that a crash that kills the process (allocation failure, stack overflow,
/// abort) still leaves the input that caused it; `check` replays these files after a crash
pub static INFLIGHT_DIR: std::sync::OnceLock<String> = std::sync::OnceLock::new();
static INFLIGHT_NEXT: std::sync::atomic::AtomicUsize = std::sync::atomic::AtomicUsize::new(0);
thread_local! {
    static INFLIGHT_FILE: std::cell::RefCell<Option<std::fs::File>> = const { std::cell::RefCell::new(None) };
}
/// start time (ms since process start, 0 = idle) of the case each worker is executing, for the watchdog
pub static HEARTS: [std::sync::atomic::AtomicU64; 64] = [const { std::sync::atomic::AtomicU64::new(0) }; 64];
thread_local! {
    static HEART_SLOT: std::cell::Cell<usize> = const { std::cell::Cell::new(usize::MAX) };
}
static HEART_NEXT: std::sync::atomic::AtomicUsize = std::sync::atomic::AtomicUsize::new(0);
pub fn now_ms() -> u64 {
    static T0: std::sync::OnceLock<std::time::Instant> = std::sync::OnceLock::new();
    T0.get_or_init(std::time::Instant::now).elapsed().as_millis() as u64 + 1
}
fn heart(v: u64) {
    HEART_SLOT.with(|s| {
        if s.get() == usize::MAX {
            s.set(HEART_NEXT.fetch_add(1, std::sync::atomic::Ordering::SeqCst) % 64);
        }
        HEARTS[s.get()].store(v, std::sync::atomic::Ordering::SeqCst);
    });
}
/// the worker is between cases
pub fn inflight_done() {
    if INFLIGHT_DIR.get().is_some() {
        heart(0);
    }
}
/// `run` mode: a case that runs longer than `limit_s` ends the process (exit code 3); the case is in its in-flight file
pub fn start_watchdog(limit_s: u64) {
    std::thread::spawn(move || loop {
        std::thread::sleep(std::time::Duration::from_millis(500));
        let now = now_ms();
        for h in HEARTS.iter() {
            let t = h.load(std::sync::atomic::Ordering::SeqCst);
            if t != 0 && now > t + limit_s * 1000 {
                eprintln!("WATCHDOG: a case has been running for more than {limit_s} s (does not terminate?)");
                std::process::exit(3);
            }
        }
    });
}
pub fn inflight(head: &str, body: &[String]) {
    let Some(dir) = INFLIGHT_DIR.get() else { return };
    heart(now_ms());
    use std::io::{Seek, Write};
    INFLIGHT_FILE.with(|f| {
        let mut f = f.borrow_mut();
        if f.is_none() {
            let id = INFLIGHT_NEXT.fetch_add(1, std::sync::atomic::Ordering::SeqCst);
            let _ = std::fs::create_dir_all(dir);
            *f = std::fs::File::create(format!("{dir}/inflight-{id}.prog")).ok();
        }
        if let Some(file) = f.as_mut() {
            let mut text = String::with_capacity(64 + body.iter().map(|l| l.len() + 1).sum::<usize>());
            text.push_str(head);
            text.push('\n');
            for l in body {
                text.push_str(l);
                text.push('\n');
            }
            let _ = file.seek(std::io::SeekFrom::Start(0));
            let _ = file.set_len(0);
            let _ = file.write_all(text.as_bytes());
        }
    });
}

pub fn new_section() {
    STOP.store(false, std::sync::atomic::Ordering::SeqCst);
    NFAILS.store(0, std::sync::atomic::Ordering::SeqCst);
}
pub fn stopped() -> bool {
    STOP.load(std::sync::atomic::Ordering::Relaxed)
}

#[derive(Default)]
pub struct Ctx {
    /// annotated program actually executed (a case is cut after a panic/deadlock)
    pub prog: Vec<String>,
    /// one observation line per program line
    pub outs: Vec<String>,
    pub fails: Vec<OracleFail>,
    /// which oracle families to evaluate: "mirror", "contract", ...
    pub oracles: Vec<String>,
    pub counters: BTreeMap<String, u64>,
    pub samples: Vec<String>,
    /// programs that are not compared with the model (written to x<i>.prog)
    pub side_prog: Vec<String>,
    /// oracles are off while this is set (history replay inside exhaustive exploration)
    pub quiet: bool,
    /// C17: schedule prefix forced on the next `conc` request; decisions and outcome of the last one
    pub forced_schedule: Vec<usize>,
    /// thread ids of a recorded schedule (`@sched=` annotation of a replayed program)
    pub forced_ids: Vec<usize>,
    pub last_decisions: Vec<(usize, usize, usize)>,
    pub last_outcome: Option<(Vec<Vec<String>>, String)>,
}
impl Ctx {
    pub fn count(&mut self, k: &str) {
        *self.counters.entry(k.to_string()).or_insert(0) += 1;
    }
    pub fn has(&self, o: &str) -> bool {
        !self.quiet && self.oracles.iter().any(|x| x == o)
    }
    pub fn fail(&mut self, case: &str, line: usize, oracle: &str, msg: String) {
        let n = NFAILS.fetch_add(1, std::sync::atomic::Ordering::SeqCst);
        if n >= FAIL_CAP {
            STOP.store(true, std::sync::atomic::Ordering::SeqCst);
        }
        if n < FAIL_CAP + 16 {
            self.fails.push(OracleFail { case: case.into(), line, oracle: oracle.into(), msg, side: false });
        }
    }
}

pub fn fmt_list(l: &[Entry]) -> String {
    let v: Vec<String> = l.iter().map(|(k, e)| format!("{k}:{e}")).collect();
    format!("[{}]", v.join(","))
}
pub fn fmt_edges(l: &[(usize, usize, u32)]) -> String {
    let v: Vec<String> = l.iter().map(|(u, v, e)| format!("{u}>{v}:{e}")).collect();
    format!("[{}]", v.join(","))
}
pub fn fmt_keys(l: &[usize]) -> String {
    let v: Vec<String> = l.iter().map(|k| format!("{k}")).collect();
    format!("[{}]", v.join(","))
}
fn b(x: bool) -> &'static str {
    if x {
        "1"
    } else {
        "0"
    }
}

pub fn is_directed(fl: &str) -> bool {
    fl == "di" || fl == "sdi"
}

macro_rules! kind_items {
    (di) => {
        pub const DIRECTED: bool = true;
        pub fn lists_of(n: &N) -> (Vec<Entry>, Vec<Entry>) {
            (
                n.iter_out().map(|Edge(_, v, e)| (*v.key(), e)).collect(),
                n.iter_in().map(|Edge(u, _, e)| (*u.key(), e)).collect(),
            )
        }
        fn obs(n: &N) -> String {
            format!("od={} id={} root={} leaf={} orphan={}", n.out_degree(), n.in_degree(), b(n.is_root()), b(n.is_leaf()), b(n.is_orphan()))
        }
        fn q(n: &N, v: usize) -> String {
            let fo = n.find_outbound(&v).map(|x| *x.key());
            let fi = n.find_inbound(&v).map(|x| *x.key());
            format!("conn={} fo={:?} fi={:?}", b(n.is_connected(&v)), fo, fi)
        }
        /// observers must agree with the lists (part of C01's statement)
        fn observers_agree(n: &N, ls: &NodeLists, all: &Lists) -> Result<(), String> {
            if n.out_degree() != ls.out.len() || n.in_degree() != ls.inn.len() {
                return Err(format!("degrees of {} are {}/{} but it lists {}/{} edges", ls.key, n.out_degree(), n.in_degree(), ls.out.len(), ls.inn.len()));
            }
            if n.is_root() != ls.inn.is_empty() || n.is_leaf() != ls.out.is_empty() || n.is_orphan() != (ls.inn.is_empty() && ls.out.is_empty()) {
                return Err(format!("root/leaf/orphan of {} disagree with its lists", ls.key));
            }
            // the rest of the Iterator surface of the edge iterators must agree with stepping through them
            let tri = |e: Edge<usize, i64, u32>| (*e.1.key(), e.2);
            if n.iter_out().count() != ls.out.len() || n.iter_in().count() != ls.inn.len() {
                return Err(format!("count() of the edge iterators of {} disagrees with the lists", ls.key));
            }
            if n.iter_out().last().map(tri) != ls.out.last().cloned() || n.iter_out().nth(1).map(tri) != ls.out.get(1).cloned() || n.iter_out().skip(2).next().map(tri) != ls.out.get(2).cloned() {
                return Err(format!("last()/nth()/skip() of iter_out of {} disagree with the list {:?}", ls.key, ls.out));
            }
            if n.iter_in().last().map(|e| (*e.0.key(), e.2)) != ls.inn.last().cloned() || n.iter_in().nth(1).map(|e| (*e.0.key(), e.2)) != ls.inn.get(1).cloned() {
                return Err(format!("last()/nth() of iter_in of {} disagree with the list {:?}", ls.key, ls.inn));
            }
            let (lo, hi) = n.iter_out().size_hint();
            if lo > ls.out.len() || hi.map_or(false, |h| h < ls.out.len()) {
                return Err(format!("size_hint() of iter_out of {} is ({lo}, {:?}) but it yields {} edges", ls.key, hi, ls.out.len()));
            }
            if n.into_iter().map(tri).collect::<Vec<_>>() != ls.out {
                return Err(format!("IntoIterator for &Node of {} disagrees with iter_out", ls.key));
            }
            for o in all {
                let c = n.is_connected(&o.key);
                if c != ls.out.iter().any(|p| p.0 == o.key) {
                    return Err(format!("is_connected({},{}) = {} disagrees with the outgoing list", ls.key, o.key, c));
                }
                if n.find_outbound(&o.key).map(|x| *x.key()) != ls.out.iter().find(|p| p.0 == o.key).map(|p| p.0) {
                    return Err(format!("find_outbound({},{}) disagrees with the outgoing list", ls.key, o.key));
                }
                if n.find_inbound(&o.key).map(|x| *x.key()) != ls.inn.iter().find(|p| p.0 == o.key).map(|p| p.0) {
                    return Err(format!("find_inbound({},{}) disagrees with the incoming list", ls.key, o.key));
                }
            }
            Ok(())
        }
    };
    (un) => {
        pub const DIRECTED: bool = false;
        pub fn lists_of(n: &N) -> (Vec<Entry>, Vec<Entry>) {
            (n.iter().map(|Edge(_, v, e)| (*v.key(), e)).collect(), vec![])
        }
        fn obs(n: &N) -> String {
            format!("deg={} orphan={}", n.degree(), b(n.is_orphan()))
        }
        fn q(n: &N, v: usize) -> String {
            let fa = n.find_adjacent(&v).map(|x| *x.key());
            format!("conn={} fa={:?}", b(n.is_connected(&v)), fa)
        }
        fn observers_agree(n: &N, ls: &NodeLists, all: &Lists) -> Result<(), String> {
            if n.degree() != ls.out.len() {
                return Err(format!("degree of {} is {} but it lists {} edges", ls.key, n.degree(), ls.out.len()));
            }
            if n.is_orphan() != ls.out.is_empty() {
                return Err(format!("is_orphan of {} disagrees with its list", ls.key));
            }
            let tri = |e: Edge<usize, i64, u32>| (*e.1.key(), e.2);
            if n.iter().count() != ls.out.len() || n.iter().last().map(tri) != ls.out.last().cloned() || n.iter().nth(1).map(tri) != ls.out.get(1).cloned() || n.iter().skip(2).next().map(tri) != ls.out.get(2).cloned() {
                return Err(format!("count()/last()/nth()/skip() of iter() of {} disagree with the list {:?}", ls.key, ls.out));
            }
            let (lo, hi) = n.iter().size_hint();
            if lo > ls.out.len() || hi.map_or(false, |h| h < ls.out.len()) {
                return Err(format!("size_hint() of iter() of {} is ({lo}, {:?}) but it yields {} edges", ls.key, hi, ls.out.len()));
            }
            if n.into_iter().map(tri).collect::<Vec<_>>() != ls.out {
                return Err(format!("IntoIterator for &Node of {} disagrees with iter()", ls.key));
            }
            for o in all {
                let c = n.is_connected(&o.key);
                if c != ls.out.iter().any(|p| p.0 == o.key) {
                    return Err(format!("is_connected({},{}) = {} disagrees with the adjacency list", ls.key, o.key, c));
                }
                if n.find_adjacent(&o.key).map(|x| *x.key()) != ls.out.iter().find(|p| p.0 == o.key).map(|p| p.0) {
                    return Err(format!("find_adjacent({},{}) disagrees with the adjacency list", ls.key, o.key));
                }
            }
            Ok(())
        }
    };
}

macro_rules! hop_dispatch {
    (true, $st:ident, $ext:ident, $case:ident, $lines:ident, $ctx:ident, $hop:ident) => {{
        if $hop {
            // two helper threads take the requests in turn (request i runs on helper i % 2); the state sits behind a mutex
            // that is only ever taken by the thread whose turn it is
            let state = std::sync::Mutex::new((&mut $st, &mut $ext, &mut *$ctx));
            std::thread::scope(|s| {
                let (txa, rxa) = std::sync::mpsc::channel::<usize>();
                let (txb, rxb) = std::sync::mpsc::channel::<usize>();
                let (dtx, drx) = std::sync::mpsc::channel::<bool>();
                for rx in [rxa, rxb] {
                    let dtx = dtx.clone();
                    let state = &state;
                    s.spawn(move || {
                        while let Ok(i) = rx.recv() {
                            let mut g = state.lock().unwrap_or_else(|e| e.into_inner());
                            let (st, ext, ctx) = &mut *g;
                            let r = exec_lines(st, ext, $case, &$lines[i..i + 1], i, ctx);
                            drop(g);
                            let _ = dtx.send(r);
                        }
                    });
                }
                let mut ok = true;
                for i in 0..$lines.len() {
                    ok = if $lines[i].starts_with("conc ") {
                        let mut g = state.lock().unwrap_or_else(|e| e.into_inner());
                        let (st, ext, ctx) = &mut *g;
                        exec_lines(st, ext, $case, &$lines[i..i + 1], i, ctx)
                    } else {
                        let _ = (if i % 2 == 0 { &txa } else { &txb }).send(i);
                        drx.recv().unwrap_or(false)
                    };
                    if !ok {
                        break;
                    }
                }
                drop(txa);
                drop(txb);
                ok
            })
        } else {
            exec_lines(&mut $st, &mut $ext, $case, $lines, 0, $ctx)
        }
    }};
    (false, $st:ident, $ext:ident, $case:ident, $lines:ident, $ctx:ident, $hop:ident) => {{
        let _ = $hop;
        exec_lines(&mut $st, &mut $ext, $case, $lines, 0, $ctx)
    }};
}

macro_rules! flavour_mod {
    ($m:ident, $fl:ident, $kind:ident, $tag:tt) => {
        pub mod $m {
            #![allow(unused, clippy::all)]
            use super::*;
            use gdsl::error::Error;
            use gdsl::$fl::*;
            pub type N = Node<usize, i64, u32>;
            pub type G = Graph<usize, i64, u32>;
            kind_items!($kind);
            pub const SYNC: bool = $tag;

            pub struct St {
                pub nodes: Vec<N>,
                /// second node objects with an already used key (addressed as TWIN + key)
                pub twins: Vec<N>,
            }
            impl St {
                pub fn node(&self, k: usize) -> &N {
                    if k >= TWIN {
                        return self.twins.iter().find(|n| *n.key() == k - TWIN).expect("unknown twin in program");
                    }
                    self.nodes.iter().find(|n| *n.key() == k).expect("unknown key in program")
                }
                /// a handle of node `k` obtained the way `via` says (C03: handle independence)
                pub fn handle(&self, k: usize, via: &str) -> N {
                    let base = self.node(k);
                    match via {
                        "graph" => {
                            let mut g = G::new();
                            for n in &self.nodes {
                                g.insert(n.clone());
                            }
                            g.get(&k).unwrap()
                        }
                        "index" => {
                            let mut g = G::new();
                            for n in &self.nodes {
                                g.insert(n.clone());
                            }
                            g[k].clone()
                        }
                        "edge" => {
                            for n in &self.nodes {
                                for Edge(u, v, _) in n {
                                    if *v.key() == k {
                                        return v;
                                    }
                                    if *u.key() == k {
                                        return u;
                                    }
                                }
                            }
                            base.clone()
                        }
                        "result" => {
                            for n in &self.nodes {
                                if *n.key() != k {
                                    if let Some(x) = n.bfs().target(&k).search() {
                                        return x;
                                    }
                                    if let Some(x) = n.dfs().target(&k).search() {
                                        return x;
                                    }
                                }
                            }
                            base.clone()
                        }
                        _ => base.clone(),
                    }
                }
                pub fn lists(&self) -> Lists {
                    self.nodes
                        .iter()
                        .chain(self.twins.iter())
                        .map(|n| {
                            let (out, inn) = lists_of(n);
                            NodeLists { key: *n.key(), out, inn }
                        })
                        .collect()
                }
            }

            pub fn dump(st: &St) -> String {
                let v: Vec<String> = st
                    .lists()
                    .iter()
                    .map(|n| if DIRECTED { format!("{}:{}/{}", n.key, fmt_list(&n.out), fmt_list(&n.inn)) } else { format!("{}:{}", n.key, fmt_list(&n.out)) })
                    .collect();
                v.join(" ")
            }

            fn invariant_oracles(st: &St, ctx: &mut Ctx, case: &str, line: usize) {
                if !(ctx.has("mirror") || ctx.has("contract")) {
                    return;
                }
                let ls = st.lists();
                if ctx.has("mirror") {
                    let r = if DIRECTED { mirror(&ls) } else { symmetric(&ls) };
                    if let Err(msg) = r {
                        ctx.fail(case, line, if DIRECTED { "mirror" } else { "symmetry" }, msg);
                    }
                    for (n, l) in st.nodes.iter().zip(ls.iter()) {
                        if let Err(msg) = observers_agree(n, l, &ls) {
                            ctx.fail(case, line, "observers", msg);
                        }
                    }
                }
            }

            fn res_unit(r: Result<(), Error>) -> OpRes {
                match r {
                    Ok(()) => OpRes::Unit,
                    Err(Error::EdgeNotFound) => OpRes::NotFound,
                    Err(Error::EdgeAlreadyExists) => OpRes::Exists,
                }
            }
            fn res_val(r: Result<u32, Error>) -> OpRes {
                match r {
                    Ok(e) => OpRes::Val(e),
                    Err(Error::EdgeNotFound) => OpRes::NotFound,
                    Err(Error::EdgeAlreadyExists) => OpRes::Exists,
                }
            }
            pub fn show_res(r: &OpRes) -> String {
                match r {
                    OpRes::Unit => "ok".into(),
                    OpRes::Val(e) => format!("ok {e}"),
                    OpRes::NotFound => "err notfound".into(),
                    OpRes::Exists => "err exists".into(),
                    OpRes::Panic => "panic".into(),
                    OpRes::Deadlock => "deadlock".into(),
                }
            }

            fn edge_op(st: &St, op: &EdgeOp, via: &str) -> OpRes {
                match *op {
                    EdgeOp::Connect(u, v, e) => {
                        st.handle(u, via).connect(&st.handle(v, via), e);
                        OpRes::Unit
                    }
                    EdgeOp::TryConnect(u, v, e) => res_unit(st.handle(u, via).try_connect(&st.handle(v, via), e)),
                    EdgeOp::Disconnect(u, v) => res_val(st.handle(u, via).disconnect(&(v % TWIN))),
                    EdgeOp::Isolate(u) => {
                        st.handle(u, via).isolate();
                        OpRes::Unit
                    }
                }
            }

            /// executes the body of one case; returns false if the case was cut (panic/deadlock)
            pub fn exec_case(case: &str, lines: &[String], ctx: &mut Ctx) -> bool {
                let mut st = St { nodes: vec![], twins: vec![] };
                let mut ext = crate::exec_ext::$m::Ext::default();
                // `hop=1` in the case line (sync flavours): the requests run on two helper threads in turn, one after the other -
                // the objects move between threads sequentially, so nothing may depend on thread-local state
                // (every third case of a sync flavour, chosen by a hash of the case line, so that a replay hops exactly when the
                // original did; `hop=0` / `hop=1` force it)
                let hop = if case.split(' ').any(|t| t == "hop=0") {
                    false
                } else {
                    case.split(' ').any(|t| t == "hop=1") || case.bytes().fold(0xcbf29ce484222325u64, |h, b| (h ^ b as u64).wrapping_mul(0x100000001b3)) % 3 == 0
                };
                hop_dispatch!($tag, st, ext, case, lines, ctx, hop)
            }
            fn exec_lines(st: &mut St, ext: &mut crate::exec_ext::$m::Ext, case: &str, lines: &[String], base: usize, ctx: &mut Ctx) -> bool {
                let quiet_until: usize = case.split(' ').find_map(|t| t.strip_prefix("quiet=")).and_then(|x| x.parse().ok()).unwrap_or(0);
                for (k, raw) in lines.iter().enumerate() {
                    let li = base + k;
                    ctx.quiet = li < quiet_until;
                    // run-time annotations (`@order=...`, `@abs=...`) are regenerated on every execution
                    let clean: String = raw.split(' ').filter(|x| !x.starts_with('@')).collect::<Vec<_>>().join(" ");
                    ctx.forced_ids = raw.split(' ').find_map(|x| x.strip_prefix("@sched=")).map(|s| s.split(',').filter_map(|y| y.parse().ok()).collect()).unwrap_or_default();
                    let raw = &clean;
                    ext.annot = None;
                    let (body, via) = match raw.split_once(" #via=") {
                        Some((b, v)) => (b, v),
                        None => (raw.as_str(), "clone"),
                    };
                    ext.via = via.to_string();
                    let t: Vec<&str> = body.split(' ').collect();
                    let p = |i: usize| -> usize { t[i].parse::<usize>().expect("number in program") };
                    crate::hook::reset_thread();
                    let eop = match t[0] {
                        "connect" => Some(EdgeOp::Connect(p(1), p(2), p(3) as u32)),
                        "try_connect" => Some(EdgeOp::TryConnect(p(1), p(2), p(3) as u32)),
                        "disconnect" => Some(EdgeOp::Disconnect(p(1), p(2))),
                        "isolate" => Some(EdgeOp::Isolate(p(1))),
                        _ => None,
                    };
                    let out: Result<String, ()> = if let Some(op) = eop {
                        let before = if ctx.has("contract") { Some(st.lists()) } else { None };
                        let twin_before = if ctx.has("twincontract") && !st.twins.is_empty() { Some(st.lists()) } else { None };
                        if SYNC {
                            crate::hook::trace_start();
                        }
                        let r = catch_unwind(AssertUnwindSafe(|| edge_op(&st, &op, via)));
                        if SYNC {
                            // lock requests of this call, as `<W|R><node key|m>@<guards held>`; handle provenance may add
                            // its own (read-only) requests before the call proper, so only `clone` handles are traced
                            let ev = crate::hook::trace_take();
                            ext.last_lt = if via == "clone" {
                                Some(ev.iter().map(|(a, w, h)| format!("{}{}@{}", if *w { "W" } else { "R" }, ext.lockmap.iter().find(|x| x.0 == *a).map_or("m".to_string(), |x| x.1.to_string()), h)).collect::<Vec<_>>().join(","))
                            } else {
                                None
                            };
                        }
                        let r = match r {
                            Ok(r) => r,
                            Err(_) => {
                                if crate::hook::deadlocked() {
                                    OpRes::Deadlock
                                } else {
                                    OpRes::Panic
                                }
                            }
                        };
                                                ctx.count(&format!("op.{}.{}", t[0], match &r { OpRes::Unit | OpRes::Val(_) => "ok", OpRes::NotFound => "notfound", OpRes::Exists => "exists", OpRes::Panic => "panic", OpRes::Deadlock => "deadlock" }));
                        if let Some(tb) = twin_before {
                            // node objects are identified by their position in `lists()` (nodes, then twins)
                            let idx = |k: usize| -> usize {
                                if k >= TWIN { st.nodes.len() + st.twins.iter().position(|n| *n.key() == k - TWIN).unwrap() } else { st.nodes.iter().position(|n| *n.key() == k).unwrap() }
                            };
                            let chk = match (&op, &r) {
                                (EdgeOp::Connect(u, v, e), OpRes::Unit) => Some((idx(*u), idx(*v), *e, true)),
                                (EdgeOp::TryConnect(u, v, e), OpRes::Unit) => Some((idx(*u), idx(*v), *e, true)),
                                (EdgeOp::TryConnect(u, v, e), OpRes::Exists) => Some((idx(*u), idx(*v), *e, false)),
                                _ => None,
                            };
                            if matches!(r, OpRes::Panic | OpRes::Deadlock) {
                                ctx.fail(case, li, "twincontract", format!("{:?} -> {:?}", op, r));
                            } else if let Some((ui, vi, e, acc)) = chk {
                                if let Err(m) = twin_connect_contract(DIRECTED, &tb, &st.lists(), ui, vi, e, acc) {
                                    ctx.fail(case, li, "twincontract", m);
                                }
                            }
                        }
                        if let Some(before) = before {
                            if matches!(r, OpRes::Panic | OpRes::Deadlock) {
                                ctx.fail(case, li, "contract", format!("{:?} -> {:?}", op, r));
                            } else {
                                let after = st.lists();
                                if let Err(msg) = contract(DIRECTED, &op, &before, &after, &r) {
                                    ctx.fail(case, li, "contract", msg);
                                }
                            }
                        } else if matches!(r, OpRes::Panic | OpRes::Deadlock) && ctx.has("nopanic") {
                            ctx.fail(case, li, "nopanic", format!("{:?} -> {:?}", op, r));
                        }
                        if matches!(r, OpRes::Panic | OpRes::Deadlock) {
                            // the statement of C01/C02 also covers the state a caught panic leaves behind
                            let mut fails_here: Vec<(String, String)> = vec![];
                            if ctx.has("mirror") {
                                crate::hook::reset_thread();
                                let _ = catch_unwind(AssertUnwindSafe(|| {
                                    let ls = st.lists();
                                    if let Err(msg) = if DIRECTED { mirror(&ls) } else { symmetric(&ls) } {
                                        fails_here.push((if DIRECTED { "mirror".into() } else { "symmetry".into() }, format!("after the {} of `{}`: {}", show_res(&r), raw, msg)));
                                    }
                                }));
                            }
                            for (o, m) in fails_here {
                                ctx.fail(case, li, &o, m);
                            }
                            ctx.prog.push(raw.clone());
                            ctx.outs.push(show_res(&r));
                            return false;
                        }
                        invariant_oracles(&st, ctx, case, li);
                        Ok(show_res(&r))
                    } else {
                        let r = catch_unwind(AssertUnwindSafe(|| match t[0] {
                            "new" => {
                                if p(1) >= TWIN {
                                    st.twins.push(N::new(p(1) - TWIN, t[2].parse::<i64>().unwrap()));
                                    return "ok".to_string();
                                }
                                st.nodes.push(N::new(p(1), t[2].parse::<i64>().unwrap()));
                                if SYNC {
                                    // learn the address of this node's lock from one read request
                                    crate::hook::trace_start();
                                    let _ = st.nodes.last().unwrap().is_orphan();
                                    if let Some(first) = crate::hook::trace_take().first() {
                                        ext.lockmap.push((first.0, p(1)));
                                    }
                                }
                                "ok".to_string()
                            }
                            "dump" => dump(&st),
                            "obs" => obs(st.node(p(1))),
                            "q" => q(st.node(p(1)), p(2)),
                            _ => crate::exec_ext::$m::exec_line(&mut *st, &mut *ext, &t, raw, ctx, case, li),
                        }));
                        r.map_err(|_| ())
                    };
                    ctx.prog.push(match &ext.annot { Some(a) => format!("{raw} {a}"), None => raw.clone() });
                    match out {
                        Ok(o) => ctx.outs.push(o),
                        Err(()) => {
                            let dl = crate::hook::deadlocked();
                            ctx.outs.push(if dl { "deadlock".into() } else { "panic".into() });
                            // no request of any property may panic or self-deadlock, except indexing a container with an absent key
                            if !ctx.quiet && !ctx.oracles.is_empty() && !raw.starts_with("g.index") {
                                let o = ctx.oracles[0].clone();
                                ctx.fail(case, li, &o, format!("`{}` {}", raw, if dl { "deadlocked (a lock was requested while held by the same thread)" } else { "panicked" }));
                            }
                            return false;
                        }
                    }
                }
                true
            }
        }
    };
}

flavour_mod!(di, digraph, di, false);
flavour_mod!(sdi, sync_digraph, di, true);
flavour_mod!(un, ungraph, un, false);
flavour_mod!(sun, sync_ungraph, un, true);

/// runs a whole program (sequence of cases, each starting with `case <fl> <id>`)
pub fn run_program(lines: &[String], ctx: &mut Ctx) {
    let mut i = 0;
    while i < lines.len() {
        let head = &lines[i];
        let t: Vec<&str> = head.split(' ').collect();
        assert!(t[0] == "case", "program must start with a case line, got `{head}`");
        let mut j = i + 1;
        while j < lines.len() && !lines[j].starts_with("case ") {
            j += 1;
        }
        ctx.prog.push(head.clone());
        ctx.outs.push("case".into());
        let body = &lines[i + 1..j];
        let id = head.clone();
        inflight(head, body);
        match t[1] {
            "di" => di::exec_case(&id, body, ctx),
            "sdi" => sdi::exec_case(&id, body, ctx),
            "un" => un::exec_case(&id, body, ctx),
            "sun" => sun::exec_case(&id, body, ctx),
            "fdi" => { crate::exec_wk::fdi::exec_case(&id, body, ctx); true }
            "fun" => { crate::exec_wk::fun::exec_case(&id, body, ctx); true }
            "wdi" => { crate::exec_wk::wdi::exec_case(&id, body, ctx); true }
            "wsdi" => { crate::exec_wk::wsdi::exec_case(&id, body, ctx); true }
            "wun" => { crate::exec_wk::wun::exec_case(&id, body, ctx); true }
            "wsun" => { crate::exec_wk::wsun::exec_case(&id, body, ctx); true }
            "zdi" => { crate::exec_wk::zdi::exec_case(&id, body, ctx); true }
            "zsdi" => { crate::exec_wk::zsdi::exec_case(&id, body, ctx); true }
            "zun" => { crate::exec_wk::zun::exec_case(&id, body, ctx); true }
            "zsun" => { crate::exec_wk::zsun::exec_case(&id, body, ctx); true }
            x => panic!("unknown flavour {x}"),
        };
        i = j;
    }
    inflight_done();
}

//! C20: scripts of operations run from inside edge loops and traversal callbacks.
use crate::exec::is_directed;
use crate::gen_search::{graph_lines, GraphSpec};
use crate::rng::Rng;

/// the operation alphabet over `n` nodes (container 0 exists in every case)
pub fn op_alphabet(n: usize) -> Vec<String> {
    let mut a = vec![];
    for u in 0..n {
        for v in 0..n {
            a.push(format!("c.{u}.{v}.9"));
            a.push(format!("t.{u}.{v}.8"));
            a.push(format!("d.{u}.{v}"));
            a.push(format!("q.{u}.{v}"));
            a.push(format!("s.{u}.{v}"));
            a.push(format!("sd.{u}.{v}"));
            a.push(format!("sp.{u}.{v}"));
            a.push(format!("st.{u}.{v}"));
        }
        a.push(format!("x.{u}"));
        a.push(format!("so.{u}"));
        a.push(format!("gi.{u}"));
        a.push(format!("gr.{u}"));
    }
    a
}

pub fn loop_kinds(fl: &str) -> Vec<String> {
    let mut k = vec![];
    if is_directed(fl) {
        for it in ["out", "in"] {
            k.push(format!("iter {it}"));
        }
        for d in ["fwd", "tr"] {
            for s in ["bfs", "dfs", "pfs-min", "pfs-max"] {
                k.push(format!("search {s} {d}"));
            }
            for o in ["pre", "post"] {
                k.push(format!("order {o} {d}"));
            }
        }
    } else {
        k.push("iter adj".into());
        for s in ["bfs", "dfs", "pfs-min", "pfs-max"] {
            k.push(format!("search {s} fwd"));
        }
        for o in ["pre", "post"] {
            k.push(format!("order {o} fwd"));
        }
    }
    k
}

/// one case: fresh graph, container 0 with all nodes, the loop with its script, then everything is observed
pub fn live_case(fl: &str, id: &str, g: &GraphSpec, kind: &str, root: usize, target: Option<usize>, script: &str, filter: bool) -> Vec<String> {
    let mut l = vec![format!("case {fl} {id}")];
    l.extend(graph_lines(g));
    l.push("g.new 0".into());
    for k in 0..g.n {
        l.push(format!("g.insert 0 {k}"));
    }
    let t: Vec<&str> = kind.split(' ').collect();
    match t[0] {
        // (every other plain loop is driven by `for_each` instead of a `for` statement; scripts that keep adding edges
        // forever do not exist: `*k` entries stop after k steps)
        "iter" => l.push(format!("iter {} {root} {script}{}", t[1], match (root + script.len() + g.edges.len()) % 4 { 1 => " fold", 2 => " over", 3 => " fold over", _ => "" })),
        "search" => {
            let m = if filter { format!("filter:-@{script}") } else { format!("each@{script}") };
            let tg = target.map_or("-".to_string(), |x| x.to_string());
            let mode = if target.is_some() { "path" } else { "node" };
            l.push(format!("search {} {} {root} {tg} {m} {mode}", t[1], t[2]));
        }
        _ => {
            let m = if filter { format!("filter:-@{script}") } else { format!("each@{script}") };
            l.push(format!("order {} {} {root} {m} nodes", t[1], t[2]));
        }
    }
    l.push("dump".into());
    l.push("g.len 0".into());
    // handles obtained earlier stay valid: one more plain operation on every node
    for k in 0..g.n {
        l.push(format!("obs {k}"));
    }
    l
}

pub fn random_script(rng: &mut Rng, n: usize) -> String {
    let mut alpha = op_alphabet(n);
    // mutations the closure hands to another thread and waits for
    for u in 0..n {
        for v in 0..n {
            alpha.push(format!("hc.{u}.{v}.7"));
            alpha.push(format!("hd.{u}.{v}"));
        }
        alpha.push(format!("hx.{u}"));
    }
    let ents = 1 + rng.below(3);
    let mut s = vec![];
    for _ in 0..ents {
        let ops: Vec<String> = (0..1 + rng.below(2)).map(|_| alpha[rng.below(alpha.len())].clone()).collect();
        if rng.chance(25) {
            s.push(format!("*{}={}", 1 + rng.below(4), ops.join("/")));
        } else {
            s.push(format!("{}={}", rng.below(5), ops.join("/")));
        }
    }
    s.join(";")
}

//! Oracles for the traversal properties (C04-C10): the statements evaluated on the real
//! results against the graph read back through the public iterators. No Lean model involved.
use crate::exec_ext::{SearchOut, SearchSpec};
use crate::oracle::*;
use std::collections::{BTreeMap, BTreeSet, HashMap, HashSet, VecDeque};

type Tri = (usize, usize, u32);

pub struct View {
    /// the list a traversal of this configuration iterates for each node, as (node, peer, value)
    pub adj: BTreeMap<usize, Vec<Tri>>,
    pub rej: HashSet<Tri>,
}
impl View {
    pub fn new(directed: bool, ls: &Lists, tr: bool, rej: &[Tri]) -> View {
        let mut adj = BTreeMap::new();
        for n in ls {
            let l: Vec<Tri> = if directed && tr { n.inn.iter().map(|&(k, e)| (n.key, k, e)).collect() } else { n.out.iter().map(|&(k, e)| (n.key, k, e)).collect() };
            adj.insert(n.key, l);
        }
        View { adj, rej: rej.iter().cloned().collect() }
    }
    pub fn accepted(&self, u: usize) -> Vec<Tri> {
        self.adj.get(&u).map(|l| l.iter().cloned().filter(|t| !self.rej.contains(t)).collect()).unwrap_or_default()
    }
    /// nodes reachable from r through accepted edges (r included), with BFS distances
    pub fn dist(&self, r: usize) -> BTreeMap<usize, usize> {
        let mut d = BTreeMap::new();
        d.insert(r, 0);
        let mut q = VecDeque::from([r]);
        while let Some(u) = q.pop_front() {
            for (_, v, _) in self.accepted(u) {
                if !d.contains_key(&v) {
                    d.insert(v, d[&u] + 1);
                    q.push_back(v);
                }
            }
        }
        d
    }
    /// length of the shortest closed walk of >= 1 accepted edges through r
    pub fn cycle_len(&self, r: usize) -> Option<usize> {
        let mut best = None;
        for (_, v, _) in self.accepted(r) {
            if let Some(d) = self.dist(v).get(&r) {
                best = Some(best.map_or(d + 1, |b: usize| b.min(d + 1)));
            }
        }
        best
    }
    pub fn has_edge(&self, t: &Tri) -> bool {
        self.adj.get(&t.0).map_or(false, |l| l.contains(t))
    }
}

fn chain_ok(v: &View, path: &[Tri], from: usize, to: usize, out: &crate::exec_ext::SearchOut) -> Result<(), String> {
    let (nodes, len) = (out.path_nodes.as_slice(), out.path_len);
    if path.is_empty() {
        return Err("the returned path has no edge".into());
    }
    if path[0].0 != from {
        return Err(format!("path starts at {} instead of the root {}", path[0].0, from));
    }
    if path[path.len() - 1].1 != to {
        return Err(format!("path ends at {} instead of {}", path[path.len() - 1].1, to));
    }
    for w in path.windows(2) {
        if w[0].1 != w[1].0 {
            return Err(format!("edges {:?} and {:?} are not joined end to start", w[0], w[1]));
        }
    }
    for t in path {
        if !v.has_edge(t) {
            return Err(format!("edge {:?} of the result does not exist in the graph (wrong endpoint or value)", t));
        }
        if v.rej.contains(t) {
            return Err(format!("edge {:?} of the result was rejected by the filter", t));
        }
    }
    let mut expect = vec![path[0].0];
    expect.extend(path.iter().map(|t| t.1));
    if out.first_node != Some(from) {
        return Err(format!("Path::first_node() = {:?} but the path starts at the root {}", out.first_node, from));
    }
    if out.last_node != Some(to) {
        return Err(format!("Path::last_node() = {:?} but the path ends at {}", out.last_node, to));
    }
    if out.first_edge.as_ref() != path.first() || out.last_edge.as_ref() != path.last() {
        return Err(format!("first_edge() / last_edge() = {:?} / {:?} are not the first and last edge of {:?}", out.first_edge, out.last_edge, path));
    }
    if out.views != "ok" {
        return Err(format!("iter_edges / Index / iter_nodes disagree with to_vec_edges / to_vec_nodes: {}", out.views));
    }
    if nodes != expect.as_slice() {
        return Err(format!("to_vec_nodes {:?} does not list the endpoints of the path edges {:?}", nodes, expect));
    }
    if len != path.len() + 1 {
        return Err(format!("Path::len() = {} for {} edges", len, path.len()));
    }
    Ok(())
}

/// all (discovery, finishing) orders some depth-first traversal can produce; None if too many
fn all_dfs(v: &View, root: usize, cap: usize) -> Option<(HashSet<Vec<usize>>, HashSet<Vec<usize>>)> {
    // explicit state search over (stack, visited, pre, post)
    let mut pres = HashSet::new();
    let mut posts = HashSet::new();
    let mut work: Vec<(Vec<usize>, Vec<usize>, Vec<usize>)> = vec![(vec![root], vec![root], vec![])];
    let mut steps = 0usize;
    while let Some((stack, pre, post)) = work.pop() {
        steps += 1;
        if steps > cap {
            return None;
        }
        match stack.last() {
            None => {
                pres.insert(pre);
                posts.insert(post);
            }
            Some(&u) => {
                let mut nexts: Vec<usize> = v.accepted(u).iter().map(|t| t.1).filter(|x| !pre.contains(x)).collect();
                nexts.sort();
                nexts.dedup();
                if nexts.is_empty() {
                    let mut s = stack.clone();
                    s.pop();
                    let mut p = post.clone();
                    p.push(u);
                    work.push((s, pre, p));
                } else {
                    for x in nexts {
                        let mut s = stack.clone();
                        s.push(x);
                        let mut p = pre.clone();
                        p.push(x);
                        work.push((s, p, post.clone()));
                    }
                }
            }
        }
    }
    Some((pres, posts))
}

/// exact at any size: is `seq` the discovery order of some DFS from root
fn pre_is_dfs(v: &View, root: usize, seq: &[usize]) -> Result<(), String> {
    if seq.first() != Some(&root) {
        return Err(format!("preorder does not start with the root {root}: {:?}", seq));
    }
    let mut visited: HashSet<usize> = HashSet::from([root]);
    let mut stack = vec![root];
    for &x in &seq[1..] {
        loop {
            let Some(&top) = stack.last() else {
                return Err(format!("no depth-first traversal discovers {x} at this point of {:?}", seq));
            };
            let nb: Vec<usize> = v.accepted(top).iter().map(|t| t.1).collect();
            if nb.contains(&x) && !visited.contains(&x) {
                break;
            }
            if nb.iter().any(|y| !visited.contains(y)) {
                return Err(format!("a depth-first traversal at {top} must first descend into an unvisited neighbour, but {x} comes next in {:?}", seq));
            }
            stack.pop();
        }
        if !visited.insert(x) {
            return Err(format!("{x} occurs twice in {:?}", seq));
        }
        stack.push(x);
    }
    Ok(())
}

pub fn check(directed: bool, ls: &Lists, vals: &[(usize, i64)], spec: &SearchSpec, out: &SearchOut, oracles: &[String]) -> Vec<(String, String)> {
    let mut fails = vec![];
    let has = |o: &str| oracles.iter().any(|x| x == o);
    let tr = directed && spec.tr;
    let rej: Vec<Tri> = if spec.method == "filter" { spec.rej.clone() } else { vec![] };
    let v = View::new(directed, ls, tr, &rej);
    let root = spec.root;
    let dist = v.dist(root);
    let is_search = matches!(spec.kind.as_str(), "bfs" | "dfs" | "pfs-min" | "pfs-max");
    let prop_of_kind = match spec.kind.as_str() {
        "bfs" => "c04",
        "dfs" => "c05",
        "pfs-min" | "pfs-max" => "c06",
        _ => "c10",
    };
    // ---- C04 / C05 / C06 (path part): target other than the root
    let c07_filter = has("c07") && spec.method == "filter";
    if is_search && spec.mode != "cycle" && (has(prop_of_kind) || has("c08") || c07_filter) {
        let name = if has(prop_of_kind) { prop_of_kind } else if has("c08") { "c08" } else { "c07" };
        if let Some(t) = spec.target {
            if t != root {
                let reachable = dist.contains_key(&t);
                match spec.mode.as_str() {
                    "node" => {
                        if reachable && out.node != Some(t) {
                            fails.push((name.into(), format!("{} search: target {t} is reachable from {root} but search() returned {:?}", spec.kind, out.node)));
                        }
                        if !reachable && out.node.is_some() {
                            fails.push((name.into(), format!("{} search: target {t} is not reachable from {root} but search() returned {:?}", spec.kind, out.node)));
                        }
                    }
                    _ => match &out.path {
                        None => {
                            if reachable {
                                fails.push((name.into(), format!("{} search_path: target {t} is reachable from {root} (distance {}) but no path was returned", spec.kind, dist[&t])));
                            }
                        }
                        Some(p) => {
                            if !reachable {
                                fails.push((name.into(), format!("{} search_path: target {t} is not reachable from {root} but a path {:?} was returned", spec.kind, p)));
                            } else if let Err(m) = chain_ok(&v, p, root, t, out) {
                                fails.push((name.into(), format!("{} search_path {root}->{t}: {m}", spec.kind)));
                            } else {
                                if spec.kind == "bfs" && p.len() != dist[&t] {
                                    fails.push((name.into(), format!("bfs search_path {root}->{t}: path has {} edges but a path with {} edges exists", p.len(), dist[&t])));
                                }
                                if spec.kind == "dfs" {
                                    let mut seen = HashSet::new();
                                    if !out.path_nodes.iter().all(|x| seen.insert(*x)) {
                                        fails.push((name.into(), format!("dfs search_path {root}->{t}: path {:?} visits a node twice", out.path_nodes)));
                                    }
                                }
                            }
                        }
                    },
                }
            }
        }
    }
    // ---- C06: expansion discipline, from the callback trace
    if (has("c06") || has("c08")) && spec.kind.starts_with("pfs") && spec.method != "none" {
        let name = if has("c06") { "c06" } else { "c08" };
        let val = |k: usize| vals.iter().find(|x| x.0 == k).map(|x| x.1).unwrap_or(0);
        let min = spec.kind == "pfs-min";
        let mut discovered: Vec<usize> = vec![root];
        let mut expanded: Vec<usize> = vec![];
        let mut cur: Option<usize> = None;
        for t in &out.trace {
            if cur != Some(t.0) {
                // a new node starts expanding
                cur = Some(t.0);
                let pending: Vec<usize> = discovered.iter().cloned().filter(|x| *x != t.0 && !expanded.contains(x) && !v.adj.get(x).map_or(true, |l| l.is_empty())).collect();
                for p in pending {
                    if (min && val(p) < val(t.0)) || (!min && val(p) > val(t.0)) {
                        fails.push((name.into(), format!("{}: node {} (value {}) starts expanding while discovered node {} (value {}) with edges is still pending; trace {:?}", spec.kind, t.0, val(t.0), p, val(p), out.trace)));
                        break;
                    }
                }
                if !discovered.contains(&t.0) {
                    fails.push((name.into(), format!("{}: node {} is expanded although it was never discovered", spec.kind, t.0)));
                }
                expanded.push(t.0);
            }
            if !v.rej.contains(t) && !discovered.contains(&t.1) {
                discovered.push(t.1);
            }
        }
    }
    // ---- C07: callbacks see every edge of every reachable node exactly once (no target)
    if has("c07") && spec.method == "each" && spec.target.is_none() && spec.mode != "cycle" {
        let mut expect: Vec<Tri> = dist.keys().flat_map(|u| v.adj.get(u).cloned().unwrap_or_default()).collect();
        let mut got = out.trace.clone();
        expect.sort();
        got.sort();
        if expect != got {
            fails.push(("c07".into(), format!("{} {} from {root}: for_each saw {:?} but the edges leaving reachable nodes are {:?}", spec.kind, spec.mode, got, expect)));
        }
    }
    // ---- C07 (filter part): rejected edges never appear; results live in the accepted graph
    if (has("c07") || has("c07f")) && spec.method == "filter" {
        let mut res: Vec<Tri> = out.path.clone().unwrap_or_default();
        res.extend(out.list_edges.iter().cloned());
        for t in &res {
            if v.rej.contains(t) {
                fails.push(("c07".into(), format!("{} {}: rejected edge {:?} appears in the result {:?}", spec.kind, spec.mode, t, res)));
            }
        }
        if spec.mode == "nodes" {
            let mut got = out.list_nodes.clone();
            got.sort();
            let expect: Vec<usize> = dist.keys().cloned().collect();
            if got != expect {
                fails.push(("c07".into(), format!("{} ordering from {root} with a filter lists {:?} but the accepted edges reach {:?}", spec.kind, got, expect)));
            }
        }
    }
    // every traced edge carries true endpoints and value (C07), reversed for transpose (C08)
    if (has("c07") || has("c08")) && spec.method != "none" {
        for t in &out.trace {
            if !v.has_edge(t) {
                fails.push((if has("c07") { "c07" } else { "c08" }.into(), format!("{} {}: the closure was handed {:?}, which is not an edge of the traversed graph", spec.kind, spec.mode, t)));
                break;
            }
        }
    }
    // C08: a transposed run reports stored edges: Edge(v, u, e) must be an entry (v, e) of u's OUTGOING list
    if has("c08") && tr {
        let stored = |x: &Tri| ls.iter().find(|n| n.key == x.1).map_or(false, |n| n.out.contains(&(x.0, x.2)));
        let reported = out.trace.iter().chain(out.path.iter().flatten()).chain(out.list_edges.iter());
        for t in reported {
            if !stored(t) {
                fails.push(("c08".into(), format!("{} {} transposed: reports Edge({}, {}, {}) but node {} stores no outgoing edge to {} with value {}", spec.kind, spec.mode, t.0, t.1, t.2, t.1, t.0, t.2)));
                break;
            }
        }
    }
    // ---- C09: cycles
    if (has("c09") || has("c08") || c07_filter) && is_search && spec.mode == "cycle" {
        let name = if has("c09") { "c09" } else if has("c08") { "c08" } else { "c07" };
        let cl = v.cycle_len(root);
        match (&out.path, cl) {
            (None, Some(n)) => fails.push((name.into(), format!("{} search_cycle from {root}: a closed walk of {n} accepted edge(s) exists but None was returned", spec.kind))),
            (Some(p), None) => fails.push((name.into(), format!("{} search_cycle from {root}: no way back to the root exists but {:?} was returned", spec.kind, p))),
            (Some(p), Some(n)) => {
                if let Err(m) = chain_ok(&v, p, root, root, out) {
                    fails.push((name.into(), format!("{} search_cycle from {root}: {m}", spec.kind)));
                } else if directed {
                    let inner: Vec<usize> = p.iter().skip(1).map(|t| t.0).collect();
                    let mut seen = HashSet::new();
                    if inner.contains(&root) || !inner.iter().all(|x| seen.insert(*x)) {
                        fails.push((name.into(), format!("{} search_cycle from {root}: {:?} uses an intermediate node twice", spec.kind, p)));
                    }
                    // no edge (position) twice: a triple may repeat only as often as it exists
                    let mut cnt: HashMap<Tri, usize> = HashMap::new();
                    for t in p {
                        *cnt.entry(*t).or_insert(0) += 1;
                    }
                    for (t, c) in cnt {
                        let avail = v.adj[&t.0].iter().filter(|x| **x == t).count();
                        if c > avail {
                            fails.push((name.into(), format!("{} search_cycle from {root}: edge {:?} is used {c} times but exists {avail} time(s); result {:?}", spec.kind, t, p)));
                        }
                    }
                    if spec.kind == "bfs" && p.len() != n {
                        fails.push((name.into(), format!("bfs search_cycle from {root}: {} edges but a cycle with {n} exists", p.len())));
                    }
                }
            }
            (None, None) => {}
        }
    }
    // ---- C10: orderings
    if (has("c10") || has("c08")) && !is_search {
        let name = if has("c10") { "c10" } else { "c08" };
        let post = spec.kind == "post";
        let reach: BTreeSet<usize> = dist.keys().cloned().collect();
        if spec.mode == "nodes" {
            let seq = &out.list_nodes;
            let set: BTreeSet<usize> = seq.iter().cloned().collect();
            if set != reach || seq.len() != reach.len() {
                fails.push((name.into(), format!("{}order from {root} returned {:?}; the reachable nodes are {:?} (each exactly once)", spec.kind, seq, reach)));
            } else if !post {
                if let Err(m) = pre_is_dfs(&v, root, seq) {
                    fails.push((name.into(), m));
                }
            } else {
                if seq.last() != Some(&root) {
                    fails.push((name.into(), format!("postorder from {root} does not end with the root: {:?}", seq)));
                }
                let pos: HashMap<usize, usize> = seq.iter().enumerate().map(|(i, k)| (*k, i)).collect();
                'outer: for &u in seq {
                    for (_, w, _) in v.accepted(u) {
                        if u != w && pos[&w] > pos[&u] && !v.dist(w).contains_key(&u) {
                            fails.push((name.into(), format!("postorder {:?}: edge {u}->{w} but {w} comes after {u} and {u} is not reachable from {w}", seq)));
                            break 'outer;
                        }
                    }
                }
                if reach.len() <= 6 {
                    if let Some((_, posts)) = all_dfs(&v, root, 200_000) {
                        if !posts.contains(seq) {
                            fails.push((name.into(), format!("postorder from {root} returned {:?}, which is not the finishing order of any depth-first traversal", seq)));
                        }
                    }
                }
            }
        } else {
            let es = &out.list_edges;
            let targets: Vec<usize> = es.iter().map(|t| t.1).collect();
            let tset: BTreeSet<usize> = targets.iter().cloned().collect();
            let mut expect = reach.clone();
            expect.remove(&root);
            if tset != expect || targets.len() != expect.len() {
                fails.push((name.into(), format!("{}order search_edges from {root}: edges {:?} do not enter each reachable non-root node {:?} exactly once", spec.kind, es, expect)));
            }
            for t in es {
                if !v.has_edge(t) || v.rej.contains(t) {
                    fails.push((name.into(), format!("{}order search_edges from {root}: {:?} is not an existing accepted edge", spec.kind, t)));
                    break;
                }
            }
            // the edge order corresponds to the node order
            let mut seq: Vec<usize> = targets.clone();
            if post {
                seq.push(root);
                if reach.len() <= 6 && tset == expect && targets.len() == expect.len() {
                    if let Some((_, posts)) = all_dfs(&v, root, 200_000) {
                        if !posts.contains(&seq) {
                            fails.push((name.into(), format!("postorder search_edges from {root}: targets {:?} are not in a depth-first finishing order", targets)));
                        }
                    }
                }
            } else {
                seq.insert(0, root);
                if tset == expect && targets.len() == expect.len() {
                    if let Err(m) = pre_is_dfs(&v, root, &seq) {
                        fails.push((name.into(), format!("preorder search_edges: {m}")));
                    }
                }
            }
        }
    }
    fails
}

//! C19: ownership. Node values are drop-counting payloads; slots hold exactly one owning object each
//! (a node handle, an Edge, a Graph, or an opaque search result kept inside a closure).
use crate::exec::{fmt_keys, Ctx};
use std::sync::{Arc, Mutex};

pub type Log = Arc<Mutex<Vec<(usize, bool)>>>;
pub struct DropVal {
    pub id: usize,
    pub original: bool,
    pub log: Log,
}
impl Clone for DropVal {
    fn clone(&self) -> Self {
        DropVal { id: self.id, original: false, log: self.log.clone() }
    }
}
impl Drop for DropVal {
    fn drop(&mut self) {
        if let Ok(mut l) = self.log.lock() {
            l.push((self.id, self.original));
        }
    }
}

macro_rules! own_kind {
    (di) => {
        fn order_nodes(n: &N) -> Vec<N> {
            n.preorder().search_nodes()
        }
        fn post_nodes(n: &N) -> Vec<N> {
            n.postorder().search_nodes()
        }
        fn degs(n: &N) -> String {
            format!("deg={}/{}", n.out_degree(), n.in_degree())
        }
        fn find_nb(n: &N, k: &usize) -> Option<N> {
            n.find_outbound(k)
        }
        /// a traversal of the given kind from `n` whose closure is `f` (own.walk)
        fn walk(n: &N, kind: &str, f: &mut dyn FnMut(&Edge<usize, DropVal, u32>)) {
            let mut ff = |e: &Edge<usize, DropVal, u32>| -> bool {
                f(e);
                true
            };
            match kind {
                "bfs" => drop(n.bfs().for_each(f).search()),
                "dfs" => drop(n.dfs().for_each(f).search()),
                "bfsp" => drop(n.bfs().for_each(f).search_path()),
                "dfsp" => drop(n.dfs().for_each(f).search_path()),
                "bfsT" => drop(n.bfs().transpose().for_each(f).search()),
                "dfsT" => drop(n.dfs().transpose().for_each(f).search()),
                "fbfs" => drop(n.bfs().filter(&mut ff).search()),
                "fdfs" => drop(n.dfs().filter(&mut ff).search()),
                "pre" => drop(n.preorder().for_each(f).search_nodes()),
                "preT" => drop(n.preorder().transpose().for_each(f).search_nodes()),
                _ => drop(n.postorder().for_each(f).search_nodes()),
            }
        }
        fn queries(a: &N, b: &N) {
            let _ = (a.is_connected(b.key()), a.find_outbound(b.key()).is_some(), a.find_inbound(b.key()).is_some(), b.find_inbound(a.key()).is_some(),
                     a.out_degree(), a.in_degree(), a.is_root(), a.is_leaf(), a.is_orphan(), a.iter_out().count(), a.iter_in().count());
        }
    };
    (un) => {
        fn order_nodes(n: &N) -> Vec<N> {
            n.order().pre().search_nodes()
        }
        fn post_nodes(n: &N) -> Vec<N> {
            n.order().post().search_nodes()
        }
        fn degs(n: &N) -> String {
            format!("deg={}", n.degree())
        }
        fn find_nb(n: &N, k: &usize) -> Option<N> {
            n.find_adjacent(k)
        }
        fn walk(n: &N, kind: &str, f: &mut dyn FnMut(&Edge<usize, DropVal, u32>)) {
            let mut ff = |e: &Edge<usize, DropVal, u32>| -> bool {
                f(e);
                true
            };
            match kind {
                "bfs" | "bfsT" => drop(n.bfs().for_each(f).search()),
                "dfs" | "dfsT" => drop(n.dfs().for_each(f).search()),
                "bfsp" => drop(n.bfs().for_each(f).search_path()),
                "dfsp" => drop(n.dfs().for_each(f).search_path()),
                "fbfs" => drop(n.bfs().filter(&mut ff).search()),
                "fdfs" => drop(n.dfs().filter(&mut ff).search()),
                "pre" | "preT" => drop(n.order().pre().for_each(f).search_nodes()),
                _ => drop(n.order().post().for_each(f).search_nodes()),
            }
        }
        fn queries(a: &N, b: &N) {
            let _ = (a.is_connected(b.key()), b.is_connected(a.key()), a.find_adjacent(b.key()).is_some(), b.find_adjacent(a.key()).is_some(),
                     a.degree(), a.is_orphan(), a.iter().count());
        }
    };
}

macro_rules! own_mod {
    ($m:ident, $fl:ident, $kind:ident) => {
        pub mod $m {
            #![allow(unused, clippy::all)]
            use super::*;
            use gdsl::$fl::*;
            pub type N = Node<usize, DropVal, u32>;
            pub type G = Graph<usize, DropVal, u32>;
            own_kind!($kind);
            pub enum Slot {
                Empty,
                Node(N),
                Graph(G),
                Edge(Edge<usize, DropVal, u32>),
                /// a search result (Path, node list) owned by a closure that reports the keys it can still reach and use
                Opaque(Box<dyn Fn() -> Vec<usize>>),
            }
            impl Slot {
                /// keys of the nodes this slot's object owns, obtained by *using* them (key() and value())
                pub fn held(&self) -> Vec<usize> {
                    let chk = |n: &N| -> usize {
                        assert!(n.value().id % 1000 == *n.key(), "node value does not belong to its node");
                        n.value().id
                    };
                    match self {
                        Slot::Empty => vec![],
                        Slot::Node(n) => vec![chk(n)],
                        Slot::Graph(g) => g.iter().map(|(_, n)| chk(n)).collect(),
                        Slot::Edge(e) => vec![chk(&e.0), chk(&e.1)],
                        Slot::Opaque(f) => f(),
                    }
                }
            }
            fn node_of(slots: &[Slot], i: usize) -> Option<N> {
                match slots.get(i) {
                    Some(Slot::Node(n)) => Some(n.clone()),
                    _ => None,
                }
            }
            pub fn exec_case(case: &str, lines: &[String], ctx: &mut Ctx) {
                let log: Log = Arc::new(Mutex::new(vec![]));
                let mut slots: Vec<Slot> = vec![];
                let mut created: Vec<usize> = vec![];
                for (li, raw) in lines.iter().enumerate() {
                    let t: Vec<&str> = raw.split(' ').collect();
                    let p = |j: usize| -> usize { t[j].parse::<usize>().unwrap() };
                    let set = |slots: &mut Vec<Slot>, i: usize, s: Slot| {
                        while slots.len() <= i {
                            slots.push(Slot::Empty);
                        }
                        slots[i] = s;
                    };
                    let mut dup_result: Option<(usize, usize, bool)> = None;
                    let mut take_check: Option<(usize, Option<String>, Option<String>)> = None;
                    let mut drop_check: Option<String> = None;
                    let r = std::panic::catch_unwind(std::panic::AssertUnwindSafe(|| -> Option<String> {
                        match t[0] {
                            "own.new" => {
                                created.push(p(2));
                                set(&mut slots, p(1), Slot::Node(N::new(p(2), DropVal { id: p(2), original: true, log: log.clone() })));
                            }
                            "own.clone" => {
                                let c = match slots.get(p(1)) {
                                    Some(Slot::Node(n)) => Slot::Node(n.clone()),
                                    Some(Slot::Edge(e)) => Slot::Edge(e.clone()),
                                    Some(Slot::Empty) | None => Slot::Empty,
                                    _ => return Some("skip".into()),
                                };
                                set(&mut slots, p(2), c);
                            }
                            "own.drop" => {
                                // a container that goes away changes none of its members: their edges are what they were
                                let before: Vec<(usize, String)> = match slots.get(p(1)) {
                                    Some(Slot::Graph(g)) => g.iter().map(|(k, n)| (*k, degs(n))).collect(),
                                    _ => vec![],
                                };
                                set(&mut slots, p(1), Slot::Empty);
                                for (k, d) in before {
                                    for s in slots.iter() {
                                        let now = match s {
                                            Slot::Graph(g) => g.get(&k).map(|n| degs(&n)),
                                            Slot::Node(n) if *n.key() == k => Some(degs(n)),
                                            _ => None,
                                        };
                                        if let Some(now) = now {
                                            if now != d && drop_check.is_none() {
                                                drop_check = Some(format!("node {k} had {d} while it was a member of the container that was just dropped and has {now} afterwards, seen through another owner: dropping a container must not touch its members"));
                                            }
                                        }
                                    }
                                }
                            }
                            "own.connect" => {
                                let (a, b) = (node_of(&slots, p(1))?, node_of(&slots, p(2))?);
                                a.connect(&b, p(3) as u32);
                                return Some("same".into());
                            }
                            "own.graph" => set(&mut slots, p(1), Slot::Graph(G::new())),
                            "own.insert" => {
                                let a = node_of(&slots, p(2))?;
                                if !matches!(slots.get(p(1)), Some(Slot::Graph(_))) {
                                    // (a shrunk program may have lost its `own.graph` line: the slot then starts as an empty container)
                                    set(&mut slots, p(1), Slot::Graph(G::new()));
                                }
                                if let Some(Slot::Graph(g)) = slots.get_mut(p(1)) {
                                    g.insert(a);
                                }
                            }
                            "own.dup" => {
                                // own.dup g k tmp : insert a *different* node with the present key k; it must be refused,
                                // the original kept and the refused node released
                                let k = p(2);
                                let present = matches!(slots.get(p(1)), Some(Slot::Graph(g)) if g.contains(&k));
                                if !present {
                                    return Some("skip".into());
                                }
                                let id = p(4);
                                created.push(id);
                                let dup = N::new(k, DropVal { id, original: true, log: log.clone() });
                                let r = match slots.get_mut(p(1)) {
                                    Some(Slot::Graph(g)) => g.insert(dup),
                                    _ => false,
                                };
                                dup_result = Some((k, id, r));
                            }
                            "own.remove" => {
                                if let Some(Slot::Graph(g)) = slots.get_mut(p(1)) {
                                    drop(g.remove(&p(2)));
                                }
                            }
                            "own.take" => {
                                // remove from the container and keep what it returns: the container may have been the only owner
                                let before = match slots.get(p(1)) {
                                    Some(Slot::Graph(g)) => g.get(&p(2)).map(|n| degs(&n)), // temporary handle, gone again
                                    _ => None,
                                };
                                let r = match slots.get_mut(p(1)) {
                                    Some(Slot::Graph(g)) => g.remove(&p(2)),
                                    _ => None,
                                };
                                take_check = Some((p(2), before, r.as_ref().map(degs)));
                                set(&mut slots, p(3), r.map_or(Slot::Empty, Slot::Node));
                            }
                            "own.deg" => {
                                return Some(match slots.get(p(1)) {
                                    Some(Slot::Node(n)) => degs(n),
                                    _ => "deg=-".into(),
                                });
                            }
                            "own.get" => {
                                let r = match slots.get(p(1)) {
                                    Some(Slot::Graph(g)) => g.get(&p(2)),
                                    _ => None,
                                };
                                set(&mut slots, p(3), r.map_or(Slot::Empty, Slot::Node));
                            }
                            "own.edge" => {
                                let a = node_of(&slots, p(1))?;
                                let e = (&a).into_iter().next();
                                drop(a);
                                set(&mut slots, p(2), e.map_or(Slot::Empty, Slot::Edge));
                            }
                            "own.path" => {
                                let a = node_of(&slots, p(1))?;
                                let tk = p(2);
                                let path = a.bfs().target(&tk).search_path();
                                drop(a);
                                let s = match path {
                                    None => Slot::Empty,
                                    Some(path) => Slot::Opaque(Box::new(move || {
                                        let mut ks = vec![];
                                        for Edge(u, v, _) in path.iter_edges() {
                                            assert!(u.value().id % 1000 == *u.key() && v.value().id % 1000 == *v.key());
                                            ks.push(u.value().id);
                                            ks.push(v.value().id);
                                        }
                                        ks
                                    })),
                                };
                                set(&mut slots, p(3), s);
                            }
                            "own.search" => {
                                let a = node_of(&slots, p(1))?;
                                let tk = p(2);
                                let r = a.dfs().target(&tk).search();
                                drop(a);
                                set(&mut slots, p(3), r.map_or(Slot::Empty, Slot::Node));
                            }
                            "own.order" => {
                                let a = node_of(&slots, p(1))?;
                                let ns = order_nodes(&a);
                                drop(a);
                                set(&mut slots, p(2), Slot::Opaque(Box::new(move || ns.iter().map(|n| { assert!(n.value().id % 1000 == *n.key()); n.value().id }).collect())));
                            }
                            "own.post" => {
                                let a = node_of(&slots, p(1))?;
                                let ns = post_nodes(&a);
                                drop(a);
                                set(&mut slots, p(2), Slot::Opaque(Box::new(move || ns.iter().map(|n| { assert!(n.value().id % 1000 == *n.key()); n.value().id }).collect())));
                            }
                            "own.try" => {
                                let (a, b) = (node_of(&slots, p(1))?, node_of(&slots, p(2))?);
                                let _ = a.try_connect(&b, p(3) as u32);
                                return Some("same".into());
                            }
                            "own.disc" => {
                                let (a, b) = (node_of(&slots, p(1))?, node_of(&slots, p(2))?);
                                let _ = a.disconnect(b.key());
                                return Some("same".into());
                            }
                            "own.iso" => {
                                let a = node_of(&slots, p(1))?;
                                a.isolate();
                                return Some("same".into());
                            }
                            "own.q" => {
                                let (a, b) = (node_of(&slots, p(1))?, node_of(&slots, p(2))?);
                                queries(&a, &b);
                                return Some("same".into());
                            }
                            "own.find" => {
                                let a = node_of(&slots, p(1))?;
                                let r = find_nb(&a, &p(2));
                                drop(a);
                                set(&mut slots, p(3), r.map_or(Slot::Empty, Slot::Node));
                            }
                            "own.pathk" => {
                                // own.pathk <bfs|dfs> <path|cycle> a t d
                                let a = node_of(&slots, p(3))?;
                                let tk = p(4);
                                let path = match (t[1], t[2]) {
                                    ("bfs", "path") => a.bfs().target(&tk).search_path(),
                                    ("dfs", "path") => a.dfs().target(&tk).search_path(),
                                    ("bfs", _) => a.bfs().search_cycle(),
                                    _ => a.dfs().search_cycle(),
                                };
                                drop(a);
                                let s = match path {
                                    None => Slot::Empty,
                                    Some(path) => Slot::Opaque(Box::new(move || {
                                        let mut ks = vec![];
                                        for Edge(u, v, _) in path.iter_edges() {
                                            assert!(u.value().id % 1000 == *u.key() && v.value().id % 1000 == *v.key());
                                            ks.push(u.value().id);
                                            ks.push(v.value().id);
                                        }
                                        ks
                                    })),
                                };
                                set(&mut slots, p(5), s);
                            }
                            "own.walk" => {
                                // own.walk <kind> a n g x : a traversal from the node in slot a; on the n-th call of its closure
                                // (or right after the traversal, if it is never called that often) the member x is taken out of
                                // container g, isolated and dropped - the container may have been its only owner
                                let a = node_of(&slots, p(2))?;
                                let (nth, gi, x) = (p(3), p(4), p(5));
                                let cell = std::cell::RefCell::new(std::mem::take(&mut slots));
                                let calls = std::cell::Cell::new(0usize);
                                let fired = std::cell::Cell::new(false);
                                let act = || {
                                    fired.set(true);
                                    let taken = match cell.borrow_mut().get_mut(gi) {
                                        Some(Slot::Graph(g)) => g.remove(&x),
                                        _ => None,
                                    };
                                    if let Some(nx) = taken {
                                        nx.isolate();
                                        drop(nx);
                                    }
                                };
                                let mut f = |_e: &Edge<usize, DropVal, u32>| {
                                    if calls.get() == nth && !fired.get() {
                                        act();
                                    }
                                    calls.set(calls.get() + 1);
                                };
                                walk(&a, t[1], &mut f);
                                drop(a);
                                if !fired.get() {
                                    act();
                                }
                                slots = cell.into_inner();
                            }
                            "own.held" => {
                                let mut h = slots.get(p(1)).map_or(vec![], |s| s.held());
                                h.sort();
                                h.dedup();
                                return Some(format!("held={}", fmt_keys(&h)));
                            }
                            _ => return Some("bad-op".into()),
                        }
                        None
                    }));
                    let released: Vec<(usize, bool)> = log.lock().unwrap().clone();
                    let mut orig: Vec<usize> = released.iter().filter(|x| x.1).map(|x| x.0).collect();
                    // ---- oracle (C18): remove hands out the inserted node itself, edges and all
                    if let Some((k, before, after)) = take_check {
                        if before != after {
                            let o = if ctx.has("c18") { "c18" } else { "c19" };
                            if ctx.has(o) {
                                ctx.fail(case, li, o, format!("Graph::remove({k}) returned a node with {:?} although the member had {:?} just before: remove must hand out the inserted node itself", after, before));
                            }
                        }
                    }
                    if let Some(m) = drop_check {
                        let o = if ctx.has("c18") { "c18" } else { "c19" };
                        if ctx.has(o) {
                            ctx.fail(case, li, o, m);
                        }
                    }
                    // ---- oracle (C19)
                    if ctx.has("c19") {
                        let mut sorted = orig.clone();
                        sorted.sort();
                        let n0 = sorted.len();
                        sorted.dedup();
                        if sorted.len() != n0 {
                            ctx.fail(case, li, "c19", format!("a node value was released more than once: {:?}", orig));
                        }
                        let held: Vec<usize> = slots.iter().flat_map(|s| std::panic::catch_unwind(std::panic::AssertUnwindSafe(|| s.held())).unwrap_or_default()).collect();
                        for k in &held {
                            if sorted.contains(k) {
                                ctx.fail(case, li, "c19", format!("the value of node {k} was released while a handle to it is still held (after `{raw}`)"));
                            }
                        }
                        if let Some((k, id, r)) = dup_result {
                            if r || !sorted.contains(&id) || sorted.contains(&k) {
                                ctx.fail(case, li, "c19", format!("insert of a second node with the present key {k} returned {r}; released values {:?}: the refused node must be released and the original (held by the container) must not", sorted));
                            }
                        }
                        for k in &created {
                            if !held.contains(k) && !sorted.contains(k) {
                                ctx.fail(case, li, "c19", format!("no handle to node {k} is left but its value has not been released (after `{raw}`)"));
                            }
                        }
                    }
                    orig.sort();
                    ctx.prog.push(raw.clone());
                    match r {
                        Err(_) => {
                            ctx.outs.push("panic".into());
                            if !ctx.quiet && !ctx.oracles.is_empty() {
                                let o = ctx.oracles[0].clone();
                                ctx.fail(case, li, &o, format!("`{raw}` panicked"));
                            }
                            return;
                        }
                        Ok(Some(s)) if s == "same" => ctx.outs.push(format!("rel={}", fmt_keys(&orig))),
                        Ok(Some(s)) => ctx.outs.push(s),
                        Ok(None) => ctx.outs.push(format!("rel={}", fmt_keys(&orig))),
                    }
                }
                // end of case: the harness lets go of everything; every created value must now be released exactly once
                drop(slots);
                if ctx.has("c19") {
                    let released: Vec<(usize, bool)> = log.lock().unwrap().clone();
                    let mut orig: Vec<usize> = released.iter().filter(|x| x.1).map(|x| x.0).collect();
                    orig.sort();
                    let mut c = created.clone();
                    c.sort();
                    if orig != c {
                        ctx.fail(case, lines.len(), "c19", format!("after dropping every handle the released values are {:?}, created were {:?}", orig, c));
                    }
                }
            }
        }
    };
}
own_mod!(di, digraph, di);
own_mod!(sdi, sync_digraph, di);
own_mod!(un, ungraph, un);
own_mod!(sun, sync_ungraph, un);

pub fn run_program(lines: &[String], ctx: &mut Ctx) {
    let mut i = 0;
    while i < lines.len() {
        let head = &lines[i];
        let t: Vec<&str> = head.split(' ').collect();
        let mut j = i + 1;
        while j < lines.len() && !lines[j].starts_with("case ") {
            j += 1;
        }
        ctx.prog.push(head.clone());
        ctx.outs.push("case".into());
        let body = &lines[i + 1..j];
        crate::exec::inflight(head, body);
        match t[1] {
            "di" => di::exec_case(head, body, ctx),
            "sdi" => sdi::exec_case(head, body, ctx),
            "un" => un::exec_case(head, body, ctx),
            _ => sun::exec_case(head, body, ctx),
        };
        i = j;
    }
    crate::exec::inflight_done();
}

/// seeded history: build/use phase (keepers of connected nodes stay), hand-off phase (keepers may go,
/// no traversals any more), tear-down in random order
pub fn gen_history(rng: &mut crate::rng::Rng, fl: &str, id: &str, nnodes: usize, ncalls: usize) -> Vec<String> {
    let mut l = vec![format!("case {fl} {id}")];
    let nscratch = 5;
    let g = nnodes + nscratch; // graph slot
    let orphan = g + 1; // a node that is never connected: may come and go freely
    let g2 = orphan + 1; // a second container sharing members with the first
    for k in 0..nnodes {
        l.push(format!("own.new {k} {k}"));
    }
    l.push(format!("own.graph {g}"));
    l.push(format!("own.graph {g2}"));
    let mut orphan_key = 100;
    let mut dup_count = 0usize;
    let mut scratch_kind: Vec<u8> = vec![0; nscratch]; // 0 empty/unknown, 1 node/edge (clonable), 2 opaque
    for _ in 0..ncalls {
        let a = rng.below(nnodes);
        let s = nnodes + rng.below(nscratch);
        let si = s - nnodes;
        match rng.below(27) {
            16 | 17 => l.push(format!("own.try {a} {} {}", if rng.chance(10) { a } else { rng.below(nnodes) }, rng.below(3))),
            18 => l.push(format!("own.disc {a} {}", if rng.chance(10) { a } else { rng.below(nnodes) })),
            19 => {
                if rng.chance(30) {
                    l.push(format!("own.iso {a}"));
                } else {
                    l.push(format!("own.disc {a} {}", rng.below(nnodes)));
                }
            }
            20 | 21 => l.push(format!("own.q {a} {}", if rng.chance(10) { a } else { rng.below(nnodes) })),
            22 => {
                l.push(format!("own.find {a} {} {s}", rng.below(nnodes)));
                scratch_kind[si] = 1;
            }
            23 => {
                l.push(format!("own.pathk {} {} {a} {} {s}", ["bfs", "dfs"][rng.below(2)], ["path", "cycle"][rng.below(2)], rng.below(nnodes)));
                scratch_kind[si] = 2;
            }
            24 => {
                l.push(format!("own.post {a} {s}"));
                scratch_kind[si] = 2;
            }
            25 => {
                // a connected node whose only owner is the container, taken back out of it
                l.push(format!("own.take {g} {} {s}", rng.below(nnodes)));
                scratch_kind[si] = 1;
                l.push(format!("own.deg {s}"));
            }
            26 => l.push(format!("own.deg {a}")),
            0 | 1 => l.push(format!("own.connect {a} {} {}", if rng.chance(15) { a } else { rng.below(nnodes) }, rng.below(3))),
            2 => {
                l.push(format!("own.clone {a} {s}"));
                scratch_kind[si] = 1;
            }
            3 => {
                l.push(format!("own.insert {} {a}", if rng.chance(40) { g2 } else { g }));
            }
            4 => {
                if rng.chance(50) {
                    l.push(format!("own.remove {} {}", if rng.chance(30) { g2 } else { g }, rng.below(nnodes)));
                } else {
                    dup_count += 1;
                    let k = rng.below(nnodes);
                    l.push(format!("own.dup {g} {k} {orphan} {}", 1000 * dup_count + k));
                }
            }
            5 => {
                l.push(format!("own.get {} {} {s}", if rng.chance(30) { g2 } else { g }, rng.below(nnodes)));
                scratch_kind[si] = 1;
            }
            6 | 7 => {
                l.push(format!("own.edge {a} {s}"));
                scratch_kind[si] = 1;
            }
            8 | 9 => {
                l.push(format!("own.path {a} {} {s}", rng.below(nnodes)));
                scratch_kind[si] = 2;
            }
            10 => {
                l.push(format!("own.search {a} {} {s}", rng.below(nnodes)));
                scratch_kind[si] = 1;
            }
            11 => {
                l.push(format!("own.order {a} {s}"));
                scratch_kind[si] = 2;
            }
            12 => {
                l.push(format!("own.drop {s}"));
                scratch_kind[si] = 0;
            }
            13 => {
                // an unconnected node: created, cloned, dropped - released as soon as the last handle goes
                l.push(format!("own.new {orphan} {orphan_key}"));
                orphan_key += 1;
                if rng.chance(50) {
                    l.push(format!("own.clone {orphan} {s}"));
                    scratch_kind[si] = 1;
                    l.push(format!("own.drop {orphan}"));
                } else {
                    l.push(format!("own.insert {g} {orphan}"));
                    l.push(format!("own.drop {orphan}"));
                    l.push(format!("own.remove {g} {}", orphan_key - 1));
                }
            }
            14 => {
                let s2 = nnodes + rng.below(nscratch);
                if scratch_kind[si] == 1 {
                    l.push(format!("own.clone {s} {s2}"));
                    scratch_kind[s2 - nnodes] = 1;
                }
            }
            _ => l.push(format!("own.held {s}")),
        }
    }
    // hand-off: keepers go first (results, containers and clones keep nodes alive), then everything else
    let mut order: Vec<usize> = (0..nnodes).collect();
    for i in (1..order.len()).rev() {
        order.swap(i, rng.below(i + 1));
    }
    for k in order {
        l.push(format!("own.drop {k}"));
        if rng.chance(30) {
            l.push(format!("own.held {}", nnodes + rng.below(nscratch)));
        }
    }
    let mut rest: Vec<usize> = (nnodes..=g2).collect();
    for i in (1..rest.len()).rev() {
        rest.swap(i, rng.below(i + 1));
    }
    for s in rest {
        if s == g && rng.chance(50) {
            l.push(format!("own.remove {g} {}", rng.below(nnodes)));
        }
        l.push(format!("own.drop {s}"));
        if s == g || s == g2 {
            // one container is gone: what the other one still holds is untouched, edges and all
            let other = if s == g { g2 } else { g };
            for _ in 0..2 {
                l.push(format!("own.get {other} {} {orphan}", rng.below(nnodes)));
                l.push(format!("own.deg {orphan}"));
                l.push(format!("own.drop {orphan}"));
            }
        }
    }
    l
}

/// a container that is the only owner of some connected members; traversals whose closure takes such a member
/// out of the container, isolates it and drops it while the traversal is running
pub fn gen_walk_case(rng: &mut crate::rng::Rng, fl: &str, id: &str) -> Vec<String> {
    let mut l = vec![format!("case {fl} {id}")];
    let nn = 3 + rng.below(4);
    let g = nn;
    for k in 0..nn {
        l.push(format!("own.new {k} {k}"));
    }
    for _ in 0..nn + rng.below(2 * nn) {
        l.push(format!("own.connect {} {} {}", rng.below(nn), rng.below(nn), rng.below(3)));
    }
    // a spine so that the traversals have something to walk
    for k in 0..nn - 1 {
        if rng.chance(70) {
            l.push(format!("own.connect {k} {} 1", k + 1));
        }
    }
    l.push(format!("own.graph {g}"));
    for k in 0..nn {
        l.push(format!("own.insert {g} {k}"));
    }
    // the harness keeps handles to the roots only
    let keep: Vec<usize> = (0..nn).filter(|k| *k == 0 || rng.chance(30)).collect();
    for k in 0..nn {
        if !keep.contains(&k) {
            l.push(format!("own.drop {k}"));
        }
    }
    let kinds = ["bfs", "dfs", "bfsp", "dfsp", "bfsT", "dfsT", "fbfs", "fdfs", "pre", "preT", "post"];
    for _ in 0..1 + rng.below(3) {
        let a = keep[rng.below(keep.len())];
        let sole: Vec<usize> = (0..nn).filter(|k| !keep.contains(k)).collect();
        let x = if !sole.is_empty() && rng.chance(80) { sole[rng.below(sole.len())] } else { rng.below(nn) };
        l.push(format!("own.walk {} {a} {} {g} {x}", kinds[rng.below(kinds.len())], rng.below(5)));
        l.push(format!("own.held {g}"));
    }
    for k in keep {
        l.push(format!("own.drop {k}"));
    }
    l.push(format!("own.drop {g}"));
    l
}

/// structure at scale for the ownership accounting: a caterpillar (a spine with two leaves per spine node); targeted
/// searches that stop early with nodes still queued, results kept while the node handles go, then everything dropped
pub fn gen_caterpillar_case(rng: &mut crate::rng::Rng, fl: &str, id: &str, spine: usize) -> Vec<String> {
    let mut l = vec![format!("case {fl} {id}")];
    // one to three leaves per spine node (the width of the frontier varies along the spine)
    let leaves: Vec<usize> = (0..spine).map(|_| 1 + rng.below(3)).collect();
    let n = spine + leaves.iter().sum::<usize>();
    for k in 0..n {
        l.push(format!("own.new {k} {k}"));
    }
    let mut next = spine;
    for i in 0..spine {
        if i + 1 < spine {
            l.push(format!("own.connect {i} {} 1", i + 1));
        }
        for _ in 0..leaves[i] {
            l.push(format!("own.connect {i} {next} 2"));
            next += 1;
        }
    }
    let g = n;
    l.push(format!("own.graph {g}"));
    for k in 0..n {
        l.push(format!("own.insert {g} {k}"));
    }
    // results in scratch slots n+1 .. n+8
    let mut slot = n + 1;
    for _ in 0..6 {
        let t = spine / 2 + rng.below(spine / 2);
        let kind = ["bfs", "dfs"][rng.below(2)];
        l.push(format!("own.pathk {kind} path 0 {t} {slot}"));
        slot += 1;
    }
    // every spine node once as the target of a breadth-first search that stops there (the result replaces the previous one)
    for t in 1..spine {
        l.push(format!("own.pathk bfs path 0 {t} {slot}"));
    }
    slot += 1;
    l.push(format!("own.search 0 {} {slot}", spine - 1));
    // the node handles go (the container and the results keep what they keep), then the container, then the results
    for k in 0..n {
        l.push(format!("own.drop {k}"));
    }
    l.push(format!("own.held {}", n + 1));
    l.push(format!("own.drop {g}"));
    for s in n + 1..=slot {
        l.push(format!("own.drop {s}"));
    }
    l
}

//! Lock-event callback installed into gdsl's verification hook (cfg gdsl_verif).
//! Sequential use: detects a thread requesting a lock it already holds incompatibly
//! (a self-deadlock of the sync flavours) and turns it into a panic, so that the case
//! is reported as `deadlock` instead of hanging. Also counts nested read acquisitions.
use gdsl::verif_hook::{install, Event};
use std::cell::RefCell;
use std::sync::atomic::{AtomicBool, AtomicU64, Ordering};

thread_local! {
    /// (addr, write) of every guard this thread holds
    static HELD: RefCell<Vec<(usize, bool)>> = RefCell::new(Vec::new());
    /// when enabled: every lock request of this thread as (address, write?, guards held at that moment)
    pub static TRACE: RefCell<Option<Vec<(usize, bool, usize)>>> = RefCell::new(None);
    static DEADLOCK: std::cell::Cell<bool> = std::cell::Cell::new(false);
}
/// did the last request of this thread hit a lock it already holds
pub fn deadlocked() -> bool {
    DEADLOCK.with(|d| d.get())
}
pub static NESTED_READS: AtomicU64 = AtomicU64::new(0);
pub static LOCK_EVENTS: AtomicU64 = AtomicU64::new(0);
/// when set, the sequential detector is off (the scheduler takes over)
pub static SCHED_MODE: AtomicBool = AtomicBool::new(false);

pub fn held_count() -> usize {
    HELD.with(|h| h.borrow().len())
}
pub fn reset_thread() {
    HELD.with(|h| h.borrow_mut().clear());
    DEADLOCK.with(|d| d.set(false));
}

pub fn install_sequential() {
    install(Box::new(|ev| {
        if SCHED_MODE.load(Ordering::Relaxed) {
            crate::sched::on_event(ev);
            return;
        }
        LOCK_EVENTS.fetch_add(1, Ordering::Relaxed);
        match ev {
            Event::Request { addr, write } => {
                let conflict = HELD.with(|h| {
                    h.borrow().iter().any(|&(a, w)| a == addr && (w || write))
                });
                let nested = HELD.with(|h| h.borrow().iter().any(|&(a, w)| a == addr && !w && !write));
                if nested {
                    NESTED_READS.fetch_add(1, Ordering::Relaxed);
                }
                TRACE.with(|t| {
                    if let Some(t) = t.borrow_mut().as_mut() {
                        t.push((addr, write, held_count()));
                    }
                });
                if conflict {
                    DEADLOCK.with(|d| d.set(true));
                    panic!("verif: self-deadlock (lock requested while held by the same thread)");
                }
            }
            Event::Acquired { addr, write } => HELD.with(|h| h.borrow_mut().push((addr, write))),
            Event::Released { addr, write } => HELD.with(|h| {
                let mut h = h.borrow_mut();
                if let Some(i) = h.iter().rposition(|&x| x == (addr, write)) {
                    h.remove(i);
                }
            }),
        }
    }));
}

pub fn trace_start() {
    TRACE.with(|t| *t.borrow_mut() = Some(vec![]));
}
pub fn trace_take() -> Vec<(usize, bool, usize)> {
    TRACE.with(|t| t.borrow_mut().take().unwrap_or_default())
}

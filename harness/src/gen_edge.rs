//! Generators for histories of edge operations (C01, C02, C03).
use crate::exec::{is_directed, Ctx};
use crate::rng::Rng;
use std::collections::HashSet;

pub const VIAS: [&str; 7] = ["clone", "clone", "clone", "graph", "index", "edge", "result"];

/// reference bookkeeping of the generator only (which pairs are probably connected);
/// used to bias choices, never to judge the implementation
#[derive(Default, Clone)]
struct Live {
    edges: Vec<(usize, usize)>,
}

pub fn random_history(rng: &mut Rng, fl: &str, id: &str, nnodes: usize, ncalls: usize, with_via: bool) -> Vec<String> {
    let directed = is_directed(fl);
    let mut l = vec![format!("case {fl} {id}")];
    for k in 0..nnodes {
        l.push(format!("new {k} {}", rng.below(3)));
    }
    let mut live = Live::default();
    // most histories keep the graph small (many removals hit); some let it grow past the list-growth thresholds
    // (4, 8, 16, 32, 64 entries per node) and some use the extremes of the edge value type
    let crowd_limit = if rng.chance(12) { 90 } else { 12 };
    let wide = rng.chance(12);
    let pick_pair = |rng: &mut Rng, live: &Live| -> (usize, usize) {
        if !live.edges.is_empty() && rng.chance(35) {
            let (a, b) = live.edges[rng.below(live.edges.len())];
            if !directed && rng.chance(50) {
                (b, a)
            } else {
                (a, b)
            }
        } else {
            let u = rng.below(nnodes);
            let v = if rng.chance(18) { u } else { rng.below(nnodes) };
            (u, v)
        }
    };
    for _ in 0..ncalls {
        let via = if with_via { format!(" #via={}", VIAS[rng.below(VIAS.len())]) } else { String::new() };
        let crowded = live.edges.len() > crowd_limit;
        let r = rng.below(100);
        let (u, v) = pick_pair(rng, &live);
        let e = if wide { [0u32, 1, u32::MAX, 1 << 31, u32::MAX - 1][rng.below(5)] } else { rng.below(3) as u32 };
        if (!crowded && r < 35) || (crowded && r < 10) {
            l.push(format!("connect {u} {v} {e}{via}"));
            live.edges.push((u, v));
        } else if r < 50 {
            l.push(format!("try_connect {u} {v} {e}{via}"));
            let has = live.edges.iter().any(|&(a, b)| (a, b) == (u, v) || (!directed && (b, a) == (u, v)));
            if !has {
                live.edges.push((u, v));
            }
        } else if r < 88 {
            l.push(format!("disconnect {u} {v}{via}"));
            if let Some(i) = live.edges.iter().position(|&(a, b)| (a, b) == (u, v) || (!directed && (b, a) == (u, v))) {
                live.edges.remove(i);
            }
        } else {
            l.push(format!("isolate {u}{via}"));
            live.edges.retain(|&(a, b)| a != u && b != u);
        }
        l.push("dump".into());
        if rng.chance(25) {
            l.push(format!("obs {}", rng.below(nnodes)));
        }
        if rng.chance(25) {
            l.push(format!("q {} {}", rng.below(nnodes), rng.below(nnodes)));
        }
        if rng.chance(8) {
            l.push(format!("sz {}", rng.below(nnodes)));
            l.push(format!("nv {}", rng.below(nnodes)));
        }
    }
    l
}

pub fn all_ops(nnodes: usize, nvals: usize) -> Vec<String> {
    let mut ops = vec![];
    for u in 0..nnodes {
        for v in 0..nnodes {
            for e in 0..nvals {
                ops.push(format!("connect {u} {v} {e}"));
                ops.push(format!("try_connect {u} {v} {e}"));
            }
            ops.push(format!("disconnect {u} {v}"));
        }
        ops.push(format!("isolate {u}"));
    }
    ops
}

/// Exhaustive exploration of the abstract state space *of the implementation*:
/// breadth-first over dumps; every (state, operation) pair is executed once as its own case
/// (history that reaches the state, the operation, then dump / obs / q of everything).
/// Level-synchronous and spread over `ctxs.len()` threads. Returns (states, pairs).
pub fn explore(fl: &str, nnodes: usize, max_edges: usize, nvals: usize, ctxs: &mut [Ctx], cap_states: usize) -> (usize, usize) {
    let ops = all_ops(nnodes, nvals);
    let mut seen: HashSet<String> = HashSet::new();
    let mut frontier: Vec<Vec<String>> = vec![vec![]];
    seen.insert(String::new()); // placeholder for the empty state; real dump inserted below
    let mut pairs = 0usize;
    let mut first = true;
    let nthreads = ctxs.len();
    let mut level = 0usize;
    while !frontier.is_empty() {
        level += 1;
        let chunks: Vec<Vec<Vec<String>>> = (0..nthreads).map(|t| frontier.iter().skip(t).step_by(nthreads).cloned().collect()).collect();
        let mut results: Vec<Vec<(String, Vec<String>)>> = vec![];
        std::thread::scope(|s| {
            let mut hs = vec![];
            for (ti, (chunk, ctx)) in chunks.into_iter().zip(ctxs.iter_mut()).enumerate() {
                let ops = &ops;
                let level = level;
                hs.push(s.spawn(move || {
                    let mut found = vec![];
                    let mut seq = 0usize;
                    for hist in chunk {
                        if crate::exec::stopped() {
                            break;
                        }
                        for op in ops {
                            seq += 1;
                            let mut lines = vec![format!("case {fl} x{}n{}e{}v-L{}-t{}-{} quiet={}", nnodes, max_edges, nvals, level, ti, seq, nnodes + hist.len())];
                            for k in 0..nnodes {
                                lines.push(format!("new {k} 0"));
                            }
                            lines.extend(hist.iter().cloned());
                            lines.push(op.clone());
                            lines.push("dump".into());
                            for u in 0..nnodes {
                                lines.push(format!("obs {u}"));
                                for v in 0..nnodes {
                                    lines.push(format!("q {u} {v}"));
                                }
                            }
                            let dump_idx = ctx.outs.len() + 1 + nnodes + hist.len() + 1;
                            let before = ctx.outs.len();
                            crate::exec::run_program(&lines, ctx);
                            ctx.count("explore.pairs");
                            if ctx.outs.len() > dump_idx && ctx.outs.len() - before == lines.len() {
                                let d = ctx.outs[dump_idx].clone();
                                let mut h = hist.clone();
                                h.push(op.clone());
                                found.push((d, h));
                            }
                        }
                    }
                    found
                }));
            }
            for h in hs {
                results.push(h.join().expect("worker thread"));
            }
        });
        let mut next = vec![];
        for (d, h) in results.into_iter().flatten() {
            pairs += 1;
            let live = d.matches(':').count() - nnodes; // entries "k:e" minus the node labels "k:"
            let live = if is_directed(fl) { live / 2 } else { live / 2 };
            if live > max_edges {
                continue;
            }
            if seen.insert(d) && seen.len() <= cap_states {
                next.push(h);
            }
        }
        if first {
            first = false;
        }
        frontier = next;
    }
    (seen.len(), pairs)
}

/// C15 only: a history in which some keys are carried by TWO live node objects (`TWIN + k` addresses the second one).
/// Lookups go by key, adjacency by object: the two implementations must still agree call by call. Includes a hub that
/// grows past 16 and 32 edges (degree thresholds).
pub fn twin_history(rng: &mut Rng, fl: &str, id: &str, nnodes: usize, ncalls: usize) -> Vec<String> {
    use crate::exec::TWIN;
    let mut l = vec![format!("case {fl} {id}")];
    for k in 0..nnodes {
        l.push(format!("new {k} {}", rng.below(3)));
    }
    let ntw = 1 + rng.below(2);
    let mut ids: Vec<usize> = (0..nnodes).collect();
    for _ in 0..ntw {
        let k = rng.below(nnodes);
        if !ids.contains(&(TWIN + k)) {
            l.push(format!("new {} {}", TWIN + k, 5 + rng.below(3)));
            ids.push(TWIN + k);
        }
    }
    let hub = rng.below(nnodes);
    let grow = rng.chance(50);
    for i in 0..ncalls {
        let u = if grow && i < 40 { hub } else { ids[rng.below(ids.len())] };
        let v = ids[rng.below(ids.len())];
        match rng.below(if grow && i < 40 { 3 } else { 10 }) {
            0..=2 => l.push(format!("connect {u} {v} {}", rng.below(4))),
            3 | 4 => l.push(format!("try_connect {u} {v} {}", 10 + rng.below(4))),
            5 | 6 => l.push(format!("disconnect {u} {v}")),
            7 => l.push(format!("isolate {u}")),
            8 => l.push(format!("q {u} {}", v % TWIN)),
            _ => l.push(format!("obs {u}")),
        }
        if rng.chance(30) {
            l.push("dump".into());
        }
    }
    l.push("dump".into());
    l
}

/// a program for the `z*` flavours (zero-sized node and edge values): every value becomes 0
pub fn zst(lines: Vec<String>) -> Vec<String> {
    lines
        .into_iter()
        .map(|l| {
            let t: Vec<&str> = l.split(' ').collect();
            match t[0] {
                "new" if t.len() == 3 => format!("new {} 0", t[1]),
                "connect" | "try_connect" if t.len() >= 4 => {
                    let mut v: Vec<String> = t.iter().map(|x| x.to_string()).collect();
                    v[3] = "0".into();
                    v.join(" ")
                }
                _ => l,
            }
        })
        .collect()
}

/// a hub of high degree (past the thresholds 16, 32, 64 that "fast paths" like to use) with two-way neighbours,
/// parallel edges and self-loops, then removals in the middle of its lists, try_connects, and finally isolate
pub fn hub_history(rng: &mut Rng, fl: &str, id: &str) -> Vec<String> {
    let directed = is_directed(fl);
    let nspokes = 6 + rng.below(10);
    let n = nspokes + 1;
    let mut l = vec![format!("case {fl} {id}")];
    for k in 0..n {
        l.push(format!("new {k} {}", rng.below(3)));
    }
    let deg = [20, 35, 70, 150][rng.below(4)];
    // how the edges are split between the hub's two lists: even, or nearly all in one of them (one list past 64 / 128)
    let split = [5, 9, 1][rng.below(3)];
    let mut edges: Vec<(usize, usize)> = vec![];
    for i in 0..deg {
        let s = 1 + rng.below(nspokes);
        let r = rng.below(20);
        let (u, v) = if r == 0 { (0, 0) } else if r % 10 < split { (0, s) } else { (s, 0) };
        l.push(format!("connect {u} {v} {}", i % 4));
        edges.push((u, v));
    }
    l.push("dump".into());
    for _ in 0..12 + rng.below(20) {
        let s = 1 + rng.below(nspokes);
        match rng.below(8) {
            0 | 1 => l.push(format!("disconnect 0 {s}")),
            2 | 3 => l.push(format!("disconnect {s} 0")),
            4 => l.push(format!("try_connect 0 {s} 9")),
            5 => l.push(format!("try_connect {s} 0 8")),
            6 => l.push(format!("isolate {s}")),
            _ => l.push(format!("connect {} {} 7", if directed { 0 } else { s }, if directed { s } else { 0 })),
        }
        l.push("dump".into());
        if rng.chance(20) {
            l.push(format!("obs {}", if rng.chance(50) { 0 } else { s }));
            l.push(format!("q 0 {s}"));
        }
    }
    l.push("isolate 0".into());
    l.push("dump".into());
    l
}


//! gdsl verification harness: generates programs, executes them against the real code
//! (built from /repo's working tree with --cfg gdsl_verif), evaluates oracles and writes
//!   <out>/t<i>.prog   annotated program (input of the Lean driver)
//!   <out>/t<i>.impl   observation stream of the implementation
//!   <out>/fails.txt   oracle failures (one per line)
//!   <out>/stats.json  counters, samples
mod exec;
mod exec_ext;
mod gen_edge;
mod hook;
mod oracle;
mod rng;
mod sched;

use exec::Ctx;
use rng::Rng;
use std::collections::BTreeMap;
use std::io::Write;

fn arg(args: &[String], name: &str, default: &str) -> String {
    args.iter().position(|a| a == name).and_then(|i| args.get(i + 1)).cloned().unwrap_or_else(|| default.to_string())
}

fn write_outputs(out: &str, ctxs: &[Ctx], extra: BTreeMap<String, String>) {
    std::fs::create_dir_all(out).unwrap();
    let mut fails = std::fs::File::create(format!("{out}/fails.txt")).unwrap();
    let mut counters: BTreeMap<String, u64> = BTreeMap::new();
    let mut samples: Vec<String> = vec![];
    for (i, c) in ctxs.iter().enumerate() {
        let mut p = std::io::BufWriter::new(std::fs::File::create(format!("{out}/t{i}.prog")).unwrap());
        for l in &c.prog {
            writeln!(p, "{l}").unwrap();
        }
        let mut o = std::io::BufWriter::new(std::fs::File::create(format!("{out}/t{i}.impl")).unwrap());
        for l in &c.outs {
            writeln!(o, "{l}").unwrap();
        }
        for f in &c.fails {
            writeln!(fails, "{}\t{}\t{}\t{}\tt{}", f.case, f.line, f.oracle, f.msg.replace('\n', " "), i).unwrap();
        }
        for (k, v) in &c.counters {
            *counters.entry(k.clone()).or_insert(0) += v;
        }
        samples.extend(c.samples.iter().take(3).cloned());
    }
    let mut s = String::from("{\n \"counters\": {");
    let cs: Vec<String> = counters.iter().map(|(k, v)| format!("\"{k}\": {v}")).collect();
    s.push_str(&cs.join(", "));
    s.push_str("},\n \"extra\": {");
    let es: Vec<String> = extra.iter().map(|(k, v)| format!("\"{k}\": {}", serde_json::to_string(v).unwrap())).collect();
    s.push_str(&es.join(", "));
    s.push_str("},\n \"samples\": ");
    s.push_str(&serde_json::to_string(&samples).unwrap());
    s.push_str("\n}\n");
    std::fs::write(format!("{out}/stats.json"), s).unwrap();
}

fn new_ctxs(n: usize, oracles: &[&str]) -> Vec<Ctx> {
    (0..n).map(|_| Ctx { oracles: oracles.iter().map(|s| s.to_string()).collect(), ..Default::default() }).collect()
}

/// runs `ncases` generated cases spread over the contexts (one thread per context)
fn spread<F>(ctxs: &mut [Ctx], ncases: usize, gen: F)
where
    F: Fn(usize) -> Vec<String> + Sync,
{
    let n = ctxs.len();
    std::thread::scope(|s| {
        for (t, ctx) in ctxs.iter_mut().enumerate() {
            let gen = &gen;
            std::thread::Builder::new()
                .stack_size(256 << 20)
                .spawn_scoped(s, move || {
                    let mut i = t;
                    while i < ncases && !exec::stopped() {
                        let lines = gen(i);
                        if ctx.samples.len() < 2 {
                            ctx.samples.push(lines.iter().take(14).cloned().collect::<Vec<_>>().join(" ; "));
                        }
                        exec::run_program(&lines, ctx);
                        ctx.count("cases");
                        i += n;
                    }
                })
                .unwrap();
        }
    });
}

fn edge_props(prop: &str, tier: &str, seed: u64, threads: usize, out: &str) {
    let (flavours, oracles): (Vec<&str>, Vec<&str>) = match prop {
        "C01" => (vec!["di", "sdi"], vec!["mirror"]),
        "C02" => (vec!["un", "sun"], vec!["mirror"]),
        _ => (vec!["di", "sdi", "un", "sun"], vec!["contract", "mirror"]),
    };
    let mut ctxs = new_ctxs(threads, &oracles);
    let mut extra = BTreeMap::new();
    let quick = tier == "quick";
    // exhaustive (state, operation) pairs
    let configs: Vec<(usize, usize, usize, usize)> = if quick { vec![(2, 3, 2, usize::MAX), (3, 2, 1, usize::MAX)] } else { vec![(2, 4, 2, usize::MAX), (3, 3, 2, usize::MAX), (3, 4, 1, usize::MAX)] };
    for fl in &flavours {
        for &(n, e, v, cap) in &configs {
            exec::new_section();
            let (states, pairs) = gen_edge::explore(fl, n, e, v, &mut ctxs, cap);
            extra.insert(format!("explore.{fl}.{n}n{e}e{v}v"), format!("states={states} pairs={pairs}"));
        }
    }
    // seeded random histories
    let (nh, nc) = if quick { (40, 150) } else { (200, 300) };
    let with_via = prop == "C03";
    let fls = flavours.clone();
    exec::new_section();
    spread(&mut ctxs, nh * fls.len(), |i| {
        let mut rng = Rng::new(seed.wrapping_mul(1_000_003).wrapping_add(i as u64));
        let fl = fls[i % fls.len()];
        let n = 1 + rng.below(if quick { 6 } else { 8 });
        gen_edge::random_history(&mut rng, fl, &format!("r{i}"), n, nc, with_via)
    });
    write_outputs(out, &ctxs, extra);
}

fn main() {
    std::panic::set_hook(Box::new(|_| {}));
    hook::install_sequential();
    let args: Vec<String> = std::env::args().collect();
    let cmd = args.get(1).map(|s| s.as_str()).unwrap_or("");
    let threads: usize = arg(&args, "--threads", "16").parse().unwrap();
    let seed: u64 = arg(&args, "--seed", "1").parse().unwrap();
    let tier = arg(&args, "--tier", "quick");
    let out = arg(&args, "--out", "/verif/work/tmp");
    match cmd {
        "run" => {
            let prop = arg(&args, "--prop", "");
            match prop.as_str() {
                "C01" | "C02" | "C03" => edge_props(&prop, &tier, seed, threads, &out),
                _ => {
                    eprintln!("unknown property {prop}");
                    std::process::exit(2)
                }
            }
        }
        "replay" => {
            // executes program files with every oracle on; writes outputs like `run`
            let oracles = arg(&args, "--oracles", "mirror,contract,nopanic");
            let files: Vec<String> = args.iter().skip(2).filter(|a| a.ends_with(".prog")).cloned().collect();
            let mut ctxs = new_ctxs(1, &oracles.split(',').collect::<Vec<_>>());
            for f in files {
                let text = std::fs::read_to_string(&f).expect("program file");
                let lines: Vec<String> = text.lines().filter(|l| !l.trim().is_empty() && !l.starts_with("--")).map(|l| l.to_string()).collect();
                exec::run_program(&lines, &mut ctxs[0]);
            }
            write_outputs(&out, &ctxs, BTreeMap::new());
        }
        _ => {
            eprintln!("usage: harness run --prop Cxx --tier quick|thorough --seed N --threads T --out DIR | replay --out DIR files.prog");
            std::process::exit(2)
        }
    }
}

//! gdsl verification harness: generates programs, executes them against the real code
//! (built from /repo's working tree with --cfg gdsl_verif), evaluates oracles and writes
//!   <out>/t<i>.prog   annotated program (input of the Lean driver)
//!   <out>/t<i>.impl   observation stream of the implementation
//!   <out>/fails.txt   oracle failures (one per line)
//!   <out>/stats.json  counters, samples
mod exec;
mod exec_wk;
#[macro_use]
mod exec_cont;
mod exec_conc;
mod exec_ext;
mod exec_own;
mod oracle_cont;
mod gen_cont;
mod gen_edge;
mod gen_live;
mod gen_search;
mod hook;
mod oracle;
mod oracle_search;
mod rng;
mod sched;

use exec::Ctx;
use rng::Rng;
use std::collections::BTreeMap;
use std::io::Write;

fn arg(args: &[String], name: &str, default: &str) -> String {
    args.iter().position(|a| a == name).and_then(|i| args.get(i + 1)).cloned().unwrap_or_else(|| default.to_string())
}

fn write_outputs(out: &str, ctxs: &[Ctx], extra: BTreeMap<String, String>) {
    std::fs::create_dir_all(out).unwrap();
    let mut fails = std::fs::File::create(format!("{out}/fails.txt")).unwrap();
    let mut counters: BTreeMap<String, u64> = BTreeMap::new();
    let mut samples: Vec<String> = vec![];
    for (i, c) in ctxs.iter().enumerate() {
        let mut p = std::io::BufWriter::new(std::fs::File::create(format!("{out}/t{i}.prog")).unwrap());
        for l in &c.prog {
            writeln!(p, "{l}").unwrap();
        }
        let mut o = std::io::BufWriter::new(std::fs::File::create(format!("{out}/t{i}.impl")).unwrap());
        for l in &c.outs {
            writeln!(o, "{l}").unwrap();
        }
        for f in &c.fails {
            writeln!(fails, "{}\t{}\t{}\t{}\t{}{}", f.case, f.line, f.oracle, f.msg.replace('\n', " "), if f.side { "x" } else { "t" }, i).unwrap();
        }
        if !c.side_prog.is_empty() {
            let mut x = std::io::BufWriter::new(std::fs::File::create(format!("{out}/x{i}.prog")).unwrap());
            for l in &c.side_prog {
                writeln!(x, "{l}").unwrap();
            }
        }
        for (k, v) in &c.counters {
            *counters.entry(k.clone()).or_insert(0) += v;
        }
        samples.extend(c.samples.iter().take(3).cloned());
    }
    let mut s = String::from("{\n \"counters\": {");
    let cs: Vec<String> = counters.iter().map(|(k, v)| format!("\"{k}\": {v}")).collect();
    s.push_str(&cs.join(", "));
    s.push_str("},\n \"extra\": {");
    let es: Vec<String> = extra.iter().map(|(k, v)| format!("\"{k}\": {}", serde_json::to_string(v).unwrap())).collect();
    s.push_str(&es.join(", "));
    s.push_str("},\n \"samples\": ");
    s.push_str(&serde_json::to_string(&samples).unwrap());
    s.push_str("\n}\n");
    std::fs::write(format!("{out}/stats.json"), s).unwrap();
}

fn new_ctxs(n: usize, oracles: &[&str]) -> Vec<Ctx> {
    (0..n).map(|_| Ctx { oracles: oracles.iter().map(|s| s.to_string()).collect(), ..Default::default() }).collect()
}

/// runs `ncases` generated cases spread over the contexts (one thread per context)
fn spread<F>(ctxs: &mut [Ctx], ncases: usize, gen: F)
where
    F: Fn(usize) -> Vec<String> + Sync,
{
    let n = ctxs.len();
    std::thread::scope(|s| {
        for (t, ctx) in ctxs.iter_mut().enumerate() {
            let gen = &gen;
            std::thread::Builder::new()
                .stack_size(256 << 20)
                .spawn_scoped(s, move || {
                    let mut i = t;
                    while i < ncases && !exec::stopped() {
                        let lines = gen(i);
                        if ctx.samples.len() < 2 {
                            ctx.samples.push(lines.iter().take(14).cloned().collect::<Vec<_>>().join(" ; "));
                        }
                        exec::run_program(&lines, ctx);
                        ctx.count("cases");
                        i += n;
                    }
                })
                .unwrap();
        }
    });
}

/// like `spread`, but the job gets the worker's context and runs whatever it wants itself
fn spread_with<F>(ctxs: &mut [Ctx], njobs: usize, f: F)
where
    F: Fn(usize, &mut Ctx) + Sync,
{
    let nt = ctxs.len();
    std::thread::scope(|s| {
        for (t, ctx) in ctxs.iter_mut().enumerate() {
            let f = &f;
            std::thread::Builder::new()
                .stack_size(256 << 20)
                .spawn_scoped(s, move || {
                    let mut i = t;
                    while i < njobs && !exec::stopped() {
                        f(i, ctx);
                        i += nt;
                    }
                })
                .unwrap();
        }
    });
}

fn edge_props(prop: &str, tier: &str, seed: u64, threads: usize, out: &str) {
    let (flavours, oracles): (Vec<&str>, Vec<&str>) = match prop {
        "C01" => (vec!["di", "sdi"], vec!["mirror"]),
        "C02" => (vec!["un", "sun"], vec!["mirror"]),
        _ => (vec!["di", "sdi", "un", "sun"], vec!["contract", "mirror"]),
    };
    let mut ctxs = new_ctxs(threads, &oracles);
    let mut extra = BTreeMap::new();
    let quick = tier == "quick";
    // exhaustive (state, operation) pairs
    let configs: Vec<(usize, usize, usize, usize)> = if quick { vec![(2, 3, 2, usize::MAX), (3, 2, 1, usize::MAX)] } else { vec![(2, 4, 2, usize::MAX), (3, 3, 2, usize::MAX), (3, 4, 1, usize::MAX)] };
    for fl in &flavours {
        for &(n, e, v, cap) in &configs {
            exec::new_section();
            let (states, pairs) = gen_edge::explore(fl, n, e, v, &mut ctxs, cap);
            extra.insert(format!("explore.{fl}.{n}n{e}e{v}v"), format!("states={states} pairs={pairs}"));
        }
    }
    // seeded random histories
    let (nh, nc) = if quick { (40, 150) } else { (200, 300) };
    let with_via = prop == "C03";
    let fls = flavours.clone();
    exec::new_section();
    spread(&mut ctxs, nh * fls.len(), |i| {
        let mut rng = Rng::new(seed.wrapping_mul(1_000_003).wrapping_add(i as u64));
        let fl = fls[i % fls.len()];
        let n = 1 + rng.below(if quick { 6 } else { 8 });
        gen_edge::random_history(&mut rng, fl, &format!("r{i}"), n, nc, with_via)
    });
    // hubs of high degree
    exec::new_section();
    let nhub = if quick { 60 } else { 600 };
    let fls2 = flavours.clone();
    spread(&mut ctxs, nhub, |i| {
        let mut rng = Rng::new(seed.wrapping_mul(1_000_037).wrapping_add(i as u64));
        let base = fls2[i % fls2.len()];
        match i % 5 {
            3 => {
                let fl = format!("w{base}");
                let mut l = gen_edge::hub_history(&mut rng, base, &format!("hub{i}"));
                l[0] = format!("case {fl} hub{i}");
                l
            }
            4 => {
                let fl = format!("z{base}");
                let mut l = gen_edge::zst(gen_edge::hub_history(&mut rng, base, &format!("hub{i}")));
                l[0] = format!("case {fl} hub{i}");
                l
            }
            _ => gen_edge::hub_history(&mut rng, base, &format!("hub{i}")),
        }
    });
    extra.insert("hubs".into(), format!("{nhub} histories on a hub of degree 20-90"));
    // the same histories with a key type whose Hash is coarser than its Eq (two hash values for all keys), non-Copy and
    // heap-owning: whatever the library does with a key's hash or clone beyond what usize shows
    exec::new_section();
    let wfls: Vec<String> = fls.iter().map(|f| format!("w{f}")).chain(fls.iter().map(|f| format!("z{f}"))).collect();
    let nw = if quick { 30 } else { 150 };
    spread(&mut ctxs, nw * wfls.len(), |i| {
        let mut rng = Rng::new(seed.wrapping_mul(1_000_033).wrapping_add(i as u64));
        let fl = &wfls[i % wfls.len()];
        let n = 2 + rng.below(if quick { 6 } else { 9 });
        let mut l = gen_edge::random_history(&mut rng, &fl[1..], &format!("w{i}"), n, nc, false);
        l[0] = format!("case {fl} w{i}");
        l.retain(|x| !x.starts_with("sz ")); // the layout constants of sizeof are those of usize keys
        // a few searches at the end (visited sets keyed by the same weak hash)
        for _ in 0..6 {
            let kind = ["bfs", "dfs", "pfs-min", "pfs-max"][rng.below(4)];
            let mode = ["node", "path", "cycle"][rng.below(3)];
            let tgt = if mode == "cycle" { "-".to_string() } else { rng.below(n).to_string() };
            l.push(format!("search {kind} fwd {} {tgt} none {mode}", rng.below(n)));
        }
        if fl.starts_with('z') { gen_edge::zst(l) } else { l }
    });
    extra.insert("weak_hash_keys".into(), format!("{} histories with colliding key hashes resp. zero-sized values", nw * wfls.len()));
    // calls that unwind: an edge value whose Clone panics inside connect / try_connect (plain flavours), the caller
    // catching it - the call has not happened, so no half of the edge may stay behind
    exec::new_section();
    let ffls: Vec<&str> = fls.iter().filter(|f| !f.starts_with('s')).cloned().collect();
    let nfuse = if quick { 200 } else { 3000 };
    if !ffls.is_empty() {
        let ffls = &ffls;
        spread(&mut ctxs, nfuse, |i| {
            let mut rng = Rng::new(seed.wrapping_mul(131).wrapping_add(i as u64));
            let fl = ffls[i % ffls.len()];
            let n = 2 + rng.below(4);
            let mut l = gen_edge::random_history(&mut rng, fl, &format!("fu{i}"), n, 40, false);
            l[0] = format!("case f{fl} fu{i}");
            l.retain(|x| !x.starts_with("sz ") && !x.starts_with("ecmp ") && !x.starts_with("cmp ") && !x.starts_with("lt"));
            for x in l.iter_mut() {
                if (x.starts_with("connect ") || x.starts_with("try_connect ")) && rng.chance(45) {
                    x.push_str(&format!(" #fuse={}", 1 + rng.below(3)));
                }
            }
            l
        });
        extra.insert("unwinding".into(), format!("{nfuse} histories in which the clone of an edge value panics inside connect / try_connect and the caller catches it"));
    }
    // edge operations issued from inside a live edge loop over one of the nodes involved (a `for` statement or
    // `for_each`): the lists are what the model of live loops says, and the invariant holds afterwards
    exec::new_section();
    let nlive = if quick { 600 } else { 12000 };
    let fls3 = flavours.clone();
    spread(&mut ctxs, nlive, |i| {
        let mut rng = Rng::new(seed.wrapping_mul(127).wrapping_add(i as u64));
        let fl = fls3[i % fls3.len()];
        let nn = 2 + rng.below(4);
        let ncalls = 12 + rng.below(20);
        let mut l = gen_edge::random_history(&mut rng, fl, &format!("lv{i}"), nn, ncalls, false);
        l.push("g.new 0".into());
        for _ in 0..1 + rng.below(3) {
            let u = rng.below(nn);
            let which = if exec::is_directed(fl) { ["out", "in"][rng.below(2)] } else { "adj" };
            let mut ents = vec![];
            for _ in 0..1 + rng.below(2) {
                let (a, b) = (if rng.chance(60) { u } else { rng.below(nn) }, if rng.chance(40) { u } else { rng.below(nn) });
                let op = match rng.below(6) { 0 | 1 => format!("d.{a}.{b}"), 2 => format!("c.{a}.{b}.{}", rng.below(3)), 3 => format!("t.{a}.{b}.{}", rng.below(3)), 4 => format!("x.{}", if rng.chance(50) { a } else { b }), _ => format!("q.{a}.{b}") };
                ents.push(format!("{}={op}", rng.below(4)));
            }
            l.push(format!("iter {which} {u} {}{}", ents.join(";"), ["", " fold", " over", " fold over"][rng.below(4)]));
            l.push("dump".into());
        }
        l
    });
    extra.insert("live_loops".into(), format!("{nlive} histories followed by edge loops whose body disconnects, connects, isolates or queries"));
    if prop == "C03" {
        // two live node objects with one key (nodes are keys in the model, so these histories are judged by the
        // statement alone): connect / try_connect act on the objects they are called on, whatever their keys
        exec::new_section();
        let ntw = if quick { 400 } else { 6000 };
        spread_with(&mut ctxs, ntw, |i, ctx| {
            let mut rng = Rng::new(seed.wrapping_mul(97).wrapping_add(i as u64));
            let fl = ["di", "sdi", "un", "sun"][i % 4];
            let nn = 2 + rng.below(if i % 3 == 0 { 12 } else { 4 });
            // (removals find the neighbour's entry by KEY, so with two objects of one key `disconnect`/`isolate` are
            // ambiguous - observation O4 of DESIGN section 8.1; these histories only add edges)
            let mut lines = gen_edge::twin_history(&mut rng, fl, &format!("tw{i}"), nn, if quick { 60 } else { 120 });
            lines.retain(|l| !l.starts_with("disconnect ") && !l.starts_with("isolate "));
            let mut c = Ctx::default();
            c.oracles = vec!["twincontract".into()];
            exec::run_program(&lines, &mut c);
            ctx.side_prog.extend(lines.iter().cloned());
            if let Some(f) = c.fails.first() {
                ctx.fail(&lines[0], f.line, "contract", format!("(two node objects with one key) {}", f.msg));
                if let Some(f) = ctx.fails.last_mut() {
                    f.side = true;
                }
            }
            ctx.count("twins");
            ctx.count("cases");
        });
        extra.insert("twins".into(), format!("{ntw} histories with two live node objects of one key (identity-based connect contract, not modelled)"));
    }
    write_outputs(out, &ctxs, extra);
}

fn search_props(prop: &str, tier: &str, seed: u64, threads: usize, out: &str) {
    let quick = tier == "quick";
    let flavours: Vec<&str> = if prop == "C08" { vec!["di", "sdi"] } else { vec!["di", "sdi", "un", "sun"] };
    let oracle = prop.to_lowercase();
    let mut ctxs = new_ctxs(threads, &[oracle.as_str()]);
    let mut extra = BTreeMap::new();
    // enumerated connect sequences: (nodes, max edges)
    let configs: Vec<(usize, usize)> = if quick { vec![(2, 3), (3, 3)] } else { vec![(2, 4), (3, 4), (4, 3)] };
    for fl in &flavours {
        for &(n, mmax) in &configs {
            exec::new_section();
            let mut jobs: Vec<(usize, usize)> = vec![];
            for m in 0..=mmax {
                for idx in 0..gen_search::count_seqs(n, m) {
                    jobs.push((m, idx));
                }
            }
            let njobs = jobs.len();
            let jobs = &jobs;
            let p = prop.to_string();
            spread(&mut ctxs, njobs, |i| {
                let (m, idx) = jobs[i];
                let edges = gen_search::seq_graph(n, m, idx);
                // node values: a different assignment per graph, all assignments over {0,1,2} are hit across the enumeration
                let vals: Vec<i64> = (0..n).map(|k| ((idx / 3usize.pow(k as u32) + m + (seed as usize)) % 3) as i64).collect();
                let g = gen_search::GraphSpec { n, vals, edges };
                let mut l = vec![format!("case {fl} e{n}n{m}e-{idx}")];
                l.extend(gen_search::graph_lines(&g));
                l.extend(gen_search::requests(&p, fl, &g, !quick, None));
                l
            });
            extra.insert(format!("enumerated.{fl}.{n}n<={mmax}e"), format!("graphs={njobs}"));
        }
        if prop == "C06" {
            // every assignment of node values over {0,1,2} on the graphs with <= 2 (quick) / 3 (thorough) edges on 3 nodes
            exec::new_section();
            let mmax = if quick { 2 } else { 3 };
            let mut jobs: Vec<(usize, usize, usize)> = vec![];
            for m in 0..=mmax {
                for idx in 0..gen_search::count_seqs(3, m) {
                    for va in 0..27 {
                        jobs.push((m, idx, va));
                    }
                }
            }
            let njobs = jobs.len();
            let jobs = &jobs;
            spread(&mut ctxs, njobs, |i| {
                let (m, idx, va) = jobs[i];
                let g = gen_search::GraphSpec { n: 3, vals: vec![(va % 3) as i64, (va / 3 % 3) as i64, (va / 9) as i64], edges: gen_search::seq_graph(3, m, idx) };
                let mut l = vec![format!("case {fl} v3n{m}e-{idx}-{va}")];
                l.extend(gen_search::graph_lines(&g));
                l.extend(gen_search::requests("C06", fl, &g, false, None));
                l
            });
            extra.insert(format!("values.{fl}.3n<={mmax}e"), format!("graphs x assignments={njobs}"));
        }
    }
    // comparison operators for all pairs of (key, value) combinations over small ranges
    if prop == "C06" {
        exec::new_section();
        let fls = flavours.clone();
        spread(&mut ctxs, fls.len(), |i| {
            let mut l = vec![format!("case {} cmp", fls[i])];
            for k1 in 0..3 {
                for v1 in -1..3 {
                    for k2 in 0..3 {
                        for v2 in -1..3 {
                            l.push(format!("cmp {k1} {v1} {k2} {v2}"));
                        }
                    }
                }
            }
            // Edge comparison (== on the endpoints, order on the value) over all pairs of iterated edges; Deref
            for k in 0..3 {
                l.push(format!("new {k} {}", k as i64 - 1));
            }
            for (u, v, e) in [(0, 1, 0), (0, 1, 2), (0, 2, 1), (1, 0, 1), (1, 2, 2), (2, 2, 0), (0, 1, 1)] {
                l.push(format!("connect {u} {v} {e}"));
            }
            for u in 0..3 {
                l.push(format!("nv {u}"));
                for i in 0..5 {
                    for v in 0..3 {
                        for j in 0..5 {
                            l.push(format!("ecmp {u} {i} {v} {j}"));
                        }
                    }
                }
            }
            l
        });
    }
    // seeded random graphs
    exec::new_section();
    let ngraphs = if quick { 300 } else { 4000 };
    let fls = flavours.clone();
    let p = prop.to_string();
    spread(&mut ctxs, ngraphs, |i| {
        let mut rng = Rng::new(seed.wrapping_mul(7_000_003).wrapping_add(i as u64));
        let fl = fls[i % fls.len()];
        let g = gen_search::random_graph(&mut rng, if i % 3 == 0 { 40 } else { 9 });
        let mut l = vec![format!("case {fl} r{i}")];
        l.extend(gen_search::graph_lines(&g));
        l.extend(gen_search::requests(&p, fl, &g, !quick, Some(&mut rng)));
        l
    });
    extra.insert("random.graphs".into(), format!("{ngraphs}"));
    {
        // large graphs (size thresholds of internal containers, deep recursion): a few requests each
        exec::new_section();
        let nbig = if quick { 4 } else { 24 };
        let fls = flavours.clone();
        let p = prop.to_string();
        spread(&mut ctxs, nbig, |i| {
            let mut rng = Rng::new(seed.wrapping_mul(7_000_061).wrapping_add(i as u64));
            let fl = fls[i % fls.len()];
            let n = 900 + rng.below(500);
            let mut edges = vec![];
            for u in 0..n {
                for _ in 0..1 + rng.below(3) {
                    let v = if rng.chance(70) { (u + 1 + rng.below(5)) % n } else { rng.below(n) };
                    edges.push((u, v, rng.below(4) as u32));
                }
            }
            let g = gen_search::GraphSpec { n, vals: (0..n).map(|_| rng.below(5) as i64).collect(), edges };
            let mut l = vec![format!("case {fl} big{i}")];
            l.extend(gen_search::graph_lines(&g));
            let mut small_rng = Rng::new(i as u64 + 11);
            let reqs = gen_search::requests(&p, fl, &g, false, Some(&mut small_rng));
            // a sample of the requests (every 5th), all of them would take the model too long
            l.extend(reqs.into_iter().enumerate().filter(|(j, _)| j % 5 == 0).map(|(_, r)| r).take(16));
            l
        });
        extra.insert("large".into(), format!("{nbig} graphs with 900-1400 nodes"));
        // deep graphs: one long chain closed back to its start, with a few extra edges near the far end
        // (recursion depth, cycles that close far from the root)
        exec::new_section();
        let ndeep = if quick { 8 } else { 24 };
        let fls = flavours.clone();
        let p = prop.to_string();
        spread(&mut ctxs, ndeep, |i| {
            let mut rng = Rng::new(seed.wrapping_mul(7_000_079).wrapping_add(i as u64));
            let fl = fls[(i + i / 4) % fls.len()];
            // every fourth chain is several thousand nodes long
            let n = if i % 4 == 3 { 4300 + rng.below(600) } else { 1100 + rng.below(500) };
            let mut edges: Vec<(usize, usize, u32)> = (0..n - 1).map(|u| (u, u + 1, (u % 3) as u32)).collect();
            let closing = n - 2 - rng.below(3);
            edges.push((closing, 0, 1));
            edges.push((closing, n - 1, 2));
            for _ in 0..4 {
                edges.push((n - 1 - rng.below(6), n - 1 - rng.below(40), 0));
            }
            let g = gen_search::GraphSpec { n, vals: (0..n).map(|k| (k % 4) as i64).collect(), edges };
            let mut l = vec![format!("case {fl} deep{i}")];
            l.extend(gen_search::graph_lines(&g));
            let kinds: Vec<&str> = match p.as_str() { "C04" => vec!["bfs"], "C05" => vec!["dfs"], "C06" => vec!["pfs-min", "pfs-max"], "C10" => vec![], _ => vec!["bfs", "dfs", "pfs-min"] };
            for k in &kinds {
                for m in ["none", "each"] {
                    if p == "C09" || p == "C07" || p == "C08" {
                        l.push(format!("search {k} fwd 0 - {m} cycle"));
                    }
                    if p != "C09" {
                        l.push(format!("search {k} fwd 0 {} {m} path", n - 1));
                        l.push(format!("search {k} fwd 0 {} {m} node", closing));
                    }
                }
            }
            if ["C07", "C08", "C10"].contains(&p.as_str()) {
                for k in ["pre", "post"] {
                    l.push(format!("order {k} fwd 0 none nodes"));
                    l.push(format!("order {k} fwd 0 each edges"));
                }
            }
            if fl == "di" || fl == "sdi" {
                if p == "C08" || p == "C09" {
                    l.push("search dfs tr 0 - none cycle".into());
                }
            }
            l
        });
        extra.insert("deep".into(), format!("{ndeep} closed chains of 1100-1600 nodes, every fourth of 4300-4900"));
        // node values with interior mutability that the closure changes while nodes are queued (the Dijkstra idiom):
        // judged by the statement alone (C07: exactly once for every edge leaving a reachable node), not modelled
        if prop == "C07" {
            exec::new_section();
            let npm = if quick { 400 } else { 6000 };
            let fls = flavours.clone();
            spread_with(&mut ctxs, npm, |i, ctx| {
                let fl = fls[i % fls.len()];
                let lines = vec![format!("case {fl} pm{i}"), format!("pfsmut {} min", 3 * i + 1), format!("pfsmut {} max", 3 * i + 2), format!("pfsmut {} min", 3 * i + 3)];
                let mut c = Ctx::default();
                c.oracles = vec!["c07".into()];
                exec::run_program(&lines, &mut c);
                ctx.side_prog.extend(lines.iter().cloned());
                if let Some(f) = c.fails.first() {
                    ctx.fail(&lines[0], f.line, "c07", f.msg.clone());
                    if let Some(f) = ctx.fails.last_mut() {
                        f.side = true;
                    }
                }
                ctx.count("mutable_priorities");
                ctx.count("cases");
            });
            extra.insert("mutable_priorities".into(), format!("{npm} cases x 3 priority-first traversals over node values the closure changes while nodes are queued (not modelled)"));
        }
        // a long-lived thread: the same long successful search again and again in one case on one thread (`hop=0`);
        // whatever a search leaves behind on its thread adds up
        if ["C04", "C05", "C06"].contains(&prop) {
            exec::new_section();
            let fls = flavours.clone();
            let p = prop.to_string();
            spread(&mut ctxs, fls.len(), |i| {
                let fl = fls[i];
                let n = 260;
                let edges: Vec<(usize, usize, u32)> = (0..n - 1).map(|u| (u, u + 1, (u % 3) as u32)).collect();
                let g = gen_search::GraphSpec { n, vals: (0..n).map(|k| (k % 4) as i64).collect(), edges };
                let mut l = vec![format!("case {fl} soak{i} hop=0")];
                l.extend(gen_search::graph_lines(&g));
                let kind = match p.as_str() { "C04" => "bfs", "C05" => "dfs", _ => "pfs-min" };
                for r in 0..160 {
                    if exec::is_directed(fl) && r % 2 == 1 {
                        l.push(format!("search {kind} tr {} 0 none path", n - 1));
                    } else {
                        l.push(format!("search {kind} fwd 0 {} none {}", n - 1, if r % 4 == 0 { "node" } else { "path" }));
                    }
                }
                l
            });
            extra.insert("soak".into(), "one case per flavour: 160 successful searches along a chain of 260 nodes on one thread".into());
        }
    }
    if ["C04", "C05", "C06", "C09", "C10"].contains(&prop) {
        // the same searches over nodes whose key type has colliding hashes (visited sets, lookups by key)
        exec::new_section();
        let nw = if quick { 120 } else { 1500 };
        let wfls: Vec<String> = flavours.iter().map(|f| format!("w{f}")).chain(flavours.iter().map(|f| format!("z{f}"))).collect();
        let p = prop.to_string();
        spread(&mut ctxs, nw, |i| {
            let mut rng = Rng::new(seed.wrapping_mul(7_000_033).wrapping_add(i as u64));
            let fl = &wfls[i % wfls.len()];
            let g = gen_search::random_graph(&mut rng, 8);
            let mut l = vec![format!("case {fl} wk{i}")];
            l.extend(gen_search::graph_lines(&g));
            let kinds: Vec<&str> = match p.as_str() { "C04" => vec!["bfs"], "C05" => vec!["dfs"], "C06" => vec!["pfs-min", "pfs-max"], _ => vec!["bfs", "dfs", "pfs-min", "pfs-max"] };
            for r in 0..g.n {
                if p == "C10" {
                    for k in ["pre", "post"] {
                        l.push(format!("order {k} fwd {r} none nodes"));
                        l.push(format!("order {k} fwd {r} none edges"));
                    }
                    continue;
                }
                for k in &kinds {
                    if p == "C09" {
                        l.push(format!("search {k} fwd {r} - none cycle"));
                    } else {
                        for t in 0..g.n {
                            l.push(format!("search {k} fwd {r} {t} none {}", if (r + t) % 2 == 0 { "path" } else { "node" }));
                        }
                    }
                }
            }
            if fl.starts_with('z') { gen_edge::zst(l) } else { l }
        });
        extra.insert("weak_hash_keys".into(), format!("{nw} graphs searched with colliding key hashes resp. zero-sized values"));
    }
    write_outputs(out, &ctxs, extra);
}

fn cont_props(prop: &str, tier: &str, seed: u64, threads: usize, out: &str) {
    let quick = tier == "quick";
    let oracle = prop.to_lowercase();
    let mut ctxs = new_ctxs(threads, &[oracle.as_str()]);
    let mut extra = BTreeMap::new();
    let all = vec!["di", "sdi", "un", "sun"];
    match prop {
        "C11" => {
            let fls = vec!["di", "sdi"];
            let n = if quick { 3 } else { 4 };
            let total = 1usize << (n * n);
            for fl in &fls {
                exec::new_section();
                spread(&mut ctxs, total, |i| {
                    let mut rng = Rng::new(seed.wrapping_mul(31).wrapping_add(i as u64));
                    gen_cont::scc_case(fl, &format!("b{n}-{i}"), &gen_cont::bitset_graph(n, i), &mut rng, 4)
                });
            }
            extra.insert(format!("enumerated.all_digraphs_on_{n}_nodes"), format!("{total} edge sets x 4 container instances x 2 flavours"));
            // smaller node counts completely as well
            for nn in 1..n {
                for fl in &fls {
                    exec::new_section();
                    spread(&mut ctxs, 1usize << (nn * nn), |i| {
                        let mut rng = Rng::new(seed.wrapping_mul(37).wrapping_add(i as u64));
                        gen_cont::scc_case(fl, &format!("b{nn}-{i}"), &gen_cont::bitset_graph(nn, i), &mut rng, 4)
                    });
                }
            }
            exec::new_section();
            let nr = if quick { 200 } else { 5000 };
            spread(&mut ctxs, nr, |i| {
                let mut rng = Rng::new(seed.wrapping_mul(41).wrapping_add(i as u64));
                let g = gen_search::random_graph(&mut rng, 30);
                gen_cont::scc_case(fls[i % 2], &format!("r{i}"), &g, &mut rng, 3)
            });
            extra.insert("random.graphs".into(), format!("{nr}"));
            // one container across graph changes: every digraph on <=3 nodes x every (removed edge, added edge) pair
            let nn = 3usize;
            let mut jobs: Vec<(usize, usize, (usize, usize))> = vec![];
            for idx in 0..(1usize << (nn * nn)) {
                let g = gen_cont::bitset_graph(nn, idx);
                for r in 0..g.edges.len() {
                    for a in 0..nn * nn {
                        if quick && (idx + r + a) % 3 != 0 {
                            continue;
                        }
                        jobs.push((idx, r, (a / nn, a % nn)));
                    }
                }
            }
            for fl in &fls {
                exec::new_section();
                let jobs = &jobs;
                spread(&mut ctxs, jobs.len(), |i| {
                    let (idx, r, add) = jobs[i];
                    gen_cont::scc_rewire_case(fl, &format!("w{idx}-{r}-{}{}", add.0, add.1), &gen_cont::bitset_graph(nn, idx), r, add)
                });
            }
            extra.insert("rewire".into(), format!("{} (graph on 3 nodes, removed edge, added edge) triples x 2 flavours: scc, move the edge, scc on the same container", jobs.len()));
            exec::new_section();
            let nh = if quick { 200 } else { 4000 };
            spread(&mut ctxs, nh, |i| {
                let mut rng = Rng::new(seed.wrapping_mul(61).wrapping_add(i as u64));
                let g = gen_search::random_graph(&mut rng, if i % 4 == 0 { 20 } else { 6 });
                gen_cont::scc_history_case(fls[i % 2], &format!("h{i}"), &g, &mut rng, 6)
            });
            extra.insert("histories".into(), format!("{nh} x 6 scc calls interleaved with reversals, moves, connects, disconnects, isolates"));
            // large containers (size thresholds, deep recursion): sparse random digraphs with local structure
            exec::new_section();
            let nbig = if quick { 2 } else { 12 };
            spread(&mut ctxs, nbig, |i| {
                let mut rng = Rng::new(seed.wrapping_mul(73).wrapping_add(i as u64));
                let n = 1100 + rng.below(600);
                let mut edges = vec![];
                for u in 0..n {
                    for _ in 0..rng.below(4) {
                        // mostly short-range edges in both directions (many small components and triangles), a few long ones
                        let v = if rng.chance(85) { (u + n + rng.below(7) - 3) % n } else { rng.below(n) };
                        edges.push((u, v, 0u32));
                    }
                }
                let g = gen_search::GraphSpec { n, vals: vec![0; n], edges };
                gen_cont::scc_case(fls[i % 2], &format!("big{i}"), &g, &mut rng, 1)
            });
            extra.insert("large".into(), format!("{nbig} digraphs with 1100-1700 nodes"));
            // containers over keys with colliding hashes
            exec::new_section();
            let nw = if quick { 150 } else { 3000 };
            spread(&mut ctxs, nw, |i| {
                let mut rng = Rng::new(seed.wrapping_mul(79).wrapping_add(i as u64));
                let g = gen_search::random_graph(&mut rng, 9);
                let fl = ["wdi", "wsdi", "zdi", "zsdi"][i % 4];
                let l = gen_cont::scc_case(fl, &format!("wk{i}"), &g, &mut rng, 3);
                if fl.starts_with('z') { gen_edge::zst(l) } else { l }
            });
            extra.insert("weak_hash_keys".into(), format!("{nw} graphs"));
        }
        "C12" => {
            let configs: Vec<(usize, usize)> = if quick { vec![(2, 3), (3, 2)] } else { vec![(2, 4), (3, 4)] };
            for fl in &all {
                for &(n, mmax) in &configs {
                    exec::new_section();
                    let mut jobs = vec![];
                    for m in 0..=mmax {
                        for idx in 0..gen_search::count_seqs(n, m) {
                            jobs.push((m, idx));
                        }
                    }
                    let jobs = &jobs;
                    spread(&mut ctxs, jobs.len(), |i| {
                        let (m, idx) = jobs[i];
                        let g = gen_search::GraphSpec { n, vals: (0..n).map(|k| (k as i64 * 7 + idx as i64) % 5 - 2).collect(), edges: gen_search::seq_graph(n, m, idx) };
                        gen_cont::serde_case(fl, &format!("s{n}n{m}e-{idx}"), &g)
                    });
                    extra.insert(format!("enumerated.{fl}.{n}n<={mmax}e"), format!("graphs={}", jobs.len()));
                }
            }
            exec::new_section();
            let nr = if quick { 100 } else { 5000 };
            spread(&mut ctxs, nr, |i| {
                let mut rng = Rng::new(seed.wrapping_mul(43).wrapping_add(i as u64));
                let g = gen_search::random_graph(&mut rng, 40);
                gen_cont::serde_case(all[i % 4], &format!("r{i}"), &g)
            });
            extra.insert("random.graphs".into(), format!("{nr}"));
            exec::new_section();
            let nh = if quick { 400 } else { 8000 };
            spread(&mut ctxs, nh, |i| {
                let mut rng = Rng::new(seed.wrapping_mul(71).wrapping_add(i as u64));
                let g = gen_search::random_graph(&mut rng, if i % 5 == 0 { 12 } else { 4 });
                let mut l = gen_cont::serde_history_case(all[i % 4], &format!("h{i}"), &g, &mut rng);
                // and a round trip over keys whose Display text and hashes collide (judged by the statement alone)
                l.push(format!("g.rtlossy 0 {}", i * 7 + 1));
                // ... and over node values that are changed in place between two serialisations
                l.push(format!("g.rtcell 0 {}", i + 1));
                // ... and documents with text keys (deserialised, serialised again and read back)
                if i % 3 != 1 {
                    let d = gen_cont::destr_case(&mut rng, all[i % 4], "x");
                    l.extend(d.into_iter().skip(1).take(4));
                }
                l
            });
            extra.insert("histories".into(), format!("{nh} graphs serialised after members were removed and inserted again"));
            // large documents (chunked or batched (de)serialisation): hundreds of edge records, long runs per source
            exec::new_section();
            let nlarge = if quick { 12 } else { 120 };
            spread(&mut ctxs, nlarge, |i| {
                let mut rng = Rng::new(seed.wrapping_mul(97).wrapping_add(i as u64));
                let n = 40 + rng.below(120);
                let m = [257, 300, 511, 513, 700, 1025][rng.below(6)] + rng.below(7);
                let mut edges = vec![];
                while edges.len() < m {
                    let u = rng.below(n);
                    // runs of consecutive records with one source, self-loops inside them
                    for _ in 0..1 + rng.below(12) {
                        let v = if rng.chance(12) { u } else { rng.below(n) };
                        edges.push((u, v, rng.below(5) as u32));
                    }
                }
                let g = gen_search::GraphSpec { n, vals: (0..n).map(|k| (k % 7) as i64 - 3).collect(), edges };
                gen_cont::serde_case(all[i % 4], &format!("big{i}"), &g)
            });
            extra.insert("large".into(), format!("{nlarge} graphs with 257-1030 edge records"));
        }
        "C13" => {
            // seed documents: small graphs (self-loops, parallel edges) ; all single structural mutations
            let nseeds = if quick { 20 } else { 200 };
            for fl in &all {
                exec::new_section();
                spread(&mut ctxs, nseeds, |i| {
                    let mut rng = Rng::new(seed.wrapping_mul(47).wrapping_add(i as u64));
                    let mut g = gen_search::random_graph(&mut rng, 4);
                    g.edges.truncate(5);
                    let docs = gen_cont::mutations(&g);
                    gen_cont::de_case(fl, &format!("m{i}"), &docs)
                });
            }
            exec::new_section();
            let nr = if quick { 2000 } else { 100_000 };
            spread(&mut ctxs, nr / 20, |i| {
                let mut rng = Rng::new(seed.wrapping_mul(53).wrapping_add(i as u64));
                let mut g = gen_search::random_graph(&mut rng, 5);
                g.edges.truncate(6);
                let base = gen_cont::mutations(&g)[0].clone();
                let docs: Vec<String> = (0..20).map(|_| gen_cont::random_mutation(&mut rng, &base)).collect();
                gen_cont::de_case(all[i % 4], &format!("x{i}"), &docs)
            });
            // documents with long runs of consecutive edges of one source, self-loops inside the runs (batched connects)
            exec::new_section();
            let nruns = if quick { 40 } else { 400 };
            spread(&mut ctxs, nruns, |i| {
                let mut rng = Rng::new(seed.wrapping_mul(101).wrapping_add(i as u64));
                let n = 2 + rng.below(6);
                let mut edges = vec![];
                for _ in 0..1 + rng.below(3) {
                    let u = rng.below(n);
                    for _ in 0..6 + rng.below(14) {
                        let v = if rng.chance(15) { u } else { rng.below(n) };
                        edges.push((u, v, rng.below(4) as u32));
                    }
                }
                if rng.chance(30) {
                    let k = rng.below(edges.len());
                    edges[k].1 = n + 5; // an undeclared key in the middle of a run
                }
                let g = gen_search::GraphSpec { n, vals: vec![1; n], edges };
                let (ns, es): (Vec<String>, Vec<String>) = ((0..g.n).map(|k| format!("[{k},{}]", g.vals[k])).collect(), g.edges.iter().map(|(u, v, e)| format!("[{u},{v},{e}]")).collect());
                let doc = format!("[[{}],[{}]]", ns.join(","), es.join(","));
                gen_cont::de_case(all[i % 4], &format!("run{i}"), &[doc])
            });
            extra.insert("long_runs".into(), format!("{nruns} documents with runs of 6-20 consecutive edges of one source"));
            // byte level: raw documents (JSON compared exactly with the byte-level model, CBOR for robustness)
            let nraw = if quick { 3 } else { 40 };
            let mut njson = 0usize;
            let mut ncbor = 0usize;
            for (fi, fl) in all.iter().enumerate() {
                exec::new_section();
                let per: Vec<(Vec<Vec<u8>>, Vec<Vec<u8>>)> = (0..nraw).map(|i| {
                    let mut rng = Rng::new(seed.wrapping_mul(59).wrapping_add((i * 4 + fi) as u64));
                    let mut g = gen_search::random_graph(&mut rng, if i == 0 { 2 } else { 4 });
                    g.edges.truncate(if i == 0 { 2 } else { 4 });
                    if i == 1 { g.vals[0] = -3; if let Some(e) = g.edges.first_mut() { e.2 = 4_000_000_000; } }
                    let base = gen_cont::mutations(&g)[0].clone();
                    let mut js = gen_cont::json_raw_mutations(&base);
                    let mut cb = gen_cont::cbor_raw_mutations(&g);
                    let cbase = cb[0].clone();
                    for _ in 0..(if quick { 200 } else { 2000 }) {
                        js.push(gen_cont::random_raw_mutation(&mut rng, base.as_bytes(), b"[]{},:0123456789-.\"eE+ \n\txtfn\x00\xff"));
                        cb.push(gen_cont::random_raw_mutation(&mut rng, &cbase, &[0x00, 0x01, 0x17, 0x18, 0x19, 0x1a, 0x1b, 0x1f, 0x20, 0x38, 0x3b, 0x40, 0x5f, 0x60, 0x80, 0x82, 0x83, 0x9b, 0x9f, 0xa0, 0xbb, 0xc0, 0xc2, 0xf4, 0xf6, 0xf9, 0xfb, 0xff]));
                    }
                    (js, cb)
                }).collect();
                njson += per.iter().map(|p| p.0.len()).sum::<usize>();
                ncbor += per.iter().map(|p| p.1.len()).sum::<usize>();
                let per = &per;
                spread(&mut ctxs, nraw * 2, |j| {
                    let (i, which) = (j / 2, j % 2);
                    if which == 0 { gen_cont::deraw_case(fl, &format!("rj{i}"), "json", &per[i].0) } else { gen_cont::deraw_case(fl, &format!("rc{i}"), "cbor", &per[i].1) }
                });
            }
            // the container with text keys (judged by the statement alone, not modelled)
            exec::new_section();
            let nstr = if quick { 200 } else { 4000 };
            spread(&mut ctxs, nstr, |i| {
                let mut rng = Rng::new(seed.wrapping_mul(67).wrapping_add(i as u64));
                let mut l = gen_cont::destr_case(&mut rng, all[i % 4], &format!("str{i}"));
                // documents of a container whose node values are themselves graphs of the same flavour
                l.push(format!("g.denest 0 {}", i + 1));
                l
            });
            extra.insert("text_keys".into(), format!("{} documents of Graph<String, i64, u32> (empty, long and non-ASCII keys; half with an undeclared key), JSON and CBOR", nstr * 6));
            extra.insert("raw_bytes".into(), format!("json documents (exact, byte-level model): {njson}; cbor documents (robustness): {ncbor}; single-edit classes: white space/number literal/punctuation/truncation/trailing for JSON, every item header x (boundary arguments, widths, major types, indefinite, reserved, tags) for CBOR, plus random byte edits"));
            extra.insert("mutations".into(), format!("structural: {nseeds} seeds x 4 flavours x 2 formats; random: {nr}"));
        }
        _ => {
            // containers that are the only owner of connected nodes: what remove() hands back (ownership histories)
            exec::new_section();
            let nown = if quick { 200 } else { 3000 };
            spread_with(&mut ctxs, nown, |i, ctx| {
                let mut rng = Rng::new(seed.wrapping_mul(103).wrapping_add(i as u64));
                let nn = 2 + rng.below(4);
                let lines = exec_own::gen_history(&mut rng, all[i % 4], &format!("own{i}"), nn, 70);
                exec_own::run_program(&lines, ctx);
                ctx.count("cases");
            });
            extra.insert("sole_owner".into(), format!("{nown} ownership histories (containers as the only owner of connected nodes; remove hands the node back)"));
            // containers over keys with colliding hashes (the subset of the requests the w* executor has)
            exec::new_section();
            let nw = if quick { 120 } else { 2000 };
            spread(&mut ctxs, nw, |i| {
                let mut rng = Rng::new(seed.wrapping_mul(83).wrapping_add(i as u64));
                let fl = ["wdi", "wsdi", "wun", "wsun", "zdi", "zsdi", "zun", "zsun"][i % 8];
                let nk = 2 + rng.below(7);
                let mut l = gen_cont::cont_history(&mut rng, &fl[1..], &format!("wk{i}"), nk, 80);
                l[0] = format!("case {fl} wk{i}");
                let keep = ["new ", "connect ", "disconnect ", "isolate ", "dump", "g.new ", "g.newcap ", "g.insert ", "g.remove ", "g.get ", "g.contains ", "g.len ", "g.is_empty ", "g.to_vec ", "g.iter ", "g.roots ", "g.leaves ", "g.orphans ", "case "];
                l.retain(|x| keep.iter().any(|k| x.starts_with(k)));
                if fl.starts_with('z') { gen_edge::zst(l) } else { l }
            });
            extra.insert("weak_hash_keys".into(), format!("{nw} container histories"));
            // C18: exhaustive histories over a small alphabet, random histories
            let (len, keys) = if quick { (3usize, 2usize) } else { (4, 2) };
            for fl in &all {
                exec::new_section();
                let alpha = gen_cont::cont_alphabet(fl, keys);
                let total = alpha.len().pow(len as u32);
                let alpha = &alpha;
                spread(&mut ctxs, total, |i| {
                    let mut l = vec![format!("case {fl} h{len}-{i}")];
                    for k in 0..keys {
                        l.push(format!("new {k} {}", k as i64 + 3));
                    }
                    l.push("g.new 0".into());
                    let mut x = i;
                    for _ in 0..len {
                        l.push(alpha[x % alpha.len()].clone());
                        x /= alpha.len();
                    }
                    l.push("g.iter 0".into());
                    l.push("dump".into());
                    l
                });
                extra.insert(format!("enumerated.{fl}"), format!("histories of {len} calls over an alphabet of {} = {total}", alpha.len()));
            }
            exec::new_section();
            let (nh, nc) = if quick { (100, 100) } else { (2000, 200) };
            spread(&mut ctxs, nh, |i| {
                let mut rng = Rng::new(seed.wrapping_mul(59).wrapping_add(i as u64));
                { let nk = 2 + rng.below(5); gen_cont::cont_history(&mut rng, all[i % 4], &format!("r{i}"), nk, nc) }
            });
            extra.insert("random.histories".into(), format!("{nh} x {nc} calls"));
        }
    }
    write_outputs(out, &ctxs, extra);
}

fn own_props(tier: &str, seed: u64, threads: usize, out: &str) {
    let quick = tier == "quick";
    let mut ctxs = new_ctxs(threads, &["c19"]);
    let all = ["di", "sdi", "un", "sun"];
    let (nh, nc) = if quick { (400, 60) } else { (10000, 80) };
    exec::new_section();
    let n = ctxs.len();
    std::thread::scope(|s| {
        for (t, ctx) in ctxs.iter_mut().enumerate() {
            s.spawn(move || {
                let mut i = t;
                while i < nh && !exec::stopped() {
                    let mut rng = Rng::new(seed.wrapping_mul(61).wrapping_add(i as u64));
                    let nn = 1 + rng.below(if i % 4 == 0 { 2 } else { 5 });
                    let lines = exec_own::gen_history(&mut rng, all[i % 4], &format!("o{i}"), nn, nc);
                    if ctx.samples.len() < 2 {
                        ctx.samples.push(lines.iter().take(16).cloned().collect::<Vec<_>>().join(" ; "));
                    }
                    exec_own::run_program(&lines, ctx);
                    ctx.count("cases");
                    i += n;
                }
            });
        }
    });
    let mut extra = BTreeMap::new();
    extra.insert("random.histories".into(), format!("{nh} x ~{nc} calls"));
    // structure at scale: caterpillars with targeted searches that stop early
    exec::new_section();
    let ncat = if quick { 32 } else { 128 };
    spread_with(&mut ctxs, ncat, |i, ctx| {
        let mut rng = Rng::new(seed.wrapping_mul(113).wrapping_add(i as u64));
        let lines = exec_own::gen_caterpillar_case(&mut rng, all[i % 4], &format!("cat{i}"), 44 + 4 * (i % 3));
        exec_own::run_program(&lines, ctx);
        ctx.count("cases");
    });
    extra.insert("caterpillars".into(), format!("{ncat} caterpillars of 132-156 nodes with targeted searches that stop early"));
    // traversals whose closure drops the last owner of a node that the traversal has discovered or is about to
    exec::new_section();
    let nwalk = if quick { 1600 } else { 20000 };
    spread_with(&mut ctxs, nwalk, |i, ctx| {
        let mut rng = Rng::new(seed.wrapping_mul(109).wrapping_add(i as u64));
        let lines = exec_own::gen_walk_case(&mut rng, ["di", "sdi", "un", "sun"][i % 4], &format!("walk{i}"));
        exec_own::run_program(&lines, ctx);
        ctx.count("cases");
    });
    extra.insert("closure_drops_owner".into(), format!("{nwalk} histories: a container is the only owner of connected members; a traversal's closure takes one out, isolates and drops it"));
    write_outputs(out, &ctxs, extra);
}

/// canonical form of an observation for the plain-vs-sync differential: results that come out of a
/// hash map are compared up to container order
fn canon_c15(req: &str, out: &str, relaxed_dump: bool) -> String {
    let sort_list = |s: &str| -> String {
        let inner = s.trim_start_matches('[').trim_end_matches(']');
        let mut v: Vec<&str> = if inner.is_empty() { vec![] } else { inner.split(',').collect() };
        v.sort();
        format!("[{}]", v.join(","))
    };
    let head = req.split(' ').next().unwrap_or("");
    match head {
        "lt" => String::new(), // lock traces exist in the sync member only
        "g.to_vec" | "g.roots" | "g.leaves" | "g.orphans" | "g.iter" => sort_list(out),
        "g.scc" => {
            let inner = out.trim_start_matches('[').trim_end_matches(']');
            let mut comps: Vec<String> = inner.split("],[").filter(|x| !x.is_empty()).map(|c| sort_list(c)).collect();
            comps.sort();
            comps.join(";")
        }
        "g.to_dot" | "g.to_dot_attr" => {
            // statements as a set; with the stateful callbacks (table 3) the number a statement carries follows the
            // container's iteration order, so only the multiset of numbers per kind of statement is compared
            let stateful = head == "g.to_dot_attr" && req.split(' ').nth(2) == Some("3");
            let mut v: Vec<String> = out.split('|').map(|x| x.to_string()).collect();
            if stateful {
                let mut nums: Vec<String> = vec![];
                for x in v.iter_mut() {
                    if let Some((h, a)) = x.clone().rsplit_once(" [") {
                        nums.push(format!("{}{}", if h.contains("->") { "e" } else { "n" }, a));
                        *x = h.to_string();
                    }
                }
                nums.sort();
                v.extend(nums);
            }
            v.sort();
            v.join("|")
        }
        "g.ser" | "g.serraw" => match serde_json::from_str::<(Vec<(usize, i64)>, Vec<(usize, usize, u32)>)>(out) {
            Ok((mut n, mut e)) => {
                n.sort();
                e.sort();
                format!("{:?}{:?}", n, e)
            }
            Err(_) => match serde_cbor::from_slice::<(Vec<(usize, i64)>, Vec<(usize, usize, u32)>)>(&exec_cont::unhex(out)) {
                Ok((mut n, mut e)) if out.starts_with('x') => {
                    n.sort();
                    e.sort();
                    format!("{:?}{:?}", n, e)
                }
                _ => out.to_string(),
            },
        },
        "dump" if relaxed_dump => {
            let mut v: Vec<String> = out
                .split(' ')
                .map(|ent| match ent.split_once('/') {
                    Some((o, i)) => format!("{o}/{}", sort_list(i)),
                    None => match ent.split_once(':') {
                        Some((k, l)) => format!("{k}:{}", sort_list(l)),
                        None => ent.to_string(),
                    },
                })
                .collect();
            v.sort();
            v.join(" ")
        }
        _ => out.to_string(),
    }
}

/// C15: every generated program is run on both members of a pair; the two implementation streams are
/// compared directly (no model involved), and both are also compared with the model by the check
fn c15_props(tier: &str, seed: u64, threads: usize, out: &str) {
    let quick = tier == "quick";
    let mut ctxs = new_ctxs(threads, &["c15"]);
    let mut extra = BTreeMap::new();
    let n = if quick { 600 } else { 12000 };
    exec::new_section();
    let nt = ctxs.len();
    std::thread::scope(|s| {
        for (t, ctx) in ctxs.iter_mut().enumerate() {
            std::thread::Builder::new()
                .stack_size(256 << 20)
                .spawn_scoped(s, move || {
                    let mut i = t;
                    while i < n && !exec::stopped() {
                        let mut rng = Rng::new(seed.wrapping_mul(71).wrapping_add(i as u64));
                        let (a, b) = if i % 2 == 0 { ("di", "sdi") } else { ("un", "sun") };
                        let kind = (i / 2) % 8;
                        let id = format!("p{i}");
                        let lines: Vec<String> = match kind {
                            0 => { let nn = 1 + rng.below(6); gen_edge::random_history(&mut rng, a, &id, nn, if quick { 80 } else { 200 }, true) }
                            1 | 2 | 3 | 4 => {
                                let g = gen_search::random_graph(&mut rng, if kind == 1 { 25 } else { 7 });
                                let mut l = vec![format!("case {a} {id}")];
                                l.extend(gen_search::graph_lines(&g));
                                let p = ["C07", "C08", "C09", "C10"][kind - 1];
                                l.extend(gen_search::requests(p, a, &g, false, Some(&mut rng)));
                                l.extend(gen_search::requests("C06", a, &g, false, Some(&mut rng)).into_iter().take(40));
                                l.push("cmp 1 2 1 3".into());
                                l.push("cmp 1 2 2 2".into());
                                for _ in 0..6 {
                                    l.push(format!("ecmp {} {} {} {}", rng.below(g.n), rng.below(3), rng.below(g.n), rng.below(3)));
                                    l.push(format!("nv {}", rng.below(g.n)));
                                    l.push(format!("sz {}", rng.below(g.n)));
                                }
                                l
                            }
                            5 => { let nk = 2 + rng.below(5); gen_cont::cont_history(&mut rng, a, &id, nk, 60) }
                            6 => {
                                let g = gen_search::random_graph(&mut rng, 12);
                                if a == "di" { gen_cont::scc_case(a, &id, &g, &mut rng, 2) } else { gen_cont::serde_case(a, &id, &g) }
                            }
                            _ => {
                                let g = gen_search::random_graph(&mut rng, 10);
                                gen_cont::serde_case(a, &id, &g)
                            }
                        };
                        // calls that exist in only one member of a pair are outside "calls common to both"
                        let lines: Vec<String> = lines.into_iter().filter(|l| !(a == "un" && (l.starts_with("g.to_dot_attr") || l.contains(" default ")))).collect();
                        // single-threaded lock traces of the sync member (compared with the lock programs of the model only)
                        let lines: Vec<String> = if kind == 0 {
                            lines.into_iter().flat_map(|l| {
                                let is_op = l.starts_with("connect ") || l.starts_with("try_connect ") || l.starts_with("disconnect ") || l.starts_with("isolate ");
                                if is_op { vec![l, "lt".to_string()] } else { vec![l] }
                            }).collect()
                        } else { lines };
                        let relaxed = lines.iter().any(|l| l.starts_with("g.roundtrip") || l.starts_with("g.de"));
                        let start_a = ctx.outs.len();
                        exec::run_program(&lines, ctx);
                        let end_a = ctx.outs.len();
                        let mut lines_b = lines.clone();
                        lines_b[0] = format!("case {b} {id}");
                        exec::run_program(&lines_b, ctx);
                        let end_b = ctx.outs.len();
                        let (oa, ob) = (ctx.outs[start_a..end_a].to_vec(), ctx.outs[end_a..end_b].to_vec());
                        let pa = ctx.prog[start_a..end_a].to_vec();
                        for j in 0..oa.len().max(ob.len()) {
                            let (x, y) = (oa.get(j).cloned().unwrap_or("<missing>".into()), ob.get(j).cloned().unwrap_or("<missing>".into()));
                            let req = pa.get(j).cloned().unwrap_or_default();
                            if x == "unsupported" || y == "unsupported" {
                                continue; // API of one member only: outside "calls common to both"
                            }
                            if canon_c15(&req, &x, relaxed) != canon_c15(&req, &y, relaxed) {
                                ctx.fail(&lines[0], j.saturating_sub(1), "c15", format!("`{}`: {a} gives `{}` but {b} gives `{}`", req, x, y));
                                break;
                            }
                        }
                        ctx.count(&format!("pairs.kind{kind}"));
                        ctx.count("cases");
                        if ctx.samples.len() < 2 {
                            ctx.samples.push(lines.iter().take(12).cloned().collect::<Vec<_>>().join(" ; "));
                        }
                        i += nt;
                    }
                })
                .unwrap();
        }
    });
    extra.insert("programs".into(), format!("{n} programs, each run on both members of its pair (edge histories with handle provenance, all traversal configurations, containers, scc, DOT, serde round trips, comparisons)"));
    // two live node objects with one key: compared between the two implementations only (nodes are keys in the model)
    exec::new_section();
    let ntw = if quick { 300 } else { 6000 };
    spread_with(&mut ctxs, ntw, |i, ctx| {
        let mut rng = Rng::new(seed.wrapping_mul(89).wrapping_add(i as u64));
        let (a, b) = if i % 2 == 0 { ("di", "sdi") } else { ("un", "sun") };
        let id = format!("tw{i}");
        let nn = 3 + rng.below(if i % 3 == 0 { 20 } else { 5 });
        let lines = gen_edge::twin_history(&mut rng, a, &id, nn, if quick { 90 } else { 160 });
        let mut lines_b = lines.clone();
        lines_b[0] = format!("case {b} {id}");
        let mut ca = Ctx::default();
        let mut cb = Ctx::default();
        exec::run_program(&lines, &mut ca);
        exec::run_program(&lines_b, &mut cb);
        ctx.side_prog.extend(lines.iter().cloned());
        for j in 0..ca.outs.len().max(cb.outs.len()) {
            let (x, y) = (ca.outs.get(j).cloned().unwrap_or("<missing>".into()), cb.outs.get(j).cloned().unwrap_or("<missing>".into()));
            if x != y {
                let req = ca.prog.get(j).cloned().unwrap_or_default();
                ctx.fail(&lines[0], j.saturating_sub(1), "c15", format!("(two node objects with one key) `{}`: {a} gives `{}` but {b} gives `{}`", req, x, y));
                if let Some(f) = ctx.fails.last_mut() {
                    f.side = true;
                }
                break;
            }
        }
        ctx.count("pairs.twins");
        ctx.count("cases");
    });
    extra.insert("twins".into(), format!("{ntw} histories with two live node objects of one key, run on both members of a pair (differential only)"));
    // ownership histories: the executor holds exactly the handles the program says (containers as the only owner of
    // connected nodes, nodes taken back out of them, handles dropped early); what is released when, the degrees seen
    // through surviving handles and what results keep alive must not depend on the member of the pair
    exec::new_section();
    let nown = if quick { 300 } else { 6000 };
    spread_with(&mut ctxs, nown, |i, ctx| {
        let mut rng = Rng::new(seed.wrapping_mul(101).wrapping_add(i as u64));
        let (a, b) = if i % 2 == 0 { ("di", "sdi") } else { ("un", "sun") };
        let id = format!("ow{i}");
        let nn = 2 + rng.below(4);
        let lines = if i % 3 == 0 { exec_own::gen_walk_case(&mut rng, a, &id) } else { exec_own::gen_history(&mut rng, a, &id, nn, if quick { 60 } else { 90 }) };
        let mut lines_b = lines.clone();
        lines_b[0] = format!("case {b} {id}");
        let mut ca = Ctx::default();
        let mut cb = Ctx::default();
        exec_own::run_program(&lines, &mut ca);
        exec_own::run_program(&lines_b, &mut cb);
        ctx.side_prog.extend(lines.iter().cloned());
        for j in 0..ca.outs.len().max(cb.outs.len()) {
            let (x, y) = (ca.outs.get(j).cloned().unwrap_or("<missing>".into()), cb.outs.get(j).cloned().unwrap_or("<missing>".into()));
            if x != y {
                let req = ca.prog.get(j).cloned().unwrap_or_default();
                ctx.fail(&lines[0], j.saturating_sub(1), "c15", format!("(ownership history) `{}`: {a} gives `{}` but {b} gives `{}`", req, x, y));
                if let Some(f) = ctx.fails.last_mut() {
                    f.side = true;
                }
                break;
            }
        }
        ctx.count("pairs.ownership");
        ctx.count("cases");
    });
    extra.insert("ownership".into(), format!("{nown} ownership histories run on both members of a pair (differential only)"));
    // edge loops whose body mutates, next to a second iterator that was stepped once (or sent past the end) and is
    // drained afterwards: the same yields and the same remainder in both members of a pair
    exec::new_section();
    let nll = if quick { 400 } else { 8000 };
    spread_with(&mut ctxs, nll, |i, ctx| {
        let mut rng = Rng::new(seed.wrapping_mul(137).wrapping_add(i as u64));
        let (a, b) = if i % 2 == 0 { ("di", "sdi") } else { ("un", "sun") };
        let nn = 2 + rng.below(4);
        let ncalls = 8 + rng.below(16);
        let mut lines = gen_edge::random_history(&mut rng, a, &format!("ll{i}"), nn, ncalls, false);
        lines.retain(|x| !x.starts_with("sz ") && !x.starts_with("ecmp ") && !x.starts_with("lt"));
        lines.push("g.new 0".into());
        for _ in 0..1 + rng.below(3) {
            let u = rng.below(nn);
            let which = if a == "di" { ["out", "in"][rng.below(2)] } else { "adj" };
            let (x, y) = (if rng.chance(70) { u } else { rng.below(nn) }, if rng.chance(30) { u } else { rng.below(nn) });
            let op = match rng.below(5) { 0 | 1 => format!("c.{x}.{y}.{}", rng.below(3)), 2 => format!("d.{x}.{y}"), 3 => format!("t.{x}.{y}.1"), _ => format!("x.{y}") };
            lines.push(format!("iter {which} {u} {}={op}{}", rng.below(3), ["", " fold", " over", " fold over"][rng.below(4)]));
            lines.push("dump".into());
        }
        let mut lines_b = lines.clone();
        lines_b[0] = format!("case {b} ll{i}");
        let mut ca = Ctx::default();
        let mut cb = Ctx::default();
        exec::run_program(&lines, &mut ca);
        exec::run_program(&lines_b, &mut cb);
        ctx.side_prog.extend(lines.iter().cloned());
        for j in 0..ca.outs.len().max(cb.outs.len()) {
            let (x, y) = (ca.outs.get(j).cloned().unwrap_or("<missing>".into()), cb.outs.get(j).cloned().unwrap_or("<missing>".into()));
            if x != y {
                let req = ca.prog.get(j).cloned().unwrap_or_default();
                ctx.fail(&lines[0], j.saturating_sub(1), "c15", format!("(edge loop with a suspended second iterator) `{}`: {a} gives `{}` but {b} gives `{}`", req, x, y));
                if let Some(f) = ctx.fails.last_mut() {
                    f.side = true;
                }
                break;
            }
        }
        ctx.count("pairs.live_loops");
        ctx.count("cases");
    });
    extra.insert("live_loops".into(), format!("{nll} histories with edge loops whose body mutates and a suspended second iterator, run on both members of a pair"));
    // priority-first traversals over node values that the closure changes while nodes are queued
    exec::new_section();
    let npm = if quick { 300 } else { 6000 };
    spread_with(&mut ctxs, npm, |i, ctx| {
        let (a, b) = if i % 2 == 0 { ("di", "sdi") } else { ("un", "sun") };
        let lines = vec![format!("case {a} pm{i}"), format!("pfsmut {} min", 3 * i + 1), format!("pfsmut {} max", 3 * i + 2), format!("pfsmut {} min", 3 * i + 3)];
        let mut lines_b = lines.clone();
        lines_b[0] = format!("case {b} pm{i}");
        let mut ca = Ctx::default();
        let mut cb = Ctx::default();
        exec::run_program(&lines, &mut ca);
        exec::run_program(&lines_b, &mut cb);
        ctx.side_prog.extend(lines.iter().cloned());
        for j in 0..ca.outs.len().max(cb.outs.len()) {
            let (x, y) = (ca.outs.get(j).cloned().unwrap_or("<missing>".into()), cb.outs.get(j).cloned().unwrap_or("<missing>".into()));
            if x != y {
                let req = ca.prog.get(j).cloned().unwrap_or_default();
                ctx.fail(&lines[0], j.saturating_sub(1), "c15", format!("(node values changed by the closure) `{}`: {a} gives `{}` but {b} gives `{}`", req, x, y));
                if let Some(f) = ctx.fails.last_mut() {
                    f.side = true;
                }
                break;
            }
        }
        ctx.count("pairs.mutable_priorities");
        ctx.count("cases");
    });
    extra.insert("mutable_priorities".into(), format!("{npm} x 3 priority-first traversals over node values the closure changes, run on both members of a pair"));
    write_outputs(out, &ctxs, extra);
}

/// C20: every script of length 1 at every step of every loop kind on small graphs (sampled in the quick
/// tier), scripts that keep adding edges for a bounded number of steps, random scripts on larger graphs
fn live_props(tier: &str, seed: u64, threads: usize, out: &str) {
    let quick = tier == "quick";
    let mut ctxs = new_ctxs(threads, &["c20", "mirror"]);
    let mut extra = BTreeMap::new();
    let all = ["di", "sdi", "un", "sun"];
    let (n, mmax) = if quick { (2usize, 2usize) } else { (2, 3) };
    let alpha = gen_live::op_alphabet(n);
    for fl in all {
        exec::new_section();
        let kinds = gen_live::loop_kinds(fl);
        let mut jobs: Vec<(usize, usize, usize, usize, usize, usize)> = vec![];
        for m in 0..=mmax {
            for idx in 0..gen_search::count_seqs(n, m) {
                for k in 0..kinds.len() {
                    for root in 0..n {
                        for step in 0..3 {
                            for op in 0..alpha.len() {
                                jobs.push((m, idx, k, root, step, op));
                            }
                        }
                    }
                }
            }
        }
        let total = jobs.len();
        // the quick tier takes every 6th job (rotated by the seed); the thorough tier all of them
        let stride = if quick { 6 } else { 1 };
        let sel: Vec<(usize, usize, usize, usize, usize, usize)> = jobs.into_iter().enumerate().filter(|(i, _)| (i + seed as usize) % stride == 0).map(|(_, j)| j).collect();
        let sel = &sel;
        let kinds = &kinds;
        let alpha = &alpha;
        spread(&mut ctxs, sel.len(), |i| {
            let (m, idx, k, root, step, op) = sel[i];
            let g = gen_search::GraphSpec { n, vals: (0..n).map(|x| ((idx + x) % 3) as i64).collect(), edges: gen_search::seq_graph(n, m, idx) };
            gen_live::live_case(fl, &format!("l{i}"), &g, &kinds[k], root, if op % 2 == 0 { None } else { Some((root + 1) % n) }, &format!("{step}={}", alpha[op]), op % 3 == 0)
        });
        extra.insert(format!("enumerated.{fl}"), format!("{} of {total} (graph, loop kind, root, step, operation) combinations on {n} nodes / <={mmax} edges", sel.len()));
        // scripts that add edges for a bounded number of steps: the loop must still end
        exec::new_section();
        let nb = if quick { 200 } else { 2000 };
        spread(&mut ctxs, nb, |i| {
            let mut rng = Rng::new(seed.wrapping_mul(73).wrapping_add(i as u64));
            let g = gen_search::random_graph(&mut rng, 4);
            let kinds = gen_live::loop_kinds(fl);
            let root = rng.below(g.n);
            let k = &kinds[rng.below(kinds.len())];
            let script = format!("*{}=c.{root}.{}.7{}", 1 + rng.below(5), rng.below(g.n), if rng.chance(40) { format!("/c.{}.{root}.6", rng.below(g.n)) } else { String::new() });
            gen_live::live_case(fl, &format!("a{i}"), &g, k, root, None, &script, false)
        });
    }
    exec::new_section();
    let nr = if quick { 800 } else { 20000 };
    spread(&mut ctxs, nr, |i| {
        let mut rng = Rng::new(seed.wrapping_mul(79).wrapping_add(i as u64));
        let fl = all[i % 4];
        let g = gen_search::random_graph(&mut rng, 7);
        let kinds = gen_live::loop_kinds(fl);
        let root = rng.below(g.n);
        let k = kinds[rng.below(kinds.len())].clone();
        let script = gen_live::random_script(&mut rng, g.n);
        let tg = if rng.chance(40) { Some(rng.below(g.n)) } else { None };
        gen_live::live_case(fl, &format!("r{i}"), &g, &k, root, tg, &script, rng.chance(30))
    });
    extra.insert("random".into(), format!("{nr} loops with random scripts of 1-3 entries on graphs up to 7 nodes"));
    // rewiring from inside the closure: at one step one edge is added and another removed (degrees stay similar),
    // every (graph on 3 nodes with <= 2 edges, depth-first kind, root, step, added edge, removed edge) combination
    let mut jobs: Vec<(usize, usize, usize, usize, usize, usize, usize)> = vec![];
    for m in 1..=2usize {
        for idx in 0..gen_search::count_seqs(3, m) {
            for kind in 0..4usize {
                for root in 0..3usize {
                    for step in 0..2usize {
                        for add in 0..9usize {
                            for del in 0..9usize {
                                if quick && (idx + kind + root + step + add + del) % 3 != 0 {
                                    continue;
                                }
                                jobs.push((m, idx, kind, root, step * 9 * 9 + add * 9 + del, 0, 0));
                            }
                        }
                    }
                }
            }
        }
    }
    for fl in &all {
        exec::new_section();
        let jobs = &jobs;
        let directed = *fl == "di" || *fl == "sdi";
        spread(&mut ctxs, jobs.len(), |i| {
            let (m, idx, kind, root, code, _, _) = jobs[i];
            let (step, add, del) = (code / 81, code / 9 % 9, code % 9);
            let g = gen_search::GraphSpec { n: 3, vals: vec![0, 1, 2], edges: gen_search::seq_graph(3, m, idx) };
            let k = if directed { ["order pre fwd", "order post fwd", "search dfs fwd", "order pre tr"][kind] } else { ["order pre fwd", "order post fwd", "search dfs fwd", "search bfs fwd"][kind] };
            let script = format!("{step}=c.{}.{}.9/d.{}.{}", add / 3, add % 3, del / 3, del % 3);
            gen_live::live_case(fl, &format!("w{i}"), &g, k, root, None, &script, false)
        });
    }
    extra.insert("rewire".into(), format!("{} (graph, kind, root, step, added edge, removed edge) combinations per flavour on 3 nodes", jobs.len()));
    // traversals whose closure drops the last owner of a node that the traversal has discovered or is about to
    exec::new_section();
    let nwalk = if quick { 1600 } else { 20000 };
    spread_with(&mut ctxs, nwalk, |i, ctx| {
        let mut rng = Rng::new(seed.wrapping_mul(109).wrapping_add(i as u64));
        let lines = exec_own::gen_walk_case(&mut rng, ["di", "sdi", "un", "sun"][i % 4], &format!("walk{i}"));
        exec_own::run_program(&lines, ctx);
        ctx.count("cases");
    });
    extra.insert("closure_drops_owner".into(), format!("{nwalk} histories: a container is the only owner of connected members; a traversal's closure takes one out, isolates and drops it"));
    write_outputs(out, &ctxs, extra);
}

/// C17: every schedule of every scenario (exhaustive depth-first over the decision points)
fn conc_props(tier: &str, seed: u64, out: &str) {
    let quick = tier == "quick";
    // the scheduler is a process-wide singleton: scenarios run one after the other in one context
    let mut ctxs = new_ctxs(1, &["c17"]);
    let ctx = &mut ctxs[0];
    let mut extra = BTreeMap::new();
    let inits: Vec<(&str, Vec<String>)> = vec![
        ("empty", vec![]),
        ("u->v", vec!["connect 0 1 7".into()]),
        ("u<->v", vec!["connect 0 1 7".into(), "connect 1 0 8".into()]),
        ("loop+par", vec!["connect 0 0 5".into(), "connect 0 1 7".into(), "connect 0 1 9".into()]),
    ];
    // mutators on the pair (0, 1) in both directions (two connects of the same ordered pair carry different values),
    // and on node 0 alone (self-loops)
    let muts = ["c.0.1.1", "c.0.1.5", "c.1.0.2", "t.0.1.3", "t.1.0.4", "d.0.1", "d.1.0", "x.0", "x.1", "c.0.0.6", "t.0.0.7", "d.0.0"];
    // readers: queries, whole iterations, and traversals (B/D = bfs/dfs search, T = transposed bfs, P = preorder)
    let reads_di = ["q.0.1", "g.0", "o.1", "i.0", "i.1", "n.1", "r.1", "l.0", "f.1.0", "F.0.1", "B.0.1", "D.1.0", "T.1.0", "P.0"];
    let reads_un = ["q.0.1", "g.0", "o.1", "i.0", "i.1", "F.1.0", "B.0.1", "D.1.0", "P.1"];
    let build = |reads: &[&str]| -> Vec<(String, Vec<String>, String)> {
    let mut scenarios: Vec<(String, Vec<String>, String)> = vec![];
    for (iname, init) in inits.iter().take(if quick { 3 } else { 4 }) {
        for a in 0..muts.len() {
            for b in a..muts.len() {
                scenarios.push((format!("{iname}:{}||{}", muts[a], muts[b]), init.clone(), format!("{}|{}", muts[a], muts[b])));
            }
            for r in reads {
                scenarios.push((format!("{iname}:{}||{}", muts[a], r), init.clone(), format!("{}|{}", muts[a], r)));
            }
        }
        // three nodes: the middle node of a chain is isolated / re-linked while its neighbours' edges change
        if *iname == "u->v" {
            for (a, b) in [("x.1", "c.1.2.3"), ("x.1", "c.2.1.3"), ("x.1", "d.0.1"), ("t.0.2.5", "x.2"), ("d.0.1", "t.1.2.4"), ("x.1", "B.0.2"), ("c.2.0.1", "P.0")] {
                let mut init3 = vec!["new 2 0".to_string()];
                init3.extend(init.iter().cloned());
                init3.push("connect 1 2 4".into());
                scenarios.push((format!("{iname}+1->2:{a}||{b}"), init3, format!("{a}|{b}")));
            }
        }
        // node lifetime: a thread makes a node of its own, connects it, disconnects it again and drops its only handle
        // while another thread iterates or traverses the node it was attached to
        for life in ["m.2.0/c.0.2.1/d.0.2/k.2", "m.2.0/c.2.0.1/d.2.0/k.2", "m.2.0/c.0.2.1/x.2/k.2"] {
            for r in ["i.0", "P.0", "B.0.1", "g.0"] {
                scenarios.push((format!("{iname}:{r}||{life}"), init.clone(), format!("{r}|{life}")));
            }
        }
        if !quick {
            // three threads, and two calls per thread
            let mut rng = Rng::new(seed.wrapping_mul(67));
            for _ in 0..12 {
                let pick = |rng: &mut Rng| -> String { if rng.chance(75) { muts[rng.below(muts.len())].to_string() } else { reads[rng.below(reads.len())].to_string() } };
                let t3 = format!("{}|{}|{}", pick(&mut rng), pick(&mut rng), pick(&mut rng));
                scenarios.push((format!("{iname}:{t3}"), init.clone(), t3));
                let t2 = format!("{}/{}|{}/{}", pick(&mut rng), pick(&mut rng), pick(&mut rng), pick(&mut rng));
                scenarios.push((format!("{iname}:{t2}"), init.clone(), t2));
            }
        }
    }
    scenarios
    };
    let cap = if quick { 3000 } else { 6000 };
    let mut total = 0usize;
    let mut per_fl: BTreeMap<String, usize> = BTreeMap::new();
    let mut nscen = 0usize;
    for fl in ["sdi", "sun"] {
        exec::new_section();
        let scenarios = build(if fl == "sdi" { &reads_di } else { &reads_un });
        nscen = nscen.max(scenarios.len());
        for (name, init, spec) in &scenarios {
            if exec::stopped() {
                break;
            }
            let mut prefix: Vec<String> = vec!["new 0 0".into(), "new 1 0".into()];
            prefix.extend(init.iter().cloned());
            let threads = exec_conc::parse_threads(spec);
            let seq = if fl == "sdi" { exec_conc::sdi::sequential_outcomes(&prefix, &threads) } else { exec_conc::sun::sequential_outcomes(&prefix, &threads) };
            let mut forced: Vec<usize> = vec![];
            let mut runs = 0usize;
            loop {
                let mut lines = vec![format!("case {fl} k{total}")];
                lines.extend(prefix.iter().cloned());
                lines.push(format!("conc {spec}"));
                ctx.forced_schedule = forced.clone();
                ctx.last_outcome = None;
                exec::run_program(&lines, ctx);
                runs += 1;
                total += 1;
                if let Some(o) = ctx.last_outcome.take() {
                    let bad = o.1 == "POISONED" || o.0.iter().flatten().any(|r| r == "PANIC" || r == "DEADLOCK" || r == "?");
                    if !bad && !seq.contains(&o) {
                        let kind = if seq.iter().any(|s| s.1 == o.1) { "wrong-return" } else { "torn-state" };
                        let n = ctx.prog.len();
                        ctx.fail(&format!("case {fl} k{}", total - 1), prefix.len(), "c17", format!("{kind}: scenario {name}: results {:?} and final state [{}] equal no sequential order of the calls (sequential outcomes: {:?})", o.0, o.1, seq));
                        let _ = n;
                    }
                }
                match sched::next_schedule(&ctx.last_decisions) {
                    Some(s) if runs < cap => forced = s,
                    _ => break,
                }
            }
            *per_fl.entry(fl.to_string()).or_insert(0) += runs;
            ctx.count("scenarios");
        }
    }
    // large hubs (degree thresholds inside mutators): the schedule space cannot be enumerated, so the second thread is
    // let in at every k-th decision of the first (one preemption, then it runs to completion): `@sched=` ids are forced
    let mut nlarge = 0usize;
    for fl in ["sdi", "sun"] {
        exec::new_section();
        let hubdeg = 70usize;
        let mut prefix: Vec<String> = (0..hubdeg + 4).map(|k| format!("new {k} 0")).collect();
        for k in 1..=hubdeg {
            // half of the edges are created from the hub, half towards it
            prefix.push(if k % 2 == 0 { format!("connect 0 {k} {}", k % 3) } else { format!("connect {k} 0 {}", k % 3) });
        }
        let other = hubdeg + 1;
        let specs = [format!("x.0|c.0.{other}.5/d.0.3"), format!("x.0|c.{other}.0.5/d.4.0"), format!("x.0|t.0.{other}.5/x.2"), format!("d.0.2/x.0|c.{other}.0.1/c.0.{other}.2")];
        for spec in specs.iter().take(if quick { 2 } else { 4 }) {
            if exec::stopped() {
                break;
            }
            let threads = exec_conc::parse_threads(spec);
            let seq = if fl == "sdi" { exec_conc::sdi::sequential_outcomes(&prefix, &threads) } else { exec_conc::sun::sequential_outcomes(&prefix, &threads) };
            let step = if quick { 3 } else { 1 };
            let mut k = 0usize;
            while k < 330 && !exec::stopped() {
                let ids: Vec<String> = std::iter::repeat("0".to_string()).take(k).chain(std::iter::repeat("1".to_string()).take(60)).chain(std::iter::repeat("0".to_string()).take(400)).collect();
                let mut lines = vec![format!("case {fl} L{total}")];
                lines.extend(prefix.iter().cloned());
                lines.push(format!("conc {spec} @sched={}", ids.join(",")));
                ctx.forced_schedule = vec![];
                ctx.last_outcome = None;
                exec::run_program(&lines, ctx);
                total += 1;
                nlarge += 1;
                if let Some(o) = ctx.last_outcome.take() {
                    let bad = o.1 == "POISONED" || o.0.iter().flatten().any(|r| r == "PANIC" || r == "DEADLOCK" || r == "?");
                    if !bad && !seq.contains(&o) {
                        ctx.fail(&format!("case {fl} L{}", total - 1), prefix.len(), "c17", format!("scenario on a hub of degree {hubdeg} `{spec}`, second thread let in after {k} decisions: results {:?} and the final state equal no sequential order of the calls", o.0));
                    }
                }
                k += step;
            }
        }
    }
    extra.insert("large_hubs".into(), format!("{nlarge} schedules (one preemption point each) on a hub of degree 70"));
    for (k, v) in per_fl {
        extra.insert(format!("schedules.{k}"), format!("{v}"));
    }
    extra.insert("scenarios".into(), format!("up to {} per flavour (every pair of the 11 mutators on two nodes (self-loop mutators included), every mutator against every reader (14 directed / 9 undirected, traversals included), x initial states{})", nscen, if quick { "" } else { "; plus 3-thread and 2-calls-per-thread scenarios" }));
    ctx.counters.insert("cases".into(), total as u64);
    write_outputs(out, &ctxs, extra);
}

fn main() {
    if std::env::var("VERIF_DEBUG").is_err() {
        std::panic::set_hook(Box::new(|_| {}));
    }
    hook::install_sequential();
    let args: Vec<String> = std::env::args().collect();
    let cmd = args.get(1).map(|s| s.as_str()).unwrap_or("");
    let threads: usize = arg(&args, "--threads", "16").parse().unwrap();
    let seed: u64 = arg(&args, "--seed", "1").parse().unwrap();
    let tier = arg(&args, "--tier", "quick");
    let out = arg(&args, "--out", "/verif/work/tmp");
    match cmd {
        "run" => {
            let _ = exec::INFLIGHT_DIR.set(out.clone());
            exec::start_watchdog(std::env::var("VERIF_CASE_LIMIT_S").ok().and_then(|x| x.parse().ok()).unwrap_or(120));
            let prop = arg(&args, "--prop", "");
            match prop.as_str() {
                "C01" | "C02" | "C03" => edge_props(&prop, &tier, seed, threads, &out),
                "C19" => own_props(&tier, seed, threads, &out),
                "C17" => conc_props(&tier, seed, &out),
                "C15" => c15_props(&tier, seed, threads, &out),
                "C20" => live_props(&tier, seed, threads, &out),
                "C11" | "C12" | "C13" | "C18" => cont_props(&prop, &tier, seed, threads, &out),
                "C04" | "C05" | "C06" | "C07" | "C08" | "C09" | "C10" => search_props(&prop, &tier, seed, threads, &out),
                _ => {
                    eprintln!("unknown property {prop}");
                    std::process::exit(2)
                }
            }
        }
        "replay" => {
            // executes program files with every oracle on; writes outputs like `run`
            let oracles = arg(&args, "--oracles", "mirror,contract,nopanic");
            let oracles = if oracles.is_empty() { "none".to_string() } else { oracles };
            let files: Vec<String> = args.iter().skip(2).filter(|a| a.ends_with(".prog")).cloned().collect();
            let mut ctxs = new_ctxs(1, &oracles.split(',').collect::<Vec<_>>());
            for f in files {
                let text = std::fs::read_to_string(&f).expect("program file");
                let lines: Vec<String> = text.lines().filter(|l| !l.trim().is_empty() && !l.starts_with("--")).map(|l| l.to_string()).collect();
                if lines.iter().any(|l| l.starts_with("own.")) {
                    exec_own::run_program(&lines, &mut ctxs[0]);
                } else {
                    exec::run_program(&lines, &mut ctxs[0]);
                }
            }
            write_outputs(&out, &ctxs, BTreeMap::new());
        }
        _ => {
            eprintln!("usage: harness run --prop Cxx --tier quick|thorough --seed N --threads T --out DIR | replay --out DIR files.prog");
            std::process::exit(2)
        }
    }
}

//! Generators for containers, scc, serde (C11, C12, C13, C18).
use crate::exec::is_directed;
use crate::gen_search::{graph_lines, random_graph, seq_graph, GraphSpec};
use crate::rng::Rng;

fn shuffled(rng: &mut Rng, n: usize) -> Vec<usize> {
    let mut v: Vec<usize> = (0..n).collect();
    for i in (1..n).rev() {
        v.swap(i, rng.below(i + 1));
    }
    v
}

/// C11: one graph, several container instances (fresh hash state each) and insertion orders
pub fn scc_case(fl: &str, id: &str, g: &GraphSpec, rng: &mut Rng, instances: usize) -> Vec<String> {
    let mut l = vec![format!("case {fl} {id}")];
    l.extend(graph_lines(g));
    for i in 0..instances {
        l.push(format!("g.new {i}"));
        let order: Vec<usize> = match i {
            0 => (0..g.n).collect(),
            1 => (0..g.n).rev().collect(),
            _ => shuffled(rng, g.n),
        };
        for k in order {
            l.push(format!("g.insert {i} {k}"));
        }
        l.push(format!("g.scc {i}"));
    }
    l
}

/// C11 on one container across graph changes: scc, then an edge is moved (removed here, added there) through
/// node handles, scc again - the container itself is not touched between the two calls
pub fn scc_rewire_case(fl: &str, id: &str, g: &GraphSpec, remove: usize, add: (usize, usize)) -> Vec<String> {
    let mut l = vec![format!("case {fl} {id}")];
    l.extend(graph_lines(g));
    l.push("g.new 0".into());
    for k in 0..g.n {
        l.push(format!("g.insert 0 {k}"));
    }
    l.push("g.scc 0".into());
    let (u, v, _) = g.edges[remove];
    l.push(format!("disconnect {u} {v}"));
    l.push(format!("connect {} {} 0", add.0, add.1));
    l.push("g.scc 0".into());
    l
}

/// C11: a history of scc calls interleaved with edge operations and member changes on one container
pub fn scc_history_case(fl: &str, id: &str, g: &GraphSpec, rng: &mut Rng, steps: usize) -> Vec<String> {
    let mut l = vec![format!("case {fl} {id}")];
    l.extend(graph_lines(g));
    l.push("g.new 0".into());
    for k in shuffled(rng, g.n) {
        l.push(format!("g.insert 0 {k}"));
    }
    l.push("g.scc 0".into());
    let mut edges: Vec<(usize, usize)> = g.edges.iter().map(|e| (e.0, e.1)).collect();
    // membership changes too: a member is isolated and removed, a removed node comes back (the precondition of the
    // property - every neighbour of a member is a member - holds at every `g.scc`)
    let mut members: Vec<usize> = (0..g.n).collect();
    let mut outside: Vec<usize> = vec![];
    for _ in 0..steps {
        for _ in 0..1 + rng.below(3) {
            let pick = |rng: &mut Rng, m: &Vec<usize>| -> usize { m[rng.below(m.len())] };
            match rng.below(9) {
                0 | 1 if !edges.is_empty() => {
                    // reverse an edge (same node and edge counts)
                    let i = rng.below(edges.len());
                    let (u, v) = edges.remove(i);
                    l.push(format!("disconnect {u} {v}"));
                    l.push(format!("connect {v} {u} 0"));
                    edges.push((v, u));
                }
                2 if !edges.is_empty() && !members.is_empty() => {
                    let i = rng.below(edges.len());
                    let (u, v) = edges.remove(i);
                    l.push(format!("disconnect {u} {v}"));
                    let (a, b) = (pick(rng, &members), pick(rng, &members));
                    l.push(format!("connect {a} {b} 0"));
                    edges.push((a, b));
                }
                3 if !members.is_empty() => {
                    let (a, b) = (pick(rng, &members), pick(rng, &members));
                    l.push(format!("connect {a} {b} 0"));
                    edges.push((a, b));
                }
                5 if !members.is_empty() => {
                    // try_connect, refused when the edge is there (often followed by the removal of that edge)
                    let (a, b) = if !edges.is_empty() && rng.chance(60) { edges[rng.below(edges.len())] } else { (pick(rng, &members), pick(rng, &members)) };
                    l.push(format!("try_connect {a} {b} 0"));
                    if let Some(i) = edges.iter().position(|e| *e == (a, b)) {
                        if rng.chance(60) {
                            edges.remove(i);
                            l.push(format!("disconnect {a} {b}"));
                        }
                    } else {
                        edges.push((a, b));
                    }
                }
                4 if !edges.is_empty() => {
                    let i = rng.below(edges.len());
                    let (u, v) = edges.remove(i);
                    l.push(format!("disconnect {u} {v}"));
                }
                6 | 7 if members.len() > 1 => {
                    let i = rng.below(members.len());
                    let k = members.remove(i);
                    l.push(format!("isolate {k}"));
                    edges.retain(|e| e.0 != k && e.1 != k);
                    l.push(format!("g.remove 0 {k}"));
                    outside.push(k);
                }
                8 if !outside.is_empty() => {
                    let i = rng.below(outside.len());
                    let k = outside.remove(i);
                    l.push(format!("g.insert 0 {k}"));
                    members.push(k);
                }
                _ if !members.is_empty() => {
                    let k = pick(rng, &members);
                    l.push(format!("isolate {k}"));
                    edges.retain(|e| e.0 != k && e.1 != k);
                }
                _ => {}
            }
        }
        l.push("g.scc 0".into());
    }
    l
}

/// the `idx`-th directed graph on n nodes as an edge set (bit u*n+v), loops included
pub fn bitset_graph(n: usize, idx: usize) -> GraphSpec {
    let mut edges = vec![];
    for u in 0..n {
        for v in 0..n {
            if idx >> (u * n + v) & 1 == 1 {
                edges.push((u, v, 0));
            }
        }
    }
    GraphSpec { n, vals: vec![0; n], edges }
}

/// C12 after a container history: members are removed and inserted again (same handle), also interleaved with other
/// inserts, before the graph is serialised - whatever the container remembers about its past must not show
pub fn serde_history_case(fl: &str, id: &str, g: &GraphSpec, rng: &mut Rng) -> Vec<String> {
    let mut l = vec![format!("case {fl} {id}")];
    l.extend(graph_lines(g));
    // the graph that is serialised has an edge history too: removals (which half of an undirected edge sits in which
    // list is visible to the serialiser only), edges re-made from the other end, refused and accepted try_connects
    let dir = is_directed(fl);
    let mut cur: Vec<(usize, usize)> = g.edges.iter().map(|e| (e.0, e.1)).collect();
    if g.n > 0 {
        for _ in 0..rng.below(7) {
            let (u, v) = if !g.edges.is_empty() && rng.chance(70) {
                let e = g.edges[rng.below(g.edges.len())];
                if rng.chance(50) { (e.0, e.1) } else { (e.1, e.0) }
            } else {
                (rng.below(g.n), rng.below(g.n))
            };
            let has = |cur: &Vec<(usize, usize)>, u: usize, v: usize| cur.iter().position(|e| (e.0 == u && e.1 == v) || (!dir && e.0 == v && e.1 == u));
            match rng.below(10) {
                0..=3 => {
                    l.push(format!("disconnect {u} {v}"));
                    if let Some(i) = has(&cur, u, v) {
                        cur.remove(i);
                    }
                }
                4..=6 => {
                    l.push(format!("connect {u} {v} {}", rng.below(2)));
                    cur.push((u, v));
                }
                7..=8 => {
                    l.push(format!("try_connect {u} {v} {}", rng.below(2)));
                    if has(&cur, u, v).is_none() {
                        cur.push((u, v));
                    }
                }
                _ => {
                    l.push(format!("isolate {u}"));
                    cur.retain(|e| e.0 != u && e.1 != u);
                }
            }
        }
    }
    l.push("g.new 0".into());
    // sometimes the container holds only what is reachable from one node (closed under outgoing edges; which edge
    // removal hits which of several parallel edges does not matter for reachability): non-members may point into it
    let mut inside: Vec<usize> = (0..g.n).collect();
    if g.n > 1 && rng.chance(50) {
        // prefer a start node whose closure leaves somebody outside who points into it
        for r in shuffled(rng, g.n) {
            let mut seen = vec![r];
            let mut i = 0;
            while i < seen.len() {
                let u = seen[i];
                for e in &cur {
                    let w = if e.0 == u { Some(e.1) } else if !dir && e.1 == u { Some(e.0) } else { None };
                    if let Some(w) = w {
                        if !seen.contains(&w) {
                            seen.push(w);
                        }
                    }
                }
                i += 1;
            }
            let pointed_at = cur.iter().any(|e| !seen.contains(&e.0) && seen.contains(&e.1));
            if seen.len() < g.n && (pointed_at || !dir) {
                inside = seen;
                break;
            }
        }
    }
    let order: Vec<usize> = shuffled(rng, g.n).into_iter().filter(|k| inside.contains(k)).collect();
    for &k in &order {
        l.push(format!("g.insert 0 {k}"));
    }
    for _ in 0..1 + rng.below(3) {
        let k = inside[rng.below(inside.len())];
        l.push(format!("g.remove 0 {k}"));
        if rng.chance(30) {
            let k2 = inside[rng.below(inside.len())];
            l.push(format!("g.remove 0 {k2}"));
            l.push(format!("g.insert 0 {k2}"));
        }
        l.push(format!("g.insert 0 {k}"));
        if rng.chance(30) {
            l.push(format!("g.insert 0 {k}"));
        }
    }
    // sometimes a document that is rejected half-way (a good edge record, then one naming an undeclared key) comes first:
    // what a failed deserialisation leaves behind must not reach the round trip that follows on the same thread
    if rng.chance(30) {
        l.push(format!("g.de 1 {} [[[0,1],[1,1]],[[0,1,5],[1,0,6],[0,7,1]]]", if rng.chance(50) { "json" } else { "cbor" }));
    }
    // (a successful round trip replaces the world, so the second format sees the output of the first: either order)
    for fmt in if rng.chance(50) { ["json", "cbor"] } else { ["cbor", "json"] } {
        l.push(format!("g.ser 0 {fmt}"));
        l.push(format!("g.serraw 0 {fmt}"));
        l.push(format!("g.roundtrip 0 {fmt}"));
        l.push("dump".into());
        l.push("g.iter 0".into());
    }
    l
}

/// C12: serialise / round-trip through both formats, then observe everything
pub fn serde_case(fl: &str, id: &str, g: &GraphSpec) -> Vec<String> {
    let mut l = vec![format!("case {fl} {id}")];
    l.extend(graph_lines(g));
    l.push("g.new 0".into());
    for k in 0..g.n {
        l.push(format!("g.insert 0 {k}"));
    }
    for fmt in if (g.n + g.edges.len()) % 2 == 0 { ["json", "cbor"] } else { ["cbor", "json"] } {
        l.push(format!("g.ser 0 {fmt}"));
        l.push(format!("g.serraw 0 {fmt}"));
        l.push(format!("g.roundtrip 0 {fmt}"));
        l.push("dump".into());
        l.push("g.iter 0".into());
        l.push("g.len 0".into());
    }
    l
}

fn doc_of(g: &GraphSpec) -> (Vec<String>, Vec<String>) {
    ((0..g.n).map(|k| format!("[{k},{}]", g.vals[k])).collect(), g.edges.iter().map(|(u, v, e)| format!("[{u},{v},{e}]")).collect())
}
fn doc_text(ns: &[String], es: &[String]) -> String {
    format!("[[{}],[{}]]", ns.join(","), es.join(","))
}

/// C13: every single structural mutation of a valid document
pub fn mutations(g: &GraphSpec) -> Vec<String> {
    let (ns, es) = doc_of(g);
    let mut docs = vec![doc_text(&ns, &es)];
    let undeclared = g.n + 3;
    for i in 0..ns.len() {
        // drop / duplicate (same and different value) a node
        let mut a = ns.clone();
        a.remove(i);
        docs.push(doc_text(&a, &es));
        let mut b = ns.clone();
        b.insert(i, ns[i].clone());
        docs.push(doc_text(&b, &es));
        let mut c = ns.clone();
        c.push(format!("[{i},77]"));
        docs.push(doc_text(&c, &es));
        for bad in ["[\"x\",1]", "[1.5,1]", "[-1,0]", "null", "[1]", "[1,2,3]", "[1,\"v\"]", "{\"k\":1}", "[[1],2]", "7"] {
            let mut d = ns.clone();
            d[i] = bad.to_string();
            docs.push(doc_text(&d, &es));
        }
    }
    for i in 0..es.len() {
        let mut a = es.clone();
        a.remove(i);
        docs.push(doc_text(&ns, &a));
        let mut b = es.clone();
        b.insert(i, es[i].clone());
        docs.push(doc_text(&ns, &b));
        let (u, v, e) = g.edges[i];
        for re in [format!("[{undeclared},{v},{e}]"), format!("[{u},{undeclared},{e}]"), format!("[{undeclared},{undeclared},{e}]")] {
            let mut c = es.clone();
            c[i] = re;
            docs.push(doc_text(&ns, &c));
        }
        for bad in ["[0,0]", "[0,0,0,0]", "[\"a\",0,0]", "[0,0,-1]", "[0,0,4294967296]", "[0.0,0,0]", "null", "{}", "[[0],0,0]"] {
            let mut d = es.clone();
            d[i] = bad.to_string();
            docs.push(doc_text(&ns, &d));
        }
    }
    // truncations and wrong shapes
    docs.push("[]".into());
    docs.push(format!("[[{}]]", ns.join(",")));
    docs.push(format!("[[{}],[{}],[]]", ns.join(","), es.join(",")));
    docs.push(format!("[[{}],[{}],1,2]", ns.join(","), es.join(",")));
    docs.push(format!("[[{}]", ns.join(",")));
    docs.push(format!("[[{}],[{}", ns.join(","), es.join(",")));
    docs.push(format!("{{\"nodes\":[{}],\"edges\":[{}]}}", ns.join(","), es.join(",")));
    docs.push("null".into());
    docs.push("7".into());
    docs.push("\"graph\"".into());
    docs.push("true".into());
    docs.push(format!("[[{}],null]", ns.join(",")));
    docs.push(format!("[null,[{}]]", es.join(",")));
    docs.push(format!("[[{}],7]", ns.join(",")));
    docs.push(format!("[[],[{}]]", es.join(",")));
    docs.push("[[[0,0],[0,1],[0,2]],[[0,0,1],[0,0,2]]]".into());
    docs
}

pub fn random_mutation(rng: &mut Rng, doc: &str) -> String {
    let mut b: Vec<u8> = doc.bytes().collect();
    let n = 1 + rng.below(3);
    for _ in 0..n {
        if b.is_empty() {
            break;
        }
        let i = rng.below(b.len());
        match rng.below(5) {
            0 => {
                b.remove(i);
            }
            1 => { let a = b"[]{},:0123456789-.\"en"; b.insert(i, a[rng.below(a.len())]) }
            2 => { let a = b"[]{},:0123456789-.\"tfn"; b[i] = a[rng.below(a.len())] }
            3 => {
                let j = rng.below(b.len());
                b.swap(i, j);
            }
            _ => b.truncate(i),
        }
    }
    String::from_utf8_lossy(&b).replace(' ', "").replace('#', "").replace('@', "").replace('\n', "")
}

pub fn de_case(fl: &str, id: &str, docs: &[String]) -> Vec<String> {
    // every document starts from a fresh case (a successful deserialisation replaces the world)
    let mut l = vec![];
    for (i, d) in docs.iter().enumerate() {
        if d.is_empty() {
            continue;
        }
        for fmt in ["json", "cbor"] {
            l.push(format!("case {fl} {id}-{i}-{fmt}"));
            l.push(format!("g.de 0 {fmt} {d}"));
            l.push("dump".into());
            l.push("g.iter 0".into());
        }
    }
    l
}

/// C18: a history of container calls interleaved with edge operations
pub fn cont_history(rng: &mut Rng, fl: &str, id: &str, nkeys: usize, ncalls: usize) -> Vec<String> {
    let directed = is_directed(fl);
    let mut l = vec![format!("case {fl} {id}")];
    for k in 0..nkeys {
        l.push(format!("new {k} {}", rng.below(5) as i64 - 1));
    }
    l.push(if rng.chance(30) { format!("g.newcap 0 {}", rng.below(9)) } else { "g.new 0".into() });
    // a second container holds some of the same nodes: whatever is done through one is visible through the other
    l.push("g.new 1".into());
    let mut members_of: Vec<Vec<usize>> = vec![vec![], vec![]];
    for _ in 0..ncalls {
        let k = rng.below(nkeys);
        let r = rng.below(100);
        let gs = if rng.chance(25) { 1 } else { 0 };
        let members = &mut members_of[gs];
        if r < 18 {
            l.push(format!("g.insert {gs} {k}"));
            if !members.contains(&k) {
                members.push(k);
            }
        } else if r < 24 {
            l.push(format!("g.insert_dup {gs} {k} {}", 50 + rng.below(5)));
        } else if r < 32 {
            l.push(format!("g.remove {gs} {k}"));
            members.retain(|x| *x != k);
        } else if r < 40 {
            l.push(format!("g.get {gs} {k}"));
        } else if r < 45 {
            if members.contains(&k) || rng.chance(4) {
                l.push(format!("g.index {gs} {k}"));
            }
        } else if r < 50 {
            l.push(format!("g.contains {gs} {k}"));
        } else if r < 54 {
            l.push(format!("g.len {gs}"));
            l.push(format!("g.is_empty {gs}"));
        } else if r < 60 {
            l.push(format!("g.to_vec {gs}"));
        } else if r < 64 {
            l.push(format!("g.iter {gs}"));
        } else if r < 72 {
            if directed {
                l.push(format!("{} {gs}", ["g.roots", "g.leaves", "g.orphans"][rng.below(3)]));
            } else {
                l.push(format!("g.orphans {gs}"));
            }
        } else if r < 80 {
            let v = rng.below(nkeys);
            if members.contains(&k) && members.contains(&v) {
                l.push(format!("g.connect {gs} {k} {v} {}", rng.below(4)));
                l.push("dump".into());
            } else {
                l.push(format!("connect {k} {v} {}", rng.below(4)));
            }
        } else if r < 85 {
            l.push(format!("disconnect {k} {}", rng.below(nkeys)));
        } else if r < 88 {
            l.push(format!("isolate {k}"));
        } else if r < 90 {
            l.push(format!("g.sz {gs}"));
            l.push(format!("sz {k}"));
        } else if r < 94 {
            l.push(format!("g.to_dot {gs}"));
        } else {
            l.push(format!("g.to_dot_attr {gs} {}", rng.below(4)));
        }
    }
    l.push("dump".into());
    l.push("g.iter 0".into());
    l.push("g.iter 1".into());
    l
}

/// the op alphabet of the exhaustive C18 histories over `nkeys` keys
pub fn cont_alphabet(fl: &str, nkeys: usize) -> Vec<String> {
    let mut a = vec![];
    for k in 0..nkeys {
        a.push(format!("g.insert 0 {k}"));
        a.push(format!("g.remove 0 {k}"));
        a.push(format!("g.get 0 {k}"));
        a.push(format!("g.insert_dup 0 {k} 9"));
        for v in 0..nkeys {
            a.push(format!("connect {k} {v} 1"));
        }
    }
    a.push("g.to_vec 0".into());
    a.push("g.len 0".into());
    a.push(if is_directed(fl) { "g.roots 0".into() } else { "g.orphans 0".into() });
    a.push("g.to_dot 0".into());
    a
}

// ------------------------------------------------------------------------------------------------
// C13, byte level: documents handed to the real deserialisers as raw bytes (`g.deraw`)

fn number_spans(b: &[u8]) -> Vec<(usize, usize)> {
    let mut v = vec![];
    let mut i = 0;
    while i < b.len() {
        if b[i] == b'-' || b[i].is_ascii_digit() {
            let s = i;
            i += 1;
            while i < b.len() && b[i].is_ascii_digit() {
                i += 1;
            }
            v.push((s, i));
        } else {
            i += 1;
        }
    }
    v
}

/// every single byte-level edit of a class that matters to a JSON reader, applied to a valid document
pub fn json_raw_mutations(base: &str) -> Vec<Vec<u8>> {
    let b = base.as_bytes();
    let mut docs: Vec<Vec<u8>> = vec![b.to_vec()];
    let splice = |s: usize, e: usize, with: &[u8]| -> Vec<u8> {
        let mut d = b[..s].to_vec();
        d.extend_from_slice(with);
        d.extend_from_slice(&b[e..]);
        d
    };
    // white space (and things that are not white space) in every gap
    for i in 0..=b.len() {
        for w in [&b" "[..], b"\n", b"\t", b"\r", b" \n\t\r ", b"\x0c", b"\x0b", b"\x00", b"\xa0", b"\xff", b"/**/", b"//\n"] {
            docs.push(splice(i, i, w));
        }
    }
    // number literals
    let lits: [&[u8]; 34] = [b"00", b"01", b"-0", b"-1", b"-", b"--1", b"1.0", b"1.", b".1", b"1e0", b"1E2", b"1e-1", b"+1", b"0x1", b"1_0",
        b"18446744073709551615", b"18446744073709551616", b"9223372036854775807", b"9223372036854775808", b"-9223372036854775808",
        b"-9223372036854775809", b"4294967295", b"4294967296", b"340282366920938463463374607431768211456", b"1 2", b"", b"\"1\"", b"true", b"null", b"[1]", b"{}", b"NaN", b"Infinity", b"1e400"];
    for (s, e) in number_spans(b) {
        for l in lits {
            docs.push(splice(s, e, l));
        }
    }
    // punctuation: delete, double, replace
    for i in 0..b.len() {
        if b"[],".contains(&b[i]) {
            docs.push(splice(i, i + 1, b""));
            docs.push(splice(i, i, &b[i..i + 1]));
            for r in b"[]{},:()<>;\"'" {
                if *r != b[i] {
                    docs.push(splice(i, i + 1, &[*r]));
                }
            }
        }
    }
    // truncations, trailing and leading material
    for i in 0..b.len() {
        docs.push(b[..i].to_vec());
    }
    for t in [&b"x"[..], b"]", b"[", b",", b"0", b" ", b"\n", b"\x00", b"[]", b"null", b",[]", b"\xef\xbb\xbf"] {
        docs.push(splice(b.len(), b.len(), t));
        docs.push(splice(0, 0, t));
    }
    // a third element, nested wrappers
    docs.push(splice(b.len() - 1, b.len() - 1, b",[]"));
    docs.push(splice(b.len() - 1, b.len() - 1, b",0"));
    let mut w = b"[".to_vec();
    w.extend_from_slice(b);
    w.push(b']');
    docs.push(w);
    docs
}

pub fn random_raw_mutation(rng: &mut Rng, doc: &[u8], alphabet: &[u8]) -> Vec<u8> {
    let mut b = doc.to_vec();
    for _ in 0..1 + rng.below(3) {
        if b.is_empty() {
            break;
        }
        let i = rng.below(b.len());
        match rng.below(6) {
            0 => {
                b.remove(i);
            }
            1 => b.insert(i, alphabet[rng.below(alphabet.len())]),
            2 => b[i] = alphabet[rng.below(alphabet.len())],
            3 => {
                let j = rng.below(b.len());
                b.swap(i, j);
            }
            4 => b[i] ^= 1 << rng.below(8),
            _ => b.truncate(i),
        }
    }
    b
}

/// minimal CBOR writer that remembers where every item header sits: (offset, header length, major, argument)
pub struct Cbor {
    pub bytes: Vec<u8>,
    pub heads: Vec<(usize, usize, u8, u64)>,
}
pub fn cbor_head(major: u8, arg: u64, width: u8) -> Vec<u8> {
    // width: 0 = shortest, 1/2/4/8 = forced argument width
    let m = major << 5;
    let w = if width == 0 { if arg < 24 { 0 } else if arg < 1 << 8 { 1 } else if arg < 1 << 16 { 2 } else if arg < 1 << 32 { 4 } else { 8 } } else { width };
    match w {
        0 => vec![m | arg as u8],
        1 => vec![m | 24, arg as u8],
        2 => { let mut v = vec![m | 25]; v.extend_from_slice(&(arg as u16).to_be_bytes()); v }
        4 => { let mut v = vec![m | 26]; v.extend_from_slice(&(arg as u32).to_be_bytes()); v }
        _ => { let mut v = vec![m | 27]; v.extend_from_slice(&arg.to_be_bytes()); v }
    }
}
impl Cbor {
    fn head(&mut self, major: u8, arg: u64) {
        let h = cbor_head(major, arg, 0);
        self.heads.push((self.bytes.len(), h.len(), major, arg));
        self.bytes.extend(h);
    }
    fn int(&mut self, v: i64) {
        if v >= 0 { self.head(0, v as u64) } else { self.head(1, (-1 - v) as u64) }
    }
}
pub fn cbor_doc(g: &GraphSpec) -> Cbor {
    let mut c = Cbor { bytes: vec![], heads: vec![] };
    c.head(4, 2);
    c.head(4, g.n as u64);
    for k in 0..g.n {
        c.head(4, 2);
        c.int(k as i64);
        c.int(g.vals[k]);
    }
    c.head(4, g.edges.len() as u64);
    for (u, v, e) in &g.edges {
        c.head(4, 3);
        c.int(*u as i64);
        c.int(*v as i64);
        c.int(*e as i64);
    }
    c
}

/// every single header-level edit of a valid CBOR document: lengths/values replaced by boundary values in every
/// argument width, major type changed, indefinite length, each also cut off right behind the edited header
pub fn cbor_raw_mutations(g: &GraphSpec) -> Vec<Vec<u8>> {
    let c = cbor_doc(g);
    let b = &c.bytes;
    let mut docs = vec![b.clone()];
    for i in 0..b.len() {
        docs.push(b[..i].to_vec());
    }
    for &(off, hl, major, arg) in &c.heads {
        let mut heads: Vec<Vec<u8>> = vec![];
        let args = [0u64, 1, arg.wrapping_add(1), arg.wrapping_sub(1), 23, 24, 255, 256, 65535, 65536, u32::MAX as u64, u32::MAX as u64 + 1,
                    i64::MAX as u64, i64::MAX as u64 + 1, u64::MAX - 1, u64::MAX, 1 << 40, 1 << 31];
        for a in args {
            heads.push(cbor_head(major, a, 0));
        }
        for w in [1u8, 2, 4, 8] {
            heads.push(cbor_head(major, arg, w));
        }
        for m in 0..8u8 {
            if m != major {
                heads.push(cbor_head(m, arg, 0));
                heads.push(cbor_head(m, u64::MAX, 0));
            }
        }
        heads.push(vec![(major << 5) | 31]); // indefinite length / break
        heads.push(vec![(major << 5) | 28]); // reserved additional information
        heads.push(vec![0xff]);
        heads.push(vec![0xf6]); // null
        heads.push(vec![0xfb, 0x3f, 0xf0, 0, 0, 0, 0, 0, 0]); // 1.0 as f64
        heads.push(vec![0xc2, 0x41, 0x01]); // bignum tag
        heads.push(vec![0xc1]); // a tag in front
        for h in heads {
            let mut d = b[..off].to_vec();
            d.extend_from_slice(&h);
            let cut = d.len();
            d.extend_from_slice(&b[off + hl..]);
            docs.push(d.clone());
            docs.push(d[..cut].to_vec());
            if h == vec![0xc1] {
                // keep the original header behind the tag
                let mut t = b[..off].to_vec();
                t.push(0xc1);
                t.extend_from_slice(&b[off..]);
                docs.push(t);
            }
        }
    }
    // the same document with indefinite-length arrays everywhere
    let mut ind: Vec<u8> = vec![];
    {
        fn item(out: &mut Vec<u8>, v: i64) { out.extend(if v >= 0 { cbor_head(0, v as u64, 0) } else { cbor_head(1, (-1 - v) as u64, 0) }); }
        ind.push(0x9f);
        ind.push(0x9f);
        for k in 0..g.n { ind.push(0x9f); item(&mut ind, k as i64); item(&mut ind, g.vals[k]); ind.push(0xff); }
        ind.push(0xff);
        ind.push(0x9f);
        for (u, v, e) in &g.edges { ind.push(0x9f); item(&mut ind, *u as i64); item(&mut ind, *v as i64); item(&mut ind, *e as i64); ind.push(0xff); }
        ind.push(0xff);
        ind.push(0xff);
    }
    docs.push(ind);
    docs
}

pub fn deraw_case(fl: &str, id: &str, fmt: &str, docs: &[Vec<u8>]) -> Vec<String> {
    let mut l = vec![];
    for (i, d) in docs.iter().enumerate() {
        l.push(format!("case {fl} {id}-{i}-{fmt}"));
        l.push(format!("g.deraw 0 {fmt} {}", crate::exec_cont::hex(d)));
        l.push("dump".into());
        l.push("g.iter 0".into());
    }
    l
}

/// documents of the container with text keys (`Graph<String, i64, u32>`): short, empty, long and non-ASCII keys
/// (multi-byte characters across every small byte offset), some edges naming an undeclared key
pub fn destr_case(rng: &mut Rng, fl: &str, id: &str) -> Vec<String> {
    let pool = |rng: &mut Rng| -> String {
        match rng.below(8) {
            0 => String::new(),
            1 => "a".into(),
            2 => "k".repeat(1 + rng.below(70)),
            3 => "\u{e9}".repeat(1 + rng.below(40)),
            4 => format!("{}{}", "a".repeat(rng.below(40)), "\u{65e5}\u{672c}\u{8a9e}".repeat(1 + rng.below(12))),
            5 => format!("{}\u{1f600}{}", "x".repeat(rng.below(36)), "y".repeat(rng.below(5))),
            6 => "\"\\\n\u{0}".into(),
            _ => format!("n{}", rng.below(5)),
        }
    };
    let mut l = vec![format!("case {fl} {id}")];
    for _ in 0..6 {
        let n = rng.below(5);
        let mut nodes: Vec<(String, i64)> = vec![];
        for _ in 0..n {
            let k = pool(rng);
            if !nodes.iter().any(|x| x.0 == k) {
                nodes.push((k, rng.below(7) as i64 - 3));
            }
        }
        let mut edges: Vec<(String, String, u32)> = vec![];
        if !nodes.is_empty() {
            for _ in 0..rng.below(5) {
                edges.push((nodes[rng.below(nodes.len())].0.clone(), nodes[rng.below(nodes.len())].0.clone(), rng.below(9) as u32));
            }
        }
        if rng.chance(50) {
            // an undeclared key, as source or as target, somewhere in the list
            let mut k = pool(rng);
            while nodes.iter().any(|x| x.0 == k) {
                k.push('\u{e9}');
            }
            let other = if nodes.is_empty() { k.clone() } else { nodes[rng.below(nodes.len())].0.clone() };
            let e = if rng.chance(50) { (k, other, 1) } else { (other, k, 1) };
            edges.insert(rng.below(edges.len() + 1), e);
        }
        let doc = (nodes, edges);
        l.push(format!("g.destr 0 json {}", crate::exec_cont::hex(&serde_json::to_vec(&doc).unwrap())));
        l.push(format!("g.destr 0 cbor {}", crate::exec_cont::hex(&serde_cbor::to_vec(&doc).unwrap())));
    }
    l
}

//! Generators for containers, scc, serde (C11, C12, C13, C18).
use crate::exec::is_directed;
use crate::gen_search::{graph_lines, random_graph, seq_graph, GraphSpec};
use crate::rng::Rng;

fn shuffled(rng: &mut Rng, n: usize) -> Vec<usize> {
    let mut v: Vec<usize> = (0..n).collect();
    for i in (1..n).rev() {
        v.swap(i, rng.below(i + 1));
    }
    v
}

/// C11: one graph, several container instances (fresh hash state each) and insertion orders
pub fn scc_case(fl: &str, id: &str, g: &GraphSpec, rng: &mut Rng, instances: usize) -> Vec<String> {
    let mut l = vec![format!("case {fl} {id}")];
    l.extend(graph_lines(g));
    for i in 0..instances {
        l.push(format!("g.new {i}"));
        let order: Vec<usize> = match i {
            0 => (0..g.n).collect(),
            1 => (0..g.n).rev().collect(),
            _ => shuffled(rng, g.n),
        };
        for k in order {
            l.push(format!("g.insert {i} {k}"));
        }
        l.push(format!("g.scc {i}"));
    }
    l
}

/// the `idx`-th directed graph on n nodes as an edge set (bit u*n+v), loops included
pub fn bitset_graph(n: usize, idx: usize) -> GraphSpec {
    let mut edges = vec![];
    for u in 0..n {
        for v in 0..n {
            if idx >> (u * n + v) & 1 == 1 {
                edges.push((u, v, 0));
            }
        }
    }
    GraphSpec { n, vals: vec![0; n], edges }
}

/// C12: serialise / round-trip through both formats, then observe everything
pub fn serde_case(fl: &str, id: &str, g: &GraphSpec) -> Vec<String> {
    let mut l = vec![format!("case {fl} {id}")];
    l.extend(graph_lines(g));
    l.push("g.new 0".into());
    for k in 0..g.n {
        l.push(format!("g.insert 0 {k}"));
    }
    for fmt in ["json", "cbor"] {
        l.push(format!("g.ser 0 {fmt}"));
        l.push(format!("g.roundtrip 0 {fmt}"));
        l.push("dump".into());
        l.push("g.iter 0".into());
        l.push("g.len 0".into());
    }
    l
}

fn doc_of(g: &GraphSpec) -> (Vec<String>, Vec<String>) {
    ((0..g.n).map(|k| format!("[{k},{}]", g.vals[k])).collect(), g.edges.iter().map(|(u, v, e)| format!("[{u},{v},{e}]")).collect())
}
fn doc_text(ns: &[String], es: &[String]) -> String {
    format!("[[{}],[{}]]", ns.join(","), es.join(","))
}

/// C13: every single structural mutation of a valid document
pub fn mutations(g: &GraphSpec) -> Vec<String> {
    let (ns, es) = doc_of(g);
    let mut docs = vec![doc_text(&ns, &es)];
    let undeclared = g.n + 3;
    for i in 0..ns.len() {
        // drop / duplicate (same and different value) a node
        let mut a = ns.clone();
        a.remove(i);
        docs.push(doc_text(&a, &es));
        let mut b = ns.clone();
        b.insert(i, ns[i].clone());
        docs.push(doc_text(&b, &es));
        let mut c = ns.clone();
        c.push(format!("[{i},77]"));
        docs.push(doc_text(&c, &es));
        for bad in ["[\"x\",1]", "[1.5,1]", "[-1,0]", "null", "[1]", "[1,2,3]", "[1,\"v\"]", "{\"k\":1}", "[[1],2]", "7"] {
            let mut d = ns.clone();
            d[i] = bad.to_string();
            docs.push(doc_text(&d, &es));
        }
    }
    for i in 0..es.len() {
        let mut a = es.clone();
        a.remove(i);
        docs.push(doc_text(&ns, &a));
        let mut b = es.clone();
        b.insert(i, es[i].clone());
        docs.push(doc_text(&ns, &b));
        let (u, v, e) = g.edges[i];
        for re in [format!("[{undeclared},{v},{e}]"), format!("[{u},{undeclared},{e}]"), format!("[{undeclared},{undeclared},{e}]")] {
            let mut c = es.clone();
            c[i] = re;
            docs.push(doc_text(&ns, &c));
        }
        for bad in ["[0,0]", "[0,0,0,0]", "[\"a\",0,0]", "[0,0,-1]", "[0,0,4294967296]", "[0.0,0,0]", "null", "{}", "[[0],0,0]"] {
            let mut d = es.clone();
            d[i] = bad.to_string();
            docs.push(doc_text(&ns, &d));
        }
    }
    // truncations and wrong shapes
    docs.push("[]".into());
    docs.push(format!("[[{}]]", ns.join(",")));
    docs.push(format!("[[{}],[{}],[]]", ns.join(","), es.join(",")));
    docs.push(format!("[[{}],[{}],1,2]", ns.join(","), es.join(",")));
    docs.push(format!("[[{}]", ns.join(",")));
    docs.push(format!("[[{}],[{}", ns.join(","), es.join(",")));
    docs.push(format!("{{\"nodes\":[{}],\"edges\":[{}]}}", ns.join(","), es.join(",")));
    docs.push("null".into());
    docs.push("7".into());
    docs.push("\"graph\"".into());
    docs.push("true".into());
    docs.push(format!("[[{}],null]", ns.join(",")));
    docs.push(format!("[null,[{}]]", es.join(",")));
    docs.push(format!("[[{}],7]", ns.join(",")));
    docs.push(format!("[[],[{}]]", es.join(",")));
    docs.push("[[[0,0],[0,1],[0,2]],[[0,0,1],[0,0,2]]]".into());
    docs
}

pub fn random_mutation(rng: &mut Rng, doc: &str) -> String {
    let mut b: Vec<u8> = doc.bytes().collect();
    let n = 1 + rng.below(3);
    for _ in 0..n {
        if b.is_empty() {
            break;
        }
        let i = rng.below(b.len());
        match rng.below(5) {
            0 => {
                b.remove(i);
            }
            1 => { let a = b"[]{},:0123456789-.\"en"; b.insert(i, a[rng.below(a.len())]) }
            2 => { let a = b"[]{},:0123456789-.\"tfn"; b[i] = a[rng.below(a.len())] }
            3 => {
                let j = rng.below(b.len());
                b.swap(i, j);
            }
            _ => b.truncate(i),
        }
    }
    String::from_utf8_lossy(&b).replace(' ', "").replace('#', "").replace('@', "").replace('\n', "")
}

pub fn de_case(fl: &str, id: &str, docs: &[String]) -> Vec<String> {
    // every document starts from a fresh case (a successful deserialisation replaces the world)
    let mut l = vec![];
    for (i, d) in docs.iter().enumerate() {
        if d.is_empty() {
            continue;
        }
        for fmt in ["json", "cbor"] {
            l.push(format!("case {fl} {id}-{i}-{fmt}"));
            l.push(format!("g.de 0 {fmt} {d}"));
            l.push("dump".into());
            l.push("g.iter 0".into());
        }
    }
    l
}

/// C18: a history of container calls interleaved with edge operations
pub fn cont_history(rng: &mut Rng, fl: &str, id: &str, nkeys: usize, ncalls: usize) -> Vec<String> {
    let directed = is_directed(fl);
    let mut l = vec![format!("case {fl} {id}")];
    for k in 0..nkeys {
        l.push(format!("new {k} {}", rng.below(5) as i64 - 1));
    }
    l.push("g.new 0".into());
    let mut members: Vec<usize> = vec![];
    for _ in 0..ncalls {
        let k = rng.below(nkeys);
        let r = rng.below(100);
        if r < 18 {
            l.push(format!("g.insert 0 {k}"));
            if !members.contains(&k) {
                members.push(k);
            }
        } else if r < 24 {
            l.push(format!("g.insert_dup 0 {k} {}", 50 + rng.below(5)));
        } else if r < 32 {
            l.push(format!("g.remove 0 {k}"));
            members.retain(|x| *x != k);
        } else if r < 40 {
            l.push(format!("g.get 0 {k}"));
        } else if r < 45 {
            if members.contains(&k) || rng.chance(4) {
                l.push(format!("g.index 0 {k}"));
            }
        } else if r < 50 {
            l.push(format!("g.contains 0 {k}"));
        } else if r < 54 {
            l.push("g.len 0".into());
            l.push("g.is_empty 0".into());
        } else if r < 60 {
            l.push("g.to_vec 0".into());
        } else if r < 64 {
            l.push("g.iter 0".into());
        } else if r < 72 {
            if directed {
                l.push(["g.roots 0", "g.leaves 0", "g.orphans 0"][rng.below(3)].into());
            } else {
                l.push("g.orphans 0".into());
            }
        } else if r < 80 {
            let v = rng.below(nkeys);
            if members.contains(&k) && members.contains(&v) {
                l.push(format!("g.connect 0 {k} {v} {}", rng.below(4)));
                l.push("dump".into());
            } else {
                l.push(format!("connect {k} {v} {}", rng.below(4)));
            }
        } else if r < 85 {
            l.push(format!("disconnect {k} {}", rng.below(nkeys)));
        } else if r < 88 {
            l.push(format!("isolate {k}"));
        } else if r < 94 {
            l.push("g.to_dot 0".into());
        } else {
            l.push(format!("g.to_dot_attr 0 {}", rng.below(3)));
        }
    }
    l.push("dump".into());
    l.push("g.iter 0".into());
    l
}

/// the op alphabet of the exhaustive C18 histories over `nkeys` keys
pub fn cont_alphabet(fl: &str, nkeys: usize) -> Vec<String> {
    let mut a = vec![];
    for k in 0..nkeys {
        a.push(format!("g.insert 0 {k}"));
        a.push(format!("g.remove 0 {k}"));
        a.push(format!("g.get 0 {k}"));
        a.push(format!("g.insert_dup 0 {k} 9"));
        for v in 0..nkeys {
            a.push(format!("connect {k} {v} 1"));
        }
    }
    a.push("g.to_vec 0".into());
    a.push("g.len 0".into());
    a.push(if is_directed(fl) { "g.roots 0".into() } else { "g.orphans 0".into() });
    a.push("g.to_dot 0".into());
    a
}

/-! Spike: association-list store, directed edge operations, mirror invariant. Core Lean only. -/
namespace G

structure Adj (K E : Type) where
  out : List (K × E) := []
  inn : List (K × E) := []

structure Store (K E : Type) where
  cells : List (K × Adj K E) := []

variable {K E : Type} [DecidableEq K]

def Store.get (s : Store K E) (k : K) : Adj K E :=
  match s.cells.find? (fun p => p.1 = k) with
  | some p => p.2
  | none => {}

def setCells : List (K × Adj K E) → K → Adj K E → List (K × Adj K E)
  | [], k, a => [(k, a)]
  | (k', a') :: t, k, a => if k' = k then (k, a) :: t else (k', a') :: setCells t k a

def Store.set (s : Store K E) (k : K) (a : Adj K E) : Store K E := ⟨setCells s.cells k a⟩

theorem setCells_find (l : List (K × Adj K E)) (k x : K) (a : Adj K E) :
    (setCells l k a).find? (fun p => p.1 = x) = if x = k then some (k, a) else l.find? (fun p => p.1 = x) := by
  fun_induction setCells l k a <;> grind

theorem get_set (s : Store K E) (k x : K) (a : Adj K E) :
    (s.set k a).get x = if x = k then a else s.get x := by
  unfold Store.get Store.set
  simp only [setCells_find]
  by_cases h : x = k <;> simp [h]

@[simp] theorem get_set_same (s : Store K E) (k : K) (a : Adj K E) : (s.set k a).get k = a := by
  simp [get_set]
theorem get_set_other (s : Store K E) (k x : K) (a : Adj K E) (h : x ≠ k) : (s.set k a).get x = s.get x := by
  simp [get_set, h]
@[simp] theorem get_empty (k : K) : ({} : Store K E).get k = {} := by simp [Store.get]

/-- values of the entries of `l` whose key is `k`, in order -/
def vals (l : List (K × E)) (k : K) : List E := (l.filter (fun p => p.1 = k)).map (·.2)

@[simp] theorem vals_nil (k : K) : vals ([] : List (K × E)) k = [] := rfl
@[simp] theorem vals_append (l₁ l₂ : List (K × E)) (k : K) : vals (l₁ ++ l₂) k = vals l₁ k ++ vals l₂ k := by
  simp [vals]
@[simp] theorem vals_single_same (k : K) (e : E) : vals [(k, e)] k = [e] := by simp [vals]
theorem vals_single_other (k j : K) (e : E) (h : k ≠ j) : vals [(k, e)] j = [] := by simp [vals, h]

/-- remove the first entry with key `k` (Rust: `remove_outbound` / `remove_inbound`) -/
def removeFirst : List (K × E) → K → Option (E × List (K × E))
  | [], _ => none
  | (k', e) :: t, k => if k' = k then some (e, t) else
      match removeFirst t k with
      | none => none
      | some (e', t') => some (e', (k', e) :: t')

theorem removeFirst_same (l : List (K × E)) (k : K) (e : E) (l' : List (K × E))
    (h : removeFirst l k = some (e, l')) : vals l k = e :: vals l' k := by
  fun_induction removeFirst l k generalizing e l' <;> simp_all [vals] <;> grind

theorem removeFirst_other (l : List (K × E)) (k j : K) (e : E) (l' : List (K × E))
    (h : removeFirst l k = some (e, l')) (hj : j ≠ k) : vals l j = vals l' j := by
  fun_induction removeFirst l k generalizing e l' <;> simp_all [vals] <;> grind

theorem removeFirst_some (l : List (K × E)) (k : K) (e : E) (l' : List (K × E))
    (h : removeFirst l k = some (e, l')) :
    vals l k = e :: vals l' k ∧ ∀ j, j ≠ k → vals l j = vals l' j :=
  ⟨removeFirst_same l k e l' h, fun j hj => removeFirst_other l k j e l' h hj⟩

theorem removeFirst_none (l : List (K × E)) (k : K) (h : removeFirst l k = none) : vals l k = [] := by
  induction l with
  | nil => rfl
  | cons p t ih =>
    obtain ⟨k', e⟩ := p
    simp only [removeFirst] at h
    split at h
    · simp at h
    · rename_i hk
      cases hr : removeFirst t k with
      | none => simp [vals, hk]; simpa [vals] using ih hr
      | some x => simp [hr] at h

theorem removeFirst_isSome (l : List (K × E)) (k : K) (h : vals l k ≠ []) : (removeFirst l k).isSome := by
  cases hr : removeFirst l k with
  | none => exact absurd (removeFirst_none l k hr) h
  | some _ => rfl

inductive Res (E : Type) where
  | unit | val (e : E) | notFound | exists_ | panic
  deriving Repr, DecidableEq

namespace Di

def connect (s : Store K E) (u v : K) (e : E) : Store K E :=
  let au := s.get u
  let s1 := s.set u { au with out := au.out ++ [(v, e)] }
  let av := s1.get v
  s1.set v { av with inn := av.inn ++ [(u, e)] }

def isConnected (s : Store K E) (u v : K) : Bool := (s.get u).out.any (fun p => p.1 = v)

def tryConnect (s : Store K E) (u v : K) (e : E) : Store K E × Res E :=
  if isConnected s u v then (s, .exists_) else (connect s u v e, .unit)

/-- repaired `disconnect`: the caller's borrow is released before the callee's is taken -/
def disconnect (s : Store K E) (u v : K) : Store K E × Res E :=
  if isConnected s u v then
    match removeFirst (s.get u).out v with
    | none => (s, .notFound)
    | some (e, out') =>
      let s1 := s.set u { s.get u with out := out' }
      match removeFirst (s1.get v).inn u with
      | none => (s1, .notFound)
      | some (_, inn') => (s1.set v { s1.get v with inn := inn' }, .val e)
  else (s, .notFound)

def Mirror (s : Store K E) : Prop := ∀ a b, vals (s.get a).out b = vals (s.get b).inn a

theorem mirror_empty : Mirror ({} : Store K E) := by intro a b; simp

theorem connect_mirror (s : Store K E) (u v : K) (e : E) (h : Mirror s) : Mirror (connect s u v e) := by
  intro a b
  have hab := h a b
  simp only [connect, get_set]
  by_cases hau : a = u <;> by_cases hbv : b = v <;> by_cases hav : a = v <;> by_cases hbu : b = u <;>
    simp_all [vals, eq_comm]

theorem disconnect_mirror (s : Store K E) (u v : K) (h : Mirror s) : Mirror (disconnect s u v).1 := by
  unfold disconnect
  split
  · split
    · exact h
    · rename_i e out' hout
      obtain ⟨h1, h1o⟩ := removeFirst_some _ _ _ _ hout
      have huv := h u v
      -- the first update leaves every inbound list as it was
      have hinn_eq : ∀ b, ((s.set u { s.get u with out := out' }).get b).inn = (s.get b).inn := by
        intro b; simp only [get_set]; split <;> simp_all
      have hout_eq : ∀ a, ((s.set u { s.get u with out := out' }).get a).out = if a = u then out' else (s.get a).out := by
        intro a; simp only [get_set]; split <;> simp_all
      have hne : vals ((s.set u { s.get u with out := out' }).get v).inn u ≠ [] := by
        rw [hinn_eq, ← huv, h1]; simp
      have hsome := removeFirst_isSome _ _ hne
      simp only []
      split
      · rename_i hnone; simp [hnone] at hsome
      · rename_i e2 inn' hinn
        obtain ⟨h2, h2o⟩ := removeFirst_some _ _ _ _ hinn
        rw [hinn_eq] at h2 h2o
        intro a b
        have hab := h a b
        have fo : ((((s.set u { s.get u with out := out' }).set v
            { (s.set u { s.get u with out := out' }).get v with inn := inn' }).get a).out)
            = if a = u then out' else (s.get a).out := by
          simp only [get_set]; split <;> split <;> simp_all
        have fi : ((((s.set u { s.get u with out := out' }).set v
            { (s.set u { s.get u with out := out' }).get v with inn := inn' }).get b).inn)
            = if b = v then inn' else (s.get b).inn := by
          simp only [get_set]; split <;> split <;> simp_all
        rw [fo, fi]
        by_cases hau : a = u <;> by_cases hbv : b = v
        · subst hau; subst hbv; simp only [if_true]
          rw [h1, h2] at huv; exact (List.cons.inj huv).2
        · subst hau; simp only [if_true, hbv, if_false]
          rw [← h1o b hbv]; exact hab
        · subst hbv; simp only [hau, if_false, if_true]
          rw [← h2o a hau]; exact hab
        · simp only [hau, hbv, if_false]; exact hab
  · exact h


/-! ### isolate: positional loops exactly as in the code -/

/-- `for Edge(_, v, _) in self.iter_out() { v.remove_inbound(self.key()).unwrap() }`:
    the iterator re-reads `self`'s outbound list at `pos` on every step. `true` = the `unwrap` panicked. -/
def isoOutLoop (u : K) : Nat → Nat → Store K E → Store K E × Bool
  | 0, _, s => (s, false)
  | fuel + 1, pos, s =>
    match (s.get u).out[pos]? with
    | none => (s, false)
    | some (v, _) =>
      match removeFirst (s.get v).inn u with
      | none => (s, true)
      | some (_, inn') => isoOutLoop u fuel (pos + 1) (s.set v { s.get v with inn := inn' })

def isoInLoop (u : K) : Nat → Nat → Store K E → Store K E × Bool
  | 0, _, s => (s, false)
  | fuel + 1, pos, s =>
    match (s.get u).inn[pos]? with
    | none => (s, false)
    | some (v, _) =>
      match removeFirst (s.get v).out u with
      | none => (s, true)
      | some (_, out') => isoInLoop u fuel (pos + 1) (s.set v { s.get v with out := out' })

def isolate (s : Store K E) (u : K) : Store K E × Res E :=
  match isoOutLoop u (s.get u).out.length 0 s with
  | (s1, true) => (s1, .panic)
  | (s1, false) =>
    match isoInLoop u (s1.get u).inn.length 0 s1 with
    | (s2, true) => (s2, .panic)
    | (s2, false) => (s2.set u {}, .unit)

/-- state of the first loop at position `pos`, relative to the start state `s0` -/
structure OutInv (s0 : Store K E) (u : K) (pos : Nat) (s : Store K E) : Prop where
  out_eq : ∀ b, (s.get b).out = (s0.get b).out
  inn_u : ∀ b, vals (s.get b).inn u = vals ((s0.get u).out.drop pos) b
  inn_other : ∀ b j, j ≠ u → vals (s.get b).inn j = vals (s0.get b).inn j

theorem vals_drop_getElem (l : List (K × E)) (pos : Nat) (v : K) (e : E) (h : l[pos]? = some (v, e)) (b : K) :
    vals (l.drop pos) b = (if v = b then [e] else []) ++ vals (l.drop (pos + 1)) b := by
  have hlt : pos < l.length := by
    rcases Nat.lt_or_ge pos l.length with h' | h'
    · exact h'
    · simp [List.getElem?_eq_none h'] at h
  have : l.drop pos = (v, e) :: l.drop (pos + 1) := by
    rw [List.drop_eq_getElem_cons hlt]
    simp [List.getElem?_eq_getElem hlt] at h
    rw [h]
  rw [this]; by_cases hv : v = b <;> simp [vals, hv]

theorem isoOutLoop_spec (s0 : Store K E) (u : K) (fuel pos : Nat) (s : Store K E)
    (hinv : OutInv s0 u pos s) (hfuel : pos + fuel = (s0.get u).out.length) :
    ∃ s', isoOutLoop u fuel pos s = (s', false) ∧ OutInv s0 u (s0.get u).out.length s' := by
  induction fuel generalizing pos s with
  | zero => exact ⟨s, rfl, by simpa [← hfuel] using hinv⟩
  | succ fuel ih =>
    simp only [isoOutLoop]
    rw [hinv.out_eq u]
    have hlt : pos < (s0.get u).out.length := by omega
    have hget : (s0.get u).out[pos]? = some ((s0.get u).out[pos]) := List.getElem?_eq_getElem hlt
    rcases hv : (s0.get u).out[pos] with ⟨v, e⟩
    rw [hv] at hget
    simp only [hget]
    have hd := vals_drop_getElem _ pos v e hget
    have hne : vals (s.get v).inn u ≠ [] := by rw [hinv.inn_u v, hd v]; simp
    obtain ⟨⟨e', inn'⟩, hr⟩ := Option.isSome_iff_exists.mp (removeFirst_isSome _ _ hne)
    simp only [hr]
    obtain ⟨r1, r2⟩ := removeFirst_some _ _ _ _ hr
    apply ih (pos + 1)
    · constructor
      · intro b; simp only [get_set]; split <;> simp_all [hinv.out_eq]
      · intro b
        simp only [get_set]
        by_cases hb : b = v
        · subst hb; simp only [if_true]
          have := hinv.inn_u b; rw [r1, hd b] at this; simp at this; exact this.2
        · simp only [hb, if_false]; rw [hinv.inn_u b, hd b]; simp [Ne.symm hb]
      · intro b j hj
        simp only [get_set]
        by_cases hb : b = v
        · subst hb; simp only [if_true]; rw [← r2 j hj]; exact hinv.inn_other b j hj
        · simp only [hb, if_false]; exact hinv.inn_other b j hj
    · omega

structure InInv (s1 : Store K E) (u : K) (pos : Nat) (s : Store K E) : Prop where
  inn_eq : ∀ b, (s.get b).inn = (s1.get b).inn
  out_u : ∀ b, b ≠ u → vals (s.get b).out u = vals ((s1.get u).inn.drop pos) b
  out_other : ∀ b j, j ≠ u → vals (s.get b).out j = vals (s1.get b).out j

theorem isoInLoop_spec (s1 : Store K E) (u : K) (hself : vals (s1.get u).inn u = [])
    (fuel pos : Nat) (s : Store K E)
    (hinv : InInv s1 u pos s) (hfuel : pos + fuel = (s1.get u).inn.length) :
    ∃ s', isoInLoop u fuel pos s = (s', false) ∧ InInv s1 u (s1.get u).inn.length s' := by
  induction fuel generalizing pos s with
  | zero => exact ⟨s, rfl, by simpa [← hfuel] using hinv⟩
  | succ fuel ih =>
    simp only [isoInLoop]
    rw [hinv.inn_eq u]
    have hlt : pos < (s1.get u).inn.length := by omega
    have hget : (s1.get u).inn[pos]? = some ((s1.get u).inn[pos]) := List.getElem?_eq_getElem hlt
    rcases hv : (s1.get u).inn[pos] with ⟨v, e⟩
    rw [hv] at hget
    simp only [hget]
    have hd := vals_drop_getElem _ pos v e hget
    -- the inbound list of `u` has no `u` entry any more, so `v ≠ u`
    have hvu : v ≠ u := by
      intro hvu; subst hvu
      have hmem : ((s1.get v).inn[pos]) ∈ (s1.get v).inn := List.getElem_mem hlt
      rw [hv] at hmem
      have : e ∈ vals (s1.get v).inn v := by
        simp only [vals, List.mem_map, List.mem_filter]; exact ⟨(v, e), ⟨hmem, by simp⟩, rfl⟩
      rw [hself] at this; simp at this
    have hne : vals (s.get v).out u ≠ [] := by rw [hinv.out_u v hvu, hd v]; simp
    obtain ⟨⟨e', out'⟩, hr⟩ := Option.isSome_iff_exists.mp (removeFirst_isSome _ _ hne)
    simp only [hr]
    obtain ⟨r1, r2⟩ := removeFirst_some _ _ _ _ hr
    apply ih (pos + 1)
    · constructor
      · intro b; simp only [get_set]; split <;> simp_all [hinv.inn_eq]
      · intro b hbu
        simp only [get_set]
        by_cases hb : b = v
        · subst hb; simp only [if_true]
          have := hinv.out_u b hbu; rw [r1, hd b] at this; simp at this; exact this.2
        · simp only [hb, if_false]; rw [hinv.out_u b hbu, hd b]; simp [Ne.symm hb]
      · intro b j hj
        simp only [get_set]
        by_cases hb : b = v
        · subst hb; simp only [if_true]; rw [← r2 j hj]; exact hinv.out_other b j hj
        · simp only [hb, if_false]; exact hinv.out_other b j hj
    · omega

/-- C01 for `isolate`: never panics on a mirrored store and keeps it mirrored;
    C03: afterwards no list mentions `u`, every other pair keeps its values -/
theorem isolate_spec (s : Store K E) (u : K) (h : Mirror s) :
    (isolate s u).2 = .unit ∧ Mirror (isolate s u).1 ∧
    (∀ a b, a ≠ u → b ≠ u → vals ((isolate s u).1.get a).out b = vals (s.get a).out b) ∧
    (∀ a b, a = u ∨ b = u → vals ((isolate s u).1.get a).out b = []) := by
  obtain ⟨s1, e1, i1⟩ := isoOutLoop_spec s u (s.get u).out.length 0 s
    ⟨fun _ => rfl, fun b => by simpa using (h u b).symm, fun _ _ _ => rfl⟩ (by omega)
  have hself : vals (s1.get u).inn u = [] := by simpa using i1.inn_u u
  obtain ⟨s2, e2, i2⟩ := isoInLoop_spec s1 u hself (s1.get u).inn.length 0 s1
    ⟨fun _ => rfl, fun b hb => by
        have := i1.inn_other u b hb
        simp only [List.drop_zero]; rw [this, i1.out_eq b]; exact h b u,
     fun _ _ _ => rfl⟩ (by omega)
  have hres : isolate s u = (s2.set u {}, .unit) := by simp only [isolate, e1, e2]
  rw [hres]
  have out2 : ∀ a b, a ≠ u → b ≠ u → vals (s2.get a).out b = vals (s.get a).out b := by
    intro a b _ hb; rw [i2.out_other a b hb, i1.out_eq a]
  have inn2 : ∀ a b, a ≠ u → b ≠ u → vals (s2.get b).inn a = vals (s.get b).inn a := by
    intro a b ha _; rw [i2.inn_eq b, i1.inn_other b a ha]
  refine ⟨rfl, ?_, ?_, ?_⟩
  · intro a b
    simp only [get_set]
    by_cases hau : a = u <;> by_cases hbu : b = u
    · simp [hau, hbu]
    · subst hau; simp only [if_true, hbu, if_false]
      rw [i2.inn_eq b]; simpa using (i1.inn_u b).symm
    · subst hbu; simp only [hau, if_false, if_true]
      simpa using i2.out_u a hau
    · simp only [hau, hbu, if_false]; rw [out2 a b hau hbu, inn2 a b hau hbu]; exact h a b
  · intro a b ha hb; simp only [get_set, ha, if_false]; exact out2 a b ha hb
  · intro a b hab
    simp only [get_set]
    by_cases hau : a = u
    · simp [hau]
    · simp only [hau, if_false]
      rcases hab with h' | h'
      · exact absurd h' hau
      · subst h'; simpa using i2.out_u a hau

end Di

theorem removeFirst_eq_none (l : List (K × E)) (k : K) (h : vals l k = []) : removeFirst l k = none := by
  cases hr : removeFirst l k with
  | none => rfl
  | some x => obtain ⟨e, l'⟩ := x; have := (removeFirst_some l k e l' hr).1; rw [h] at this; simp at this

theorem removeFirst_length (l : List (K × E)) (k : K) (e : E) (l' : List (K × E))
    (h : removeFirst l k = some (e, l')) : l'.length + 1 = l.length := by
  fun_induction removeFirst l k generalizing e l' <;> simp_all <;> grind

namespace Un
open Di (Mirror)

/-- remove the first `b` entry of `a.out` and the first `a` entry of `b.inn` (one undirected edge,
    created by `a`) -/
def removePair (s : Store K E) (a b : K) : Store K E × Res E :=
  match removeFirst (s.get a).out b with
  | none => (s, .notFound)
  | some (e, out') =>
    let s1 := s.set a { s.get a with out := out' }
    match removeFirst (s1.get b).inn a with
    | none => (s1, .notFound)
    | some (_, inn') => (s1.set b { s1.get b with inn := inn' }, .val e)

def hasKey (l : List (K × E)) (k : K) : Bool := l.any (fun p => p.1 = k)

/-- repaired undirected `disconnect`: the half created by the other node first -/
def disconnect (s : Store K E) (u v : K) : Store K E × Res E :=
  if hasKey (s.get u).out v || hasKey (s.get u).inn v then
    if hasKey (s.get u).inn v then removePair s v u else removePair s u v
  else (s, .notFound)

theorem removePair_eq_di (s : Store K E) (a b : K) (h : Di.isConnected s a b = true) :
    removePair s a b = Di.disconnect s a b := by
  simp [removePair, Di.disconnect, h]

theorem hasKey_iff_vals (l : List (K × E)) (k : K) : hasKey l k = true ↔ vals l k ≠ [] := by
  simp [hasKey, vals, List.filter_eq_nil_iff]

theorem removePair_mirror (s : Store K E) (a b : K) (h : Mirror s) : Mirror (removePair s a b).1 := by
  by_cases hc : Di.isConnected s a b = true
  · rw [removePair_eq_di s a b hc]; exact Di.disconnect_mirror s a b h
  · have : removeFirst (s.get a).out b = none := by
      apply removeFirst_eq_none
      have : ¬ (hasKey (s.get a).out b = true) := by simpa [Di.isConnected, hasKey] using hc
      rw [hasKey_iff_vals] at this; simpa using this
    simp [removePair, this]; exact h

theorem disconnect_mirror (s : Store K E) (u v : K) (h : Mirror s) : Mirror (disconnect s u v).1 := by
  unfold disconnect
  split
  · split
    · exact removePair_mirror s v u h
    · exact removePair_mirror s u v h
  · exact h

/-- `for Edge(_, v, _) in self.iter()`: position into `out ++ inn` of the live store; inbound removal first -/
def isoLoop (u : K) : Nat → Nat → Store K E → Store K E × Bool
  | 0, _, s => (s, false)
  | fuel + 1, pos, s =>
    match ((s.get u).out ++ (s.get u).inn)[pos]? with
    | none => (s, false)
    | some (v, _) =>
      match removeFirst (s.get v).inn u with
      | some (_, inn') => isoLoop u fuel (pos + 1) (s.set v { s.get v with inn := inn' })
      | none =>
        match removeFirst (s.get v).out u with
        | none => (s, true)
        | some (_, out') => isoLoop u fuel (pos + 1) (s.set v { s.get v with out := out' })

def isolate (s : Store K E) (u : K) : Store K E × Res E :=
  match isoLoop u ((s.get u).out.length + (s.get u).inn.length) 0 s with
  | (s1, true) => (s1, .panic)
  | (s1, false) => (s1.set u {}, .unit)

/-- phase 1 (positions inside `out`): the loop coincides with the directed first loop -/
theorem isoLoop_phase1 (s0 : Store K E) (u : K) (fuel pos : Nat) (s : Store K E) (extra : Nat)
    (hinv : Di.OutInv s0 u pos s) (hfuel : pos + fuel = (s0.get u).out.length) :
    ∃ s1, isoLoop u (fuel + extra) pos s = isoLoop u extra (s0.get u).out.length s1 ∧
      Di.OutInv s0 u (s0.get u).out.length s1 ∧ (s1.get u).inn.length ≤ (s.get u).inn.length := by
  induction fuel generalizing pos s with
  | zero => exact ⟨s, by simp at hfuel; simp [hfuel], by simpa [← hfuel] using hinv, Nat.le_refl _⟩
  | succ fuel ih =>
    have hlt : pos < (s0.get u).out.length := by omega
    rw [show fuel + 1 + extra = (fuel + extra) + 1 by omega]
    simp only [isoLoop]
    have hget : ((s.get u).out ++ (s.get u).inn)[pos]? = some ((s0.get u).out[pos]) := by
      rw [hinv.out_eq u, List.getElem?_append_left hlt, List.getElem?_eq_getElem hlt]
    rcases hv : (s0.get u).out[pos] with ⟨v, e⟩
    rw [hv] at hget
    simp only [hget]
    have hget0 : (s0.get u).out[pos]? = some (v, e) := by rw [List.getElem?_eq_getElem hlt, hv]
    have hd := Di.vals_drop_getElem _ pos v e hget0
    have hne : vals (s.get v).inn u ≠ [] := by rw [hinv.inn_u v, hd v]; simp
    obtain ⟨⟨e', inn'⟩, hr⟩ := Option.isSome_iff_exists.mp (removeFirst_isSome _ _ hne)
    simp only [hr]
    obtain ⟨r1, r2⟩ := removeFirst_some _ _ _ _ hr
    have hlen := removeFirst_length _ _ _ _ hr
    obtain ⟨s1, a, b, c⟩ := ih (pos + 1) (s.set v { s.get v with inn := inn' }) (by
      constructor
      · intro b; simp only [get_set]; split <;> simp_all [hinv.out_eq]
      · intro b
        simp only [get_set]
        by_cases hb : b = v
        · subst hb; simp only [if_true]
          have := hinv.inn_u b; rw [r1, hd b] at this; simp at this; exact this.2
        · simp only [hb, if_false]; rw [hinv.inn_u b, hd b]; simp [Ne.symm hb]
      · intro b j hj
        simp only [get_set]
        by_cases hb : b = v
        · subst hb; simp only [if_true]; rw [← r2 j hj]; exact hinv.inn_other b j hj
        · simp only [hb, if_false]; exact hinv.inn_other b j hj) (by omega)
    refine ⟨s1, a, b, Nat.le_trans c ?_⟩
    simp only [get_set]; split
    · rename_i huv; subst huv; simp; omega
    · exact Nat.le_refl _

/-- phase 2 (positions inside `inn`): the inbound removal finds nothing, the outbound one succeeds -/
theorem isoLoop_phase2 (s1 : Store K E) (u : K) (hnoU : ∀ b, vals (s1.get b).inn u = [])
    (fuel q : Nat) (s : Store K E)
    (hinv : Di.InInv s1 u q s) (hout : (s.get u).out = (s1.get u).out)
    (hq : q ≤ (s1.get u).inn.length) (hfuel : (s1.get u).inn.length ≤ q + fuel) :
    ∃ s', isoLoop u fuel ((s1.get u).out.length + q) s = (s', false) ∧ Di.InInv s1 u (s1.get u).inn.length s' := by
  induction fuel generalizing q s with
  | zero =>
    have hqe : q = (s1.get u).inn.length := by omega
    exact ⟨s, rfl, hqe ▸ hinv⟩
  | succ fuel ih =>
    by_cases hend : q = (s1.get u).inn.length
    · refine ⟨s, ?_, hend ▸ hinv⟩
      simp only [isoLoop]
      have : ((s.get u).out ++ (s.get u).inn)[(s1.get u).out.length + q]? = none := by
        rw [hout, hinv.inn_eq u]; apply List.getElem?_eq_none; simp; omega
      simp [this]
    have hlt : q < (s1.get u).inn.length := by omega
    simp only [isoLoop]
    have hget : ((s.get u).out ++ (s.get u).inn)[(s1.get u).out.length + q]? = some ((s1.get u).inn[q]) := by
      rw [hout, hinv.inn_eq u, List.getElem?_append_right (by omega)]
      simp [List.getElem?_eq_getElem hlt]
    rcases hv : (s1.get u).inn[q] with ⟨v, e⟩
    rw [hv] at hget
    simp only [hget]
    have hget0 : (s1.get u).inn[q]? = some (v, e) := by rw [List.getElem?_eq_getElem hlt, hv]
    have hd := Di.vals_drop_getElem _ q v e hget0
    have hvu : v ≠ u := by
      intro hvu; subst hvu
      have hmem : ((s1.get v).inn[q]) ∈ (s1.get v).inn := List.getElem_mem hlt
      rw [hv] at hmem
      have : e ∈ vals (s1.get v).inn v := by
        simp only [vals, List.mem_map, List.mem_filter]; exact ⟨(v, e), ⟨hmem, by simp⟩, rfl⟩
      rw [hnoU v] at this; simp at this
    have hnone : removeFirst (s.get v).inn u = none := by
      apply removeFirst_eq_none; rw [hinv.inn_eq v]; exact hnoU v
    simp only [hnone]
    have hne : vals (s.get v).out u ≠ [] := by rw [hinv.out_u v hvu, hd v]; simp
    obtain ⟨⟨e', out'⟩, hr⟩ := Option.isSome_iff_exists.mp (removeFirst_isSome _ _ hne)
    simp only [hr]
    obtain ⟨r1, r2⟩ := removeFirst_some _ _ _ _ hr
    have := ih (q + 1) (s.set v { s.get v with out := out' }) ?_ ?_ (by omega) (by omega)
    · simpa [Nat.add_assoc] using this
    · constructor
      · intro b; simp only [get_set]; split <;> simp_all [hinv.inn_eq]
      · intro b hbu
        simp only [get_set]
        by_cases hb : b = v
        · subst hb; simp only [if_true]
          have := hinv.out_u b hbu; rw [r1, hd b] at this; simp at this; exact this.2
        · simp only [hb, if_false]; rw [hinv.out_u b hbu, hd b]; simp [Ne.symm hb]
      · intro b j hj
        simp only [get_set]
        by_cases hb : b = v
        · subst hb; simp only [if_true]; rw [← r2 j hj]; exact hinv.out_other b j hj
        · simp only [hb, if_false]; exact hinv.out_other b j hj
    · rw [get_set_other _ _ _ _ (Ne.symm hvu)]; exact hout

/-- C02/C03 for the undirected `isolate`: never panics on a symmetric store, keeps it symmetric,
    empties every pair that involves `u`, leaves the others alone -/
theorem isolate_spec (s : Store K E) (u : K) (h : Mirror s) :
    (isolate s u).2 = .unit ∧ Mirror (isolate s u).1 ∧
    (∀ a b, a ≠ u → b ≠ u → vals ((isolate s u).1.get a).out b = vals (s.get a).out b) ∧
    (∀ a b, a = u ∨ b = u → vals ((isolate s u).1.get a).out b = []) := by
  obtain ⟨s1, e1, i1, hlen1⟩ := isoLoop_phase1 s u (s.get u).out.length 0 s (s.get u).inn.length
    ⟨fun _ => rfl, fun b => by simpa using (h u b).symm, fun _ _ _ => rfl⟩ (by omega)
  have hnoU : ∀ b, vals (s1.get b).inn u = [] := fun b => by simpa using i1.inn_u b
  have hout1 : (s1.get u).out = (s.get u).out := i1.out_eq u
  obtain ⟨s2, e2, i2⟩ := isoLoop_phase2 s1 u hnoU (s.get u).inn.length 0 s1
    ⟨fun _ => rfl, fun b hb => by
        have := i1.inn_other u b hb
        simp only [List.drop_zero]; rw [this, i1.out_eq b]; exact h b u,
     fun _ _ _ => rfl⟩ rfl (by omega) (by omega)
  have hres : isolate s u = (s2.set u {}, .unit) := by
    simp only [isolate]
    rw [e1, ← hout1]
    simp only [Nat.add_zero] at e2
    rw [e2]
  rw [hres]
  have out2 : ∀ a b, a ≠ u → b ≠ u → vals (s2.get a).out b = vals (s.get a).out b := by
    intro a b _ hb; rw [i2.out_other a b hb, i1.out_eq a]
  have inn2 : ∀ a b, a ≠ u → b ≠ u → vals (s2.get b).inn a = vals (s.get b).inn a := by
    intro a b ha _; rw [i2.inn_eq b, i1.inn_other b a ha]
  refine ⟨rfl, ?_, ?_, ?_⟩
  · intro a b
    simp only [get_set]
    by_cases hau : a = u <;> by_cases hbu : b = u
    · simp [hau, hbu]
    · subst hau; simp only [if_true, hbu, if_false]
      rw [i2.inn_eq b]; simpa using (i1.inn_u b).symm
    · subst hbu; simp only [hau, if_false, if_true]
      simpa using i2.out_u a hau
    · simp only [hau, hbu, if_false]; rw [out2 a b hau hbu, inn2 a b hau hbu]; exact h a b
  · intro a b ha hb; simp only [get_set, ha, if_false]; exact out2 a b ha hb
  · intro a b hab
    simp only [get_set]
    by_cases hau : a = u
    · simp [hau]
    · simp only [hau, if_false]
      rcases hab with h' | h'
      · exact absurd h' hau
      · subst h'; simpa using i2.out_u a hau

end Un
end G

#print axioms G.Un.isolate_spec
#print axioms G.Un.disconnect_mirror

#![allow(unused, clippy::all)]
//! C15 differential: identical programs on plain and sync flavours must give identical output strings.
pub struct Rng(u64);
impl Rng { pub fn new(s: u64) -> Self { Rng(s.wrapping_mul(0x9E3779B97F4A7C15) | 1) } pub fn next(&mut self) -> u64 { let mut x = self.0; x ^= x << 13; x ^= x >> 7; x ^= x << 17; self.0 = x; x }
    pub fn below(&mut self, n: usize) -> usize { (self.next() % n as u64) as usize } pub fn chance(&mut self, p: u64) -> bool { self.next() % 100 < p } }
use std::collections::HashSet;
use std::fmt::Write;
macro_rules! pe { ($p:expr) => { format!("{:?}", $p.map(|p| p.iter_edges().map(|Edge(u, v, e)| (*u.key(), *v.key(), e)).collect::<Vec<_>>())) } }
macro_rules! ks { ($v:expr) => { format!("{:?}", $v.iter().map(|n| *n.key()).collect::<Vec<_>>()) } }
macro_rules! es { ($v:expr) => { format!("{:?}", $v.iter().map(|Edge(u, v, e)| (*u.key(), *v.key(), *e)).collect::<Vec<_>>()) } }
macro_rules! directed { ($m:ident, $fl:ident) => { pub mod $m { use super::*; use gdsl::$fl::*;
    pub fn run(seed: u64) -> String {
        let mut rng = Rng::new(seed); let n = 1 + rng.below(7); let mut o = String::new();
        let nodes: Vec<Node<usize, i64, u32>> = (0..n).map(|i| Node::new(i, rng.below(3) as i64)).collect();
        for _ in 0..(5 + rng.below(40)) { let u = rng.below(n); let v = if rng.chance(15) { u } else { rng.below(n) }; let e = rng.below(3) as u32;
            match rng.below(8) { 0..=4 => { nodes[u].connect(&nodes[v], e); } 5 => { write!(o, "{:?};", nodes[u].try_connect(&nodes[v], e).map_err(|x| x.to_string())); }
                6 => { write!(o, "{:?};", nodes[u].disconnect(&v).map_err(|x| x.to_string())); } _ => { if rng.chance(30) { nodes[u].isolate(); } } } }
        for a in 0..n { write!(o, "|{}:{:?}/{:?}", a, nodes[a].iter_out().map(|Edge(_, v, e)| (*v.key(), e)).collect::<Vec<_>>(), nodes[a].iter_in().map(|Edge(u, _, e)| (*u.key(), e)).collect::<Vec<_>>()); }
        let mut rej: HashSet<(usize, usize, u32)> = HashSet::new(); if rng.chance(50) { for a in 0..n { for Edge(u, v, e) in nodes[a].iter_out() { if rng.chance(25) { rej.insert((*u.key(), *v.key(), e)); rej.insert((*v.key(), *u.key(), e)); } } } }
        for s in 0..n { for t in 0..n {
            macro_rules! f { () => { &mut |Edge(u, v, e): &Edge<usize, i64, u32>| !rej.contains(&(*u.key(), *v.key(), *e)) } }
            write!(o, "\n{s}>{t} b{} bt{} d{} dt{} p{} pt{} P{} Pt{}", pe!(nodes[s].bfs().target(&t).filter(f!()).search_path()), pe!(nodes[s].bfs().transpose().target(&t).filter(f!()).search_path()),
                pe!(nodes[s].dfs().target(&t).filter(f!()).search_path()), pe!(nodes[s].dfs().transpose().target(&t).filter(f!()).search_path()),
                pe!(nodes[s].pfs().target(&t).filter(f!()).search_path()), pe!(nodes[s].pfs().transpose().target(&t).filter(f!()).search_path()),
                pe!(nodes[s].pfs().max().target(&t).filter(f!()).search_path()), pe!(nodes[s].pfs().max().transpose().target(&t).filter(f!()).search_path()));
            write!(o, " s{:?}{:?}{:?}", nodes[s].bfs().target(&t).search().map(|x| *x.key()), nodes[s].dfs().target(&t).search().map(|x| *x.key()), nodes[s].pfs().target(&t).search().map(|x| *x.key())); }
            macro_rules! f { () => { &mut |Edge(u, v, e): &Edge<usize, i64, u32>| !rej.contains(&(*u.key(), *v.key(), *e)) } }
            write!(o, "\ncyc{s} {} {} {} {} {} {}", pe!(nodes[s].bfs().filter(f!()).search_cycle()), pe!(nodes[s].dfs().filter(f!()).search_cycle()), pe!(nodes[s].pfs().filter(f!()).search_cycle()), pe!(nodes[s].pfs().max().filter(f!()).search_cycle()),
                pe!(nodes[s].bfs().transpose().filter(f!()).search_cycle()), pe!(nodes[s].pfs().transpose().filter(f!()).search_cycle()));
            write!(o, "\nord{s} {} {} {} {} {} {}", ks!(nodes[s].preorder().filter(f!()).search_nodes()), ks!(nodes[s].postorder().filter(f!()).search_nodes()), ks!(nodes[s].preorder().transpose().filter(f!()).search_nodes()), ks!(nodes[s].postorder().transpose().filter(f!()).search_nodes()),
                es!(nodes[s].preorder().filter(f!()).search_edges()), es!(nodes[s].postorder().filter(f!()).search_edges()));
            for kind in 0..6 { let mut tr = vec![]; { let mut cb = |Edge(u, v, e): &Edge<usize, i64, u32>| tr.push((*u.key(), *v.key(), *e));
                match kind { 0 => { nodes[s].bfs().for_each(&mut cb).search(); } 1 => { nodes[s].dfs().for_each(&mut cb).search(); } 2 => { nodes[s].pfs().for_each(&mut cb).search(); } 3 => { nodes[s].pfs().max().transpose().for_each(&mut cb).search(); }
                    4 => { nodes[s].preorder().for_each(&mut cb).search_nodes(); } _ => { nodes[s].postorder().transpose().for_each(&mut cb).search_nodes(); } } }
                write!(o, " tr{kind}{:?}", tr); } }
        let mut g: Graph<usize, i64, u32> = Graph::new(); for x in &nodes { g.insert(x.clone()); }
        let mut scc: Vec<Vec<usize>> = g.scc().iter().map(|c| { let mut v: Vec<usize> = c.iter().map(|x| *x.key()).collect(); v.sort(); v }).collect(); scc.sort(); write!(o, "\nscc{:?}", scc);
        let mut dot: Vec<String> = g.to_dot().lines().map(|l| l.to_string()).collect(); dot.sort(); write!(o, "\ndot{:?}", dot);
        write!(o, " cmp{:?}{:?}{}", nodes[0].cmp(&nodes[n - 1]), nodes[0].partial_cmp(&nodes[n - 1]), nodes[0] == nodes[n - 1]);
        o } } } }
directed!(di, digraph); directed!(sdi, sync_digraph);
macro_rules! undirected { ($m:ident, $fl:ident) => { pub mod $m { use super::*; use gdsl::$fl::*;
    pub fn run(seed: u64) -> String {
        let mut rng = Rng::new(seed); let n = 1 + rng.below(7); let mut o = String::new();
        let nodes: Vec<Node<usize, i64, u32>> = (0..n).map(|i| Node::new(i, rng.below(3) as i64)).collect();
        for _ in 0..(5 + rng.below(40)) { let u = rng.below(n); let v = if rng.chance(15) { u } else { rng.below(n) }; let e = rng.below(3) as u32;
            match rng.below(8) { 0..=4 => { nodes[u].connect(&nodes[v], e); } 5 => { write!(o, "{:?};", nodes[u].try_connect(&nodes[v], e).map_err(|x| x.to_string())); }
                6 => { write!(o, "{:?};", nodes[u].disconnect(&v).map_err(|x| x.to_string())); } _ => { if rng.chance(30) { nodes[u].isolate(); } } } }
        for a in 0..n { write!(o, "|{}:{:?} d{} o{}", a, nodes[a].iter().map(|Edge(_, v, e)| (*v.key(), e)).collect::<Vec<_>>(), nodes[a].degree(), nodes[a].is_orphan()); }
        let mut rej: HashSet<(usize, usize, u32)> = HashSet::new(); if rng.chance(50) { for a in 0..n { for Edge(u, v, e) in nodes[a].iter() { if rng.chance(25) { rej.insert((*u.key(), *v.key(), e)); } } } }
        for s in 0..n { for t in 0..n {
            macro_rules! f { () => { &mut |Edge(u, v, e): &Edge<usize, i64, u32>| !rej.contains(&(*u.key(), *v.key(), *e)) } }
            write!(o, "\n{s}>{t} b{} d{} p{} P{}", pe!(nodes[s].bfs().target(&t).filter(f!()).search_path()), pe!(nodes[s].dfs().target(&t).filter(f!()).search_path()), pe!(nodes[s].pfs().target(&t).filter(f!()).search_path()), pe!(nodes[s].pfs().max().target(&t).filter(f!()).search_path()));
            write!(o, " s{:?}{:?}{:?}", nodes[s].bfs().target(&t).search().map(|x| *x.key()), nodes[s].dfs().target(&t).search().map(|x| *x.key()), nodes[s].pfs().target(&t).search().map(|x| *x.key())); }
            macro_rules! f { () => { &mut |Edge(u, v, e): &Edge<usize, i64, u32>| !rej.contains(&(*u.key(), *v.key(), *e)) } }
            write!(o, "\ncyc{s} {} {} {} {}", pe!(nodes[s].bfs().filter(f!()).search_cycle()), pe!(nodes[s].dfs().filter(f!()).search_cycle()), pe!(nodes[s].pfs().filter(f!()).search_cycle()), pe!(nodes[s].pfs().max().filter(f!()).search_cycle()));
            write!(o, "\nord{s} {} {} {} {}", ks!(nodes[s].order().pre().filter(f!()).search_nodes()), ks!(nodes[s].order().post().filter(f!()).search_nodes()), es!(nodes[s].order().pre().filter(f!()).search_edges()), es!(nodes[s].order().post().filter(f!()).search_edges()));
            for kind in 0..6 { let mut tr = vec![]; { let mut cb = |Edge(u, v, e): &Edge<usize, i64, u32>| tr.push((*u.key(), *v.key(), *e));
                match kind { 0 => { nodes[s].bfs().for_each(&mut cb).search(); } 1 => { nodes[s].dfs().for_each(&mut cb).search(); } 2 => { nodes[s].pfs().for_each(&mut cb).search(); } 3 => { nodes[s].pfs().max().for_each(&mut cb).search(); }
                    4 => { nodes[s].order().pre().for_each(&mut cb).search_nodes(); } _ => { nodes[s].order().post().for_each(&mut cb).search_nodes(); } } }
                write!(o, " tr{kind}{:?}", tr); } }
        let mut g: Graph<usize, i64, u32> = Graph::new(); for x in &nodes { g.insert(x.clone()); }
        let mut dot: Vec<String> = g.to_dot().lines().map(|l| l.to_string()).collect(); dot.sort(); write!(o, "\ndot{:?}", dot);
        let h: Graph<usize, i64, u32> = serde_json::from_str(&serde_json::to_string(&g).unwrap()).unwrap();
        for a in 0..n { let mut v: Vec<(usize, u32)> = h[a].iter().map(|Edge(_, v, e)| (*v.key(), e)).collect(); v.sort(); write!(o, " rt{:?}", v); }
        o } } } }
undirected!(un, ungraph); undirected!(sun, sync_ungraph);
fn main() {
    let iters: u64 = std::env::args().nth(1).and_then(|x| x.parse().ok()).unwrap_or(500); let mut bad = 0; let mut bytes = 0usize;
    for seed in 0..iters { let (a, b) = (di::run(seed), sdi::run(seed)); bytes += a.len(); if a != b { bad += 1; if bad < 3 { let i = a.bytes().zip(b.bytes()).position(|(x, y)| x != y).unwrap_or(0); println!("DIRECTED DIFF seed {seed}:\n  plain: …{}\n  sync : …{}", &a[i.saturating_sub(80)..(i + 80).min(a.len())], &b[i.saturating_sub(80)..(i + 80).min(b.len())]); } }
        let (a, b) = (un::run(seed), sun::run(seed)); bytes += a.len(); if a != b { bad += 1; if bad < 3 { let i = a.bytes().zip(b.bytes()).position(|(x, y)| x != y).unwrap_or(0); println!("UNDIRECTED DIFF seed {seed}:\n  plain: …{}\n  sync : …{}", &a[i.saturating_sub(80)..(i + 80).min(a.len())], &b[i.saturating_sub(80)..(i + 80).min(b.len())]); } } }
    println!("seeds={iters} differing={bad} compared_bytes={bytes}");
}

/-! Spike: std `BinaryHeap` push/pop transcribed on lists; heap invariant and "pop returns a maximum". -/
namespace SpikeHeap

-- elements are compared through a total preorder given by a key into `Nat` (node value)
variable {α : Type} (key : α → Nat)

/-- `hole.element() <= hole.get(parent)` -/
abbrev le (a b : α) : Prop := key a ≤ key b

/-- `sift_up(start = 0, pos)`: the element `x` travels up from `pos`; returns the final array.
    `d` is the array with a hole at `pos` (the slot content is irrelevant). -/
def siftUp (x : α) : Nat → List α → List α
  | 0, d => d.set 0 x
  | pos + 1, d =>
    let parent := pos / 2          -- (pos + 1 - 1) / 2
    match d[parent]? with
    | none => d.set (pos + 1) x
    | some p => if key x ≤ key p then d.set (pos + 1) x else siftUp x parent (d.set (pos + 1) p)
termination_by pos => pos
decreasing_by omega

def push (d : List α) (x : α) : List α := siftUp key x d.length (d ++ [x])

/-- heap invariant: every non-root element is below its parent -/
def IsHeap (d : List α) : Prop := ∀ i, 0 < i → ∀ (h : i < d.length), key d[i] ≤ key (d[(i - 1) / 2]'(by omega))

/-- invariant with the pair (pos, parent pos) exempt, and: grandchildren constraint so that moving the
    parent down is safe -/
def HeapExcept (d : List α) (pos : Nat) : Prop :=
  (∀ i, 0 < i → i ≠ pos → ∀ (h : i < d.length), key d[i] ≤ key (d[(i - 1) / 2]'(by omega))) ∧
  (∀ c, (c - 1) / 2 = pos → 0 < c → 0 < pos → ∀ (h : c < d.length) (h' : (pos - 1) / 2 < d.length), key d[c] ≤ key d[(pos - 1) / 2])

theorem root_max (d : List α) (hd : IsHeap key d) : ∀ i (h : i < d.length), key d[i] ≤ key (d[0]'(by omega)) := by
  intro i
  induction i using Nat.strongRecOn with
  | _ i ih =>
    intro h
    by_cases hi : i = 0
    · subst hi; exact Nat.le_refl _
    · have h1 := hd i (by omega) h
      have h2 := ih ((i - 1) / 2) (by omega) (by omega)
      exact Nat.le_trans h1 h2

theorem siftUp_length (x : α) (pos : Nat) (d : List α) : (siftUp key x pos d).length = d.length := by
  fun_induction siftUp key x pos d <;> simp_all

theorem siftUp_heap (x : α) (pos : Nat) (d : List α) (hpos : pos < d.length)
    (hex : HeapExcept key d pos)
    (hchild : ∀ c, (c - 1) / 2 = pos → 0 < c → ∀ (h : c < d.length), key d[c] ≤ key x) :
    IsHeap key (siftUp key x pos d) := by
  fun_induction siftUp key x pos d with
  | case1 d =>
    intro i hi h
    simp only [List.length_set] at h
    have := hex.1 i hi (by omega) h
    by_cases hp : (i - 1) / 2 = 0
    · simp only [hp, List.getElem_set_self, List.getElem_set_ne (Nat.ne_of_lt hi)]
      exact hchild i hp hi h
    · rw [List.getElem_set_ne (Nat.ne_of_lt hi), List.getElem_set_ne (by omega)]; exact this
  | case2 pos d parent hnone =>
    exfalso; have : parent < d.length := by simp only [parent]; omega
    simp [List.getElem?_eq_getElem this] at hnone
  | case3 pos d parent p hp hle =>
    have hpl : parent < d.length := by simp only [parent]; omega
    have hpe : d[parent] = p := by simpa [List.getElem?_eq_getElem hpl] using hp
    intro i hi h
    simp only [List.length_set] at h
    by_cases hip : i = pos + 1
    · subst hip
      simp only [List.getElem_set_self]
      rw [List.getElem_set_ne (by omega)]
      have : (pos + 1 - 1) / 2 = parent := by simp [parent]
      simp only [this, hpe]; exact hle
    · by_cases hpar : (i - 1) / 2 = pos + 1
      · simp only [hpar, List.getElem_set_self]
        rw [List.getElem_set_ne (by omega)]
        exact hchild i hpar hi h
      · rw [List.getElem_set_ne (by omega), List.getElem_set_ne (by omega)]
        exact hex.1 i hi hip h
  | case4 pos d parent p hp hnle ih =>
    have hpl : parent < d.length := by simp only [parent]; omega
    have hpe : d[parent] = p := by simpa [List.getElem?_eq_getElem hpl] using hp
    have hpp : (pos + 1 - 1) / 2 = parent := by simp [parent]
    apply ih
    · simp only [List.length_set]; exact hpl
    · constructor
      · intro i hi hne h
        simp only [List.length_set] at h
        by_cases hip : i = pos + 1
        · subst hip
          simp only [List.getElem_set_self, hpp]
          rw [List.getElem_set_ne (by omega), hpe]; exact Nat.le_refl _
        · by_cases hpar : (i - 1) / 2 = pos + 1
          · simp only [hpar, List.getElem_set_self]
            rw [List.getElem_set_ne (by omega)]
            have := hex.2 i hpar hi (by omega) h (by omega)
            have hp2 : d[(pos + 1 - 1) / 2]'(by omega) = p := by simpa [hpp] using hpe
            rw [hp2] at this; exact this
          · rw [List.getElem_set_ne (by omega), List.getElem_set_ne (by omega)]
            exact hex.1 i hi hip h
      · intro c hc hc0 hpar0 h h'
        simp only [List.length_set] at h h'
        -- c is a child of `parent`; its new grandparent bound follows from the old invariant at `parent`
        have hgp := hex.1 parent hpar0 (by omega) hpl
        by_cases hcp : c = pos + 1
        · subst hcp
          simp only [List.getElem_set_self]
          rw [List.getElem_set_ne (by omega)]
          simpa [hpe] using hgp
        · rw [List.getElem_set_ne (by omega), List.getElem_set_ne (by omega)]
          have h1 := hex.1 c hc0 hcp h
          simp only [hc] at h1
          exact Nat.le_trans h1 hgp
    · intro c hc hc0 h
      simp only [List.length_set] at h
      by_cases hcp : c = pos + 1
      · subst hcp; simp only [List.getElem_set_self]; omega
      · rw [List.getElem_set_ne (by omega)]
        have h1 := hex.1 c hc0 hcp h
        simp only [hc, hpe] at h1; omega

theorem push_heap (d : List α) (x : α) (hd : IsHeap key d) : IsHeap key (push key d x) := by
  unfold push
  apply siftUp_heap
  · simp
  · constructor
    · intro i hi hne h
      simp only [List.length_append, List.length_singleton] at h
      have hil : i < d.length := by omega
      rw [List.getElem_append_left hil, List.getElem_append_left (by omega)]
      exact hd i hi hil
    · intro c hc _ _ h _
      simp only [List.length_append, List.length_singleton] at h
      omega
  · intro c hc _ h
    simp only [List.length_append, List.length_singleton] at h
    omega

#print axioms push_heap
#print axioms root_max
end SpikeHeap

//! Verification hook (cfg gdsl_verif): a reader-writer lock with the surface the
//! sync node modules use, reporting lock events to an installable callback.
use std::ops::{Deref, DerefMut};
use std::sync::{LockResult, OnceLock, PoisonError};

#[derive(Clone, Copy, Debug, PartialEq, Eq)]
pub enum Event {
    Request { addr: usize, write: bool },
    Acquired { addr: usize, write: bool },
    Released { addr: usize, write: bool },
}

type Callback = Box<dyn Fn(Event) + Send + Sync>;
static CALLBACK: OnceLock<Callback> = OnceLock::new();

/// Installs the callback (once per process). Without it the lock is inert.
pub fn install(cb: Callback) -> bool {
    CALLBACK.set(cb).is_ok()
}

fn emit(e: Event) {
    if let Some(cb) = CALLBACK.get() {
        cb(e)
    }
}

pub struct RwLock<T>(std::sync::RwLock<T>);

pub struct ReadGuard<'a, T>(Option<std::sync::RwLockReadGuard<'a, T>>, usize);
pub struct WriteGuard<'a, T>(Option<std::sync::RwLockWriteGuard<'a, T>>, usize);

impl<T> RwLock<T> {
    pub fn new(t: T) -> Self {
        RwLock(std::sync::RwLock::new(t))
    }
    fn addr(&self) -> usize {
        &self.0 as *const _ as usize
    }
    pub fn read(&self) -> LockResult<ReadGuard<'_, T>> {
        let addr = self.addr();
        emit(Event::Request { addr, write: false });
        let r = self.0.read();
        emit(Event::Acquired { addr, write: false });
        match r {
            Ok(g) => Ok(ReadGuard(Some(g), addr)),
            Err(p) => Err(PoisonError::new(ReadGuard(Some(p.into_inner()), addr))),
        }
    }
    pub fn write(&self) -> LockResult<WriteGuard<'_, T>> {
        let addr = self.addr();
        emit(Event::Request { addr, write: true });
        let r = self.0.write();
        emit(Event::Acquired { addr, write: true });
        match r {
            Ok(g) => Ok(WriteGuard(Some(g), addr)),
            Err(p) => Err(PoisonError::new(WriteGuard(Some(p.into_inner()), addr))),
        }
    }
}

impl<T> Deref for ReadGuard<'_, T> {
    type Target = T;
    fn deref(&self) -> &T {
        self.0.as_ref().unwrap()
    }
}
impl<T> Deref for WriteGuard<'_, T> {
    type Target = T;
    fn deref(&self) -> &T {
        self.0.as_ref().unwrap()
    }
}
impl<T> DerefMut for WriteGuard<'_, T> {
    fn deref_mut(&mut self) -> &mut T {
        self.0.as_mut().unwrap()
    }
}
impl<T> Drop for ReadGuard<'_, T> {
    fn drop(&mut self) {
        self.0.take();
        emit(Event::Released { addr: self.1, write: false });
    }
}
impl<T> Drop for WriteGuard<'_, T> {
    fn drop(&mut self) {
        self.0.take();
        emit(Event::Released { addr: self.1, write: true });
    }
}

// --- added with repair F14 (mutation mutex): the same wrapper for `std::sync::Mutex`, so that the
// --- scheduler sees the mutex as a lock like any other (mode = write)
pub struct Mutex<T>(std::sync::Mutex<T>);
pub struct MutexGuard<'a, T>(Option<std::sync::MutexGuard<'a, T>>, usize);

impl<T> Mutex<T> {
    pub const fn new(t: T) -> Self {
        Mutex(std::sync::Mutex::new(t))
    }
    pub fn lock(&self) -> LockResult<MutexGuard<'_, T>> {
        let addr = &self.0 as *const _ as usize;
        emit(Event::Request { addr, write: true });
        let r = self.0.lock();
        emit(Event::Acquired { addr, write: true });
        match r {
            Ok(g) => Ok(MutexGuard(Some(g), addr)),
            Err(p) => Err(PoisonError::new(MutexGuard(Some(p.into_inner()), addr))),
        }
    }
}
impl<T> Deref for MutexGuard<'_, T> {
    type Target = T;
    fn deref(&self) -> &T {
        self.0.as_ref().unwrap()
    }
}
impl<T> Drop for MutexGuard<'_, T> {
    fn drop(&mut self) {
        self.0.take();
        emit(Event::Released { addr: self.1, write: true });
    }
}

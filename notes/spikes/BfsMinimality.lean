/-! Spike: BFS minimality. Same loop model as BfsCompleteness; ghost depth function `d`. -/
namespace SpikeBfsMin
variable {K : Type} [DecidableEq K]

inductive ScanRes (K : Type) where
  | found (tree : List (K × K))
  | cont (vis : List K) (tree : List (K × K)) (q : List K)

def scan (t u : K) : List K → List K → List (K × K) → List K → ScanRes K
  | [], vis, tree, q => .cont vis tree q
  | v :: vs, vis, tree, q =>
    if v ∈ vis then scan t u vs vis tree q
    else if v = t then .found (tree ++ [(u, v)])
    else scan t u vs (v :: vis) (tree ++ [(u, v)]) (q ++ [v])

inductive Out (K : Type) where
  | found (tree : List (K × K)) | exhausted | outOfFuel

def bfs (adj : K → List K) (t : K) : Nat → List K → List K → List (K × K) → Out K
  | 0, _, _, _ => .outOfFuel
  | _+1, [], _, _ => .exhausted
  | fuel+1, u :: q, vis, tree =>
    match scan t u (adj u) vis tree q with
    | .found tree' => .found tree'
    | .cont vis' tree' q' => bfs adj t fuel q' vis' tree'

/-- walks of length `n` in the graph -/
inductive Walk (adj : K → List K) : K → K → Nat → Prop where
  | refl (a : K) : Walk adj a a 0
  | step {a b c : K} {n : Nat} : Walk adj a b n → c ∈ adj b → Walk adj a c (n + 1)

/-- walks of length `n` that use only edges recorded in `tree` -/
inductive TreeWalk (tree : List (K × K)) : K → K → Nat → Prop where
  | refl (a : K) : TreeWalk tree a a 0
  | step {a b c : K} {n : Nat} : TreeWalk tree a b n → (b, c) ∈ tree → TreeWalk tree a c (n + 1)

theorem TreeWalk.mono {tree tree' : List (K × K)} (h : ∀ e ∈ tree, e ∈ tree') {a b : K} {n : Nat}
    (w : TreeWalk tree a b n) : TreeWalk tree' a b n := by
  induction w with
  | refl => exact .refl _
  | step _ he ih => exact .step ih (h _ he)

/-- invariant while node `u` (already popped) is being scanned -/
structure SInv (adj : K → List K) (r t u : K) (vis q : List K) (tree : List (K × K)) (d : K → Nat) : Prop where
  hu : u ∈ vis
  rootvis : r ∈ vis
  qvis : ∀ x ∈ q, x ∈ vis
  tnot : t ∉ vis
  exp_closed : ∀ x ∈ vis, x ≠ u → x ∉ q → ∀ y ∈ adj x, y ∈ vis
  low : ∀ x ∈ vis, ∀ n, Walk adj r x n → d x ≤ n
  front_ge : ∀ x ∈ q, d u ≤ d x
  front_le : ∀ x ∈ q, d x ≤ d u + 1
  sorted : q.Pairwise (fun a b => d a ≤ d b)
  twalk : ∀ x ∈ vis, TreeWalk tree r x (d x)

/-- frontier lemma: every walk to an unvisited node is longer than the depth of the node being expanded -/
theorem frontier {adj : K → List K} {r t u : K} {vis q : List K} {tree : List (K × K)} {d : K → Nat}
    (inv : SInv adj r t u vis q tree d) {x : K} {n : Nat} (w : Walk adj r x n) (hx : x ∉ vis) : d u + 1 ≤ n := by
  induction w with
  | refl => exact absurd inv.rootvis hx
  | @step b c n w hc ih =>
    by_cases hb : b ∈ vis
    · have hlow := inv.low b hb n w
      by_cases hbu : b = u
      · subst hbu; omega
      · by_cases hbq : b ∈ q
        · have := inv.front_ge b hbq; omega
        · exact absurd (inv.exp_closed b hb hbu hbq c hc) hx
    · have := ih hb; omega

/-- what we want to know when the target is found -/
def Goal (adj : K → List K) (r t : K) (tree' : List (K × K)) : Prop :=
  ∃ k, TreeWalk tree' r t k ∧ ∀ n, Walk adj r t n → k ≤ n

theorem scan_spec (adj : K → List K) (r t u : K) (hrt : r ≠ t) (done vs : List K) (hsplit : adj u = done ++ vs)
    (vis q : List K) (tree : List (K × K)) (d : K → Nat)
    (inv : SInv adj r t u vis q tree d) (hdone : ∀ y ∈ done, y ∈ vis) :
    match scan t u vs vis tree q with
    | .found tree' => Goal adj r t tree'
    | .cont vis' tree' q' => ∃ d', SInv adj r t u vis' q' tree' d' ∧ (∀ y ∈ adj u, y ∈ vis') := by
  induction vs generalizing done vis q tree d with
  | nil =>
    simp only [scan]
    exact ⟨d, inv, by intro y hy; rw [hsplit] at hy; simpa using hdone y (by simpa using hy)⟩
  | cons v vs ih =>
    simp only [scan]
    have hv_adj : v ∈ adj u := by rw [hsplit]; simp
    have hsplit' : adj u = (done ++ [v]) ++ vs := by rw [hsplit]; simp
    by_cases hv : v ∈ vis
    · simp only [if_pos hv]
      exact ih (done ++ [v]) hsplit' vis q tree d inv (by intro y hy; rcases List.mem_append.mp hy with h | h; exact hdone y h; simp at h; subst h; exact hv)
    · simp only [if_neg hv]
      by_cases hvt : v = t
      · simp only [if_pos hvt]
        subst hvt
        refine ⟨d u + 1, ?_, ?_⟩
        · exact .step ((inv.twalk u inv.hu).mono (by intro e he; simp [he])) (by simp)
        · intro n w; exact frontier inv w hv
      · simp only [if_neg hvt]
        -- new node `v` at depth `d u + 1`
        let d' : K → Nat := fun x => if x = v then d u + 1 else d x
        have hd' : ∀ x ∈ vis, d' x = d x := by
          intro x hx; simp only [d']; split
          · rename_i h; subst h; exact absurd hx hv
          · rfl
        have hd'v : d' v = d u + 1 := by simp [d']
        have hd'u : d' u = d u := hd' u inv.hu
        have inv' : SInv adj r t u (v :: vis) (q ++ [v]) (tree ++ [(u, v)]) d' := by
          refine ⟨List.mem_cons_of_mem _ inv.hu, List.mem_cons_of_mem _ inv.rootvis, ?_, ?_, ?_, ?_, ?_, ?_, ?_, ?_⟩
          · intro x hx; rcases List.mem_append.mp hx with h | h
            · exact List.mem_cons_of_mem _ (inv.qvis x h)
            · simp at h; subst h; simp
          · intro h; rcases List.mem_cons.mp h with h | h
            · exact hvt h.symm
            · exact inv.tnot h
          · intro x hx hxu hxq y hy
            rcases List.mem_cons.mp hx with h | h
            · subst h; exact absurd (List.mem_append_right q (by simp)) hxq
            · exact List.mem_cons_of_mem _ (inv.exp_closed x h hxu (fun hq => hxq (List.mem_append_left _ hq)) y hy)
          · intro x hx n w
            rcases List.mem_cons.mp hx with h | h
            · subst h; rw [hd'v]; exact frontier inv w hv
            · rw [hd' x h]; exact inv.low x h n w
          · intro x hx; rw [hd'u]
            rcases List.mem_append.mp hx with h | h
            · rw [hd' x (inv.qvis x h)]; exact inv.front_ge x h
            · simp at h; subst h; rw [hd'v]; omega
          · intro x hx; rw [hd'u]
            rcases List.mem_append.mp hx with h | h
            · rw [hd' x (inv.qvis x h)]; exact inv.front_le x h
            · simp at h; subst h; rw [hd'v]; omega
          · rw [List.pairwise_append]
            refine ⟨?_, by simp, ?_⟩
            · exact inv.sorted.imp_of_mem (fun {a b} ha hb hab => by rw [hd' a (inv.qvis a ha), hd' b (inv.qvis b hb)]; exact hab)
            · intro a ha b hb; simp at hb; subst hb
              rw [hd' a (inv.qvis a ha), hd'v]; exact inv.front_le a ha
          · intro x hx
            rcases List.mem_cons.mp hx with h | h
            · subst h; rw [hd'v]
              exact .step ((inv.twalk u inv.hu).mono (by intro e he; simp [he])) (by simp)
            · rw [hd' x h]; exact (inv.twalk x h).mono (by intro e he; simp [he])
        exact ih (done ++ [v]) hsplit' (v :: vis) (q ++ [v]) (tree ++ [(u, v)]) d' inv'
          (by intro y hy; rcases List.mem_append.mp hy with h | h
              · exact List.mem_cons_of_mem _ (hdone y h)
              · simp at h; subst h; simp)

/-- invariant at the top of the outer loop -/
structure OInv (adj : K → List K) (r t : K) (vis q : List K) (tree : List (K × K)) (d : K → Nat) : Prop where
  rootvis : r ∈ vis
  qvis : ∀ x ∈ q, x ∈ vis
  tnot : t ∉ vis
  exp_closed : ∀ x ∈ vis, x ∉ q → ∀ y ∈ adj x, y ∈ vis
  low : ∀ x ∈ vis, ∀ n, Walk adj r x n → d x ≤ n
  span : ∀ x ∈ q, ∀ y ∈ q, d x ≤ d y + 1
  sorted : q.Pairwise (fun a b => d a ≤ d b)
  twalk : ∀ x ∈ vis, TreeWalk tree r x (d x)

theorem bfs_found_min (adj : K → List K) (r t : K) (hrt : r ≠ t) (fuel : Nat) (q vis : List K) (tree : List (K × K))
    (d : K → Nat) (inv : OInv adj r t vis q tree d) (tree' : List (K × K))
    (h : bfs adj t fuel q vis tree = .found tree') : Goal adj r t tree' := by
  induction fuel generalizing q vis tree d with
  | zero => simp [bfs] at h
  | succ fuel ih =>
    cases q with
    | nil => simp [bfs] at h
    | cons u q =>
      simp only [bfs] at h
      have hs := List.pairwise_cons.mp inv.sorted
      have sinv : SInv adj r t u vis q tree d :=
        ⟨inv.qvis u (by simp), inv.rootvis, fun x hx => inv.qvis x (List.mem_cons_of_mem _ hx), inv.tnot,
          fun x hx hxu hxq => inv.exp_closed x hx (by simp [hxu, hxq]), inv.low, fun x hx => hs.1 x hx,
          fun x hx => inv.span x (List.mem_cons_of_mem _ hx) u (by simp), hs.2, inv.twalk⟩
      have spec := scan_spec adj r t u hrt [] (adj u) (by simp) vis q tree d sinv (by simp)
      split at h
      · rename_i tree1 hsc
        rw [hsc] at spec; simp only at spec
        simp at h; subst h; exact spec
      · rename_i vis1 tree1 q1 hsc
        rw [hsc] at spec; simp only at spec
        obtain ⟨d1, s1, hall⟩ := spec
        apply ih q1 vis1 tree1 d1 _ h
        exact ⟨s1.rootvis, s1.qvis, s1.tnot,
          fun x hx hxq => by
            by_cases hxu : x = u
            · subst hxu; exact hall
            · exact s1.exp_closed x hx hxu hxq,
          s1.low,
          fun x hx y hy => by have a := s1.front_le x hx; have b := s1.front_ge y hy; omega,
          s1.sorted, s1.twalk⟩

/-- C04 minimality on the model: the discovery tree contains a walk to the target that is no longer
    than any walk in the graph -/
theorem bfs_minimal (adj : K → List K) (r t : K) (hrt : r ≠ t) (fuel : Nat) (tree' : List (K × K))
    (h : bfs adj t fuel [r] [r] [] = .found tree') :
    ∃ k, TreeWalk tree' r t k ∧ ∀ n, Walk adj r t n → k ≤ n := by
  apply bfs_found_min adj r t hrt fuel [r] [r] [] (fun _ => 0) _ tree' h
  refine ⟨by simp, by simp, by simp; exact fun h => hrt h.symm, by simp, by intro x hx n _; simp, by simp, by simp, ?_⟩
  intro x hx; simp at hx; subst hx; exact .refl _

#print axioms bfs_minimal
end SpikeBfsMin

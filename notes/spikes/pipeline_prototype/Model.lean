/-! Pipeline prototype: executable model of the edge operations (directed and undirected, repaired). -/
namespace G
structure Adj where
  out : List (Nat × Nat) := []
  inn : List (Nat × Nat) := []
structure Store where
  cells : List (Nat × Adj) := []

def Store.get (s : Store) (k : Nat) : Adj :=
  match s.cells.find? (fun p => p.1 = k) with
  | some p => p.2
  | none => {}
def setCells : List (Nat × Adj) → Nat → Adj → List (Nat × Adj)
  | [], k, a => [(k, a)]
  | (k', a') :: t, k, a => if k' = k then (k, a) :: t else (k', a') :: setCells t k a
def Store.set (s : Store) (k : Nat) (a : Adj) : Store := ⟨setCells s.cells k a⟩

def removeFirst : List (Nat × Nat) → Nat → Option (Nat × List (Nat × Nat))
  | [], _ => none
  | (k', e) :: t, k => if k' = k then some (e, t) else
      match removeFirst t k with
      | none => none
      | some (e', t') => some (e', (k', e) :: t')

inductive Res where
  | unit | val (e : Nat) | notFound | exists_ | panic
def Res.show : Res → String
  | .unit => "ok" | .val e => s!"ok {e}" | .notFound => "err notfound" | .exists_ => "err exists" | .panic => "panic"

def hasKey (l : List (Nat × Nat)) (k : Nat) : Bool := l.any (fun p => p.1 = k)

def connect (s : Store) (u v e : Nat) : Store :=
  let au := s.get u
  let s1 := s.set u { au with out := au.out ++ [(v, e)] }
  let av := s1.get v
  s1.set v { av with inn := av.inn ++ [(u, e)] }

/-- remove the first `b` entry of `a.out` and the first `a` entry of `b.inn` -/
def removePair (s : Store) (a b : Nat) : Store × Res :=
  match removeFirst (s.get a).out b with
  | none => (s, .notFound)
  | some (e, out') =>
    let s1 := s.set a { s.get a with out := out' }
    match removeFirst (s1.get b).inn a with
    | none => (s1, .notFound)
    | some (_, inn') => (s1.set b { s1.get b with inn := inn' }, .val e)

namespace Di
def tryConnect (s : Store) (u v e : Nat) : Store × Res :=
  if hasKey (s.get u).out v then (s, .exists_) else (connect s u v e, .unit)
def disconnect (s : Store) (u v : Nat) : Store × Res :=
  if hasKey (s.get u).out v then removePair s u v else (s, .notFound)
def isoOutLoop (u : Nat) : Nat → Nat → Store → Store × Bool
  | 0, _, s => (s, false)
  | fuel + 1, pos, s =>
    match (s.get u).out[pos]? with
    | none => (s, false)
    | some (v, _) =>
      match removeFirst (s.get v).inn u with
      | none => (s, true)
      | some (_, inn') => isoOutLoop u fuel (pos + 1) (s.set v { s.get v with inn := inn' })
def isoInLoop (u : Nat) : Nat → Nat → Store → Store × Bool
  | 0, _, s => (s, false)
  | fuel + 1, pos, s =>
    match (s.get u).inn[pos]? with
    | none => (s, false)
    | some (v, _) =>
      match removeFirst (s.get v).out u with
      | none => (s, true)
      | some (_, out') => isoInLoop u fuel (pos + 1) (s.set v { s.get v with out := out' })
def isolate (s : Store) (u : Nat) : Store × Res :=
  match isoOutLoop u (s.get u).out.length 0 s with
  | (s1, true) => (s1, .panic)
  | (s1, false) =>
    match isoInLoop u (s1.get u).inn.length 0 s1 with
    | (s2, true) => (s2, .panic)
    | (s2, false) => (s2.set u {}, .unit)
end Di

namespace Un
def tryConnect (s : Store) (u v e : Nat) : Store × Res :=
  if hasKey (s.get u).out v || hasKey (s.get u).inn v then (s, .exists_) else (connect s u v e, .unit)
/-- repaired: the inbound half (v→u) first, with its partner in `v.out`; else the outbound half -/
def disconnect (s : Store) (u v : Nat) : Store × Res :=
  if hasKey (s.get u).out v || hasKey (s.get u).inn v then
    if hasKey (s.get u).inn v then removePair s v u else removePair s u v
  else (s, .notFound)
/-- `for Edge(_, v, _) in self.iter()` : position into out ++ inn of the *live* store -/
def isoLoop (u : Nat) : Nat → Nat → Store → Store × Bool
  | 0, _, s => (s, false)
  | fuel + 1, pos, s =>
    let a := s.get u
    match (a.out ++ a.inn)[pos]? with
    | none => (s, false)
    | some (v, _) =>
      match removeFirst (s.get v).inn u with
      | some (_, inn') => isoLoop u fuel (pos + 1) (s.set v { s.get v with inn := inn' })
      | none =>
        match removeFirst (s.get v).out u with
        | none => (s, true)
        | some (_, out') => isoLoop u fuel (pos + 1) (s.set v { s.get v with out := out' })
def isolate (s : Store) (u : Nat) : Store × Res :=
  let a := s.get u
  match isoLoop u (a.out.length + a.inn.length) 0 s with
  | (s1, true) => (s1, .panic)
  | (s1, false) => (s1.set u {}, .unit)
end Un
end G

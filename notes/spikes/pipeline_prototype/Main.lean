import P.Model
open G
structure St where
  directed : Bool := true
  keys : List Nat := []
  s : Store := {}

def showList (l : List (Nat × Nat)) : String := "[" ++ ", ".intercalate (l.map fun (k, e) => s!"({k}, {e})") ++ "]"

def dump (st : St) : String :=
  " ".intercalate (st.keys.map fun k =>
    let a := st.s.get k
    if st.directed then s!"{k}:{showList a.out}/{showList a.inn}" else s!"{k}:{showList (a.out ++ a.inn)}")

def step (st : St) (line : String) : St × String :=
  match line.trimAscii.toString.splitOn " " with
  | ["fl", f] => ({ directed := f == "digraph" || f == "sync_digraph" }, "ok")
  | ["new", k] => match k.toNat? with
    | some k => ({ st with keys := st.keys ++ [k] }, "ok")
    | none => (st, "bad-op")
  | ["connect", u, v, e] => match u.toNat?, v.toNat?, e.toNat? with
    | some u, some v, some e => ({ st with s := connect st.s u v e }, "ok")
    | _, _, _ => (st, "bad-op")
  | ["try_connect", u, v, e] => match u.toNat?, v.toNat?, e.toNat? with
    | some u, some v, some e =>
      let (s', r) := if st.directed then Di.tryConnect st.s u v e else Un.tryConnect st.s u v e
      ({ st with s := s' }, r.show)
    | _, _, _ => (st, "bad-op")
  | ["disconnect", u, v] => match u.toNat?, v.toNat? with
    | some u, some v =>
      let (s', r) := if st.directed then Di.disconnect st.s u v else Un.disconnect st.s u v
      ({ st with s := s' }, r.show)
    | _, _ => (st, "bad-op")
  | ["isolate", u] => match u.toNat? with
    | some u =>
      let (s', r) := if st.directed then Di.isolate st.s u else Un.isolate st.s u
      ({ st with s := s' }, r.show)
    | none => (st, "bad-op")
  | ["dump"] => (st, dump st)
  | _ => (st, "bad-op")

partial def loop (h : IO.FS.Stream) (out : IO.FS.Stream) (st : St) : IO Unit := do
  let line ← h.getLine
  if line.isEmpty then return ()
  let (st', o) := step st line
  out.putStrLn o
  loop h out st'

def main : IO Unit := do loop (← IO.getStdin) (← IO.getStdout) {}

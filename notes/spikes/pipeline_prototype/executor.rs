#![allow(unused, clippy::all)]
//! Pipeline prototype: `gen <seed> <n>` writes a program; `run` executes a program from stdin on the real code.
use std::fmt::Write as _;
use std::io::{BufRead, Write};
use std::panic::{catch_unwind, AssertUnwindSafe};
struct Rng(u64);
impl Rng { fn new(s: u64) -> Self { Rng(s.wrapping_mul(0x9E3779B97F4A7C15) | 1) } fn next(&mut self) -> u64 { let mut x = self.0; x ^= x << 13; x ^= x >> 7; x ^= x << 17; self.0 = x; x }
    fn below(&mut self, n: usize) -> usize { (self.next() % n as u64) as usize } fn chance(&mut self, p: u64) -> bool { self.next() % 100 < p } }
fn show(l: &[(usize, u32)]) -> String { format!("[{}]", l.iter().map(|(k, e)| format!("({k}, {e})")).collect::<Vec<_>>().join(", ")) }
fn res<T: std::fmt::Display>(r: Result<T, gdsl::error::Error>, unit: bool) -> String { match r { Ok(v) => if unit { "ok".into() } else { format!("ok {v}") }, Err(gdsl::error::Error::EdgeNotFound) => "err notfound".into(), Err(gdsl::error::Error::EdgeAlreadyExists) => "err exists".into() } }
macro_rules! exec { ($name:ident, $fl:ident, $dump:expr) => {
    fn $name(lines: &[String], out: &mut impl Write) { use gdsl::$fl::*;
        let mut nodes: Vec<(usize, Node<usize, i64, u32>)> = vec![];
        let find = |nodes: &Vec<(usize, Node<usize, i64, u32>)>, k: usize| nodes.iter().find(|x| x.0 == k).unwrap().1.clone();
        for l in lines { let t: Vec<&str> = l.split(' ').collect(); let p = |i: usize| t[i].parse::<usize>().unwrap();
            let o = catch_unwind(AssertUnwindSafe(|| match t[0] {
                "new" => { nodes.push((p(1), Node::new(p(1), 0))); "ok".to_string() }
                "connect" => { find(&nodes, p(1)).connect(&find(&nodes, p(2)), p(3) as u32); "ok".into() }
                "try_connect" => res(find(&nodes, p(1)).try_connect(&find(&nodes, p(2)), p(3) as u32).map(|_| 0), true),
                "disconnect" => res(find(&nodes, p(1)).disconnect(&p(2)), false),
                "isolate" => { find(&nodes, p(1)).isolate(); "ok".into() }
                "dump" => nodes.iter().map(|(k, n)| { let n = n.clone(); let f: &dyn Fn(&Node<usize, i64, u32>) -> String = &$dump; format!("{k}:{}", f(&n)) }).collect::<Vec<_>>().join(" "),
                _ => "bad-op".into() })).unwrap_or("panic".into());
            writeln!(out, "{o}").unwrap(); } } } }
exec!(run_di, digraph, |n| format!("{}/{}", show(&n.iter_out().map(|Edge(_, v, e)| (*v.key(), e)).collect::<Vec<_>>()), show(&n.iter_in().map(|Edge(u, _, e)| (*u.key(), e)).collect::<Vec<_>>())));
exec!(run_sdi, sync_digraph, |n| format!("{}/{}", show(&n.iter_out().map(|Edge(_, v, e)| (*v.key(), e)).collect::<Vec<_>>()), show(&n.iter_in().map(|Edge(u, _, e)| (*u.key(), e)).collect::<Vec<_>>())));
exec!(run_un, ungraph, |n| show(&n.iter().map(|Edge(_, v, e)| (*v.key(), e)).collect::<Vec<_>>()));
exec!(run_sun, sync_ungraph, |n| show(&n.iter().map(|Edge(_, v, e)| (*v.key(), e)).collect::<Vec<_>>()));
fn main() {
    std::panic::set_hook(Box::new(|_| {}));
    let a: Vec<String> = std::env::args().collect();
    if a[1] == "gen" { let seed: u64 = a[2].parse().unwrap(); let progs: usize = a[3].parse().unwrap(); let mut rng = Rng::new(seed); let so = std::io::stdout(); let mut o = std::io::BufWriter::new(so.lock());
        for p in 0..progs { let fl = ["digraph", "sync_digraph", "ungraph", "sync_ungraph"][p % 4]; writeln!(o, "fl {fl}").unwrap(); let n = 1 + rng.below(5); for k in 0..n { writeln!(o, "new {k}").unwrap(); }
            for _ in 0..(10 + rng.below(60)) { let u = rng.below(n); let v = if rng.chance(20) { u } else { rng.below(n) }; let e = rng.below(3);
                match rng.below(10) { 0..=3 => writeln!(o, "connect {u} {v} {e}"), 4 => writeln!(o, "try_connect {u} {v} {e}"), 5..=7 => writeln!(o, "disconnect {u} {v}"), _ => writeln!(o, "isolate {u}") }.unwrap();
                writeln!(o, "dump").unwrap(); } }
    } else { let stdin = std::io::stdin(); let lines: Vec<String> = stdin.lock().lines().map(|l| l.unwrap()).collect(); let so = std::io::stdout(); let mut o = std::io::BufWriter::new(so.lock());
        let mut i = 0; while i < lines.len() { let fl = lines[i].split(' ').nth(1).unwrap().to_string(); let mut j = i + 1; while j < lines.len() && !lines[j].starts_with("fl ") { j += 1; }
            writeln!(o, "ok").unwrap(); let body = &lines[i + 1..j];
            match fl.as_str() { "digraph" => run_di(body, &mut o), "sync_digraph" => run_sdi(body, &mut o), "ungraph" => run_un(body, &mut o), _ => run_sun(body, &mut o) } i = j; } }
}

import random, subprocess, sys
def le(a,b,mn):  # a <= b under heap ordering (max-heap of val; for min: Reverse)
    return (a[0] >= b[0]) if mn else (a[0] <= b[0])
def sift_up(d, start, pos, mn):
    elt = d[pos]
    while pos > start:
        parent = (pos-1)//2
        if le(elt, d[parent], mn): break
        d[pos] = d[parent]; pos = parent
    d[pos] = elt
    return pos
def sift_down_to_bottom(d, pos, mn):
    end = len(d); start = pos; elt = d[pos]; child = 2*pos+1
    while child <= max(end-2, 0) and end >= 2 and child <= end-2:
        if le(d[child], d[child+1], mn): child += 1
        d[pos] = d[child]; pos = child; child = 2*pos+1
    if child == end-1:
        d[pos] = d[child]; pos = child
    d[pos] = elt
    sift_up(d, start, pos, mn)
def push(d, x, mn): d.append(x); sift_up(d, 0, len(d)-1, mn)
def pop(d, mn):
    if not d: return None
    item = d.pop()
    if d:
        item, d[0] = d[0], item
        sift_down_to_bottom(d, 0, mn)
    return item
bad = 0
for seed in range(300):
    random.seed(seed); mn = seed % 2 == 0
    ops=[]; d=[]; exp=[]; nid=0
    for _ in range(random.randrange(5,120)):
        if random.random()<0.6:
            v=random.randrange(3); ops.append(f"push {v} {nid}"); push(d,(v,nid),mn); nid+=1
        else:
            ops.append("pop"); r=pop(d,mn); exp.append("none" if r is None else f"{r[0]} {r[1]}")
    out=subprocess.run(["/tmp/scratch/probe/target/release/probe","min" if mn else "max"],input="\n".join(ops)+"\n",capture_output=True,text=True).stdout.split("\n")[:-1]
    if out!=exp: bad+=1; print("MISMATCH seed",seed)
print("mismatches:",bad,"of 300")

namespace SpikeLock
inductive Mode | r | w deriving DecidableEq, Repr

inductive Prog (K S R : Type) where
  | done (res : R)
  | acq (m : Mode) (k : K) (next : Prog K S R)
  | rel (k : K) (next : Prog K S R)
  | get (cont : S → Prog K S R)
  | put (s : S) (next : Prog K S R)

variable {K S R : Type} [DecidableEq K]

/-- a program never requests a lock while holding one (`h` = currently holding) -/
inductive NoNest : Bool → Prog K S R → Prop where
  | done : NoNest false (.done r)
  | acq : NoNest true p → NoNest false (.acq m k p)
  | rel : NoNest false p → NoNest true (.rel k p)
  | get : (∀ s, NoNest b (c s)) → NoNest b (.get c)
  | put : NoNest b p → NoNest b (.put s p)

structure Thread (K S R : Type) where
  prog : Prog K S R
  held : Option (Mode × K)      -- at most one lock under NoNest

structure Conf (K S R : Type) where
  store : S
  threads : List (Thread K S R)

def compatible (m : Mode) (k : K) (others : List (Thread K S R)) : Bool :=
  others.all fun t => match t.held with
    | none => true
    | some (m', k') => k' ≠ k || (m = .r && m' = .r)

/-- one atomic event of thread `t` given the other threads; `none` = blocked or finished -/
def stepThread (s : S) (t : Thread K S R) (others : List (Thread K S R)) : Option (S × Thread K S R) :=
  match t.prog with
  | .done _ => none
  | .acq m k p => if t.held.isNone && compatible m k others then some (s, ⟨p, some (m, k)⟩) else none
  | .rel _ p => some (s, ⟨p, none⟩)
  | .get c => some (s, ⟨c s, t.held⟩)
  | .put s' p => some (s', ⟨p, t.held⟩)

def Thread.finished (t : Thread K S R) : Bool := match t.prog with | .done _ => true | _ => false

def Thread.ok (t : Thread K S R) : Prop := NoNest t.held.isSome t.prog

/-- progress for a thread that holds a lock: it is never blocked -/
theorem holder_steps (s : S) (t : Thread K S R) (others : List (Thread K S R))
    (hok : t.ok) (hh : t.held.isSome) : (stepThread s t others).isSome := by
  obtain ⟨prog, held⟩ := t
  simp only [Thread.ok] at hok hh
  rw [hh] at hok
  unfold stepThread
  cases hok <;> simp

/-- progress for an unfinished thread when nobody else holds a lock -/
theorem free_steps (s : S) (t : Thread K S R) (others : List (Thread K S R))
    (hok : t.ok) (hf : t.finished = false) (hnone : ∀ o ∈ others, o.held = none) :
    (stepThread s t others).isSome := by
  by_cases hh : t.held.isSome
  · exact holder_steps s t others hok hh
  · obtain ⟨prog, held⟩ := t
    simp only [Thread.ok] at hok
    simp at hh
    subst hh
    simp only [Option.isSome_none] at hok
    unfold stepThread
    cases hok with
    | done => simp [Thread.finished, *] at hf
    | acq _ => simp [compatible]; intro o ho; simp [hnone o ho]
    | get _ => simp
    | put _ => simp
end SpikeLock

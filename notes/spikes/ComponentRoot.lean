/-! Spike: repaired postorder (`postorder_forward`), finishing order, per-edge property (C10). -/
namespace SpikeRoot
variable {K : Type} [DecidableEq K]

inductive Out (K : Type) where
  | ok (vis : List K) (fin : List K)
  | outOfFuel

/-- the `for edge in node.iter_out()` loop of `postorder_forward` for node `u`; `fin` = nodes in finishing
    order (the code records the entering edge of a node when the recursive call on it returns) -/
def postEdges (adj : K → List K) : Nat → K → List K → List K → List K → Out K
  | _, _, [], vis, fin => .ok vis fin
  | 0, _, _ :: _, _, _ => .outOfFuel
  | fuel + 1, u, v :: rest, vis, fin =>
    if v ∈ vis then postEdges adj (fuel + 1) u rest vis fin
    else
      match postEdges adj fuel v (adj v) (v :: vis) fin with
      | .outOfFuel => .outOfFuel
      | .ok vis1 fin1 => postEdges adj (fuel + 1) u rest vis1 (fin1 ++ [v])
termination_by fuel _ l => (fuel, l.length)

/-- `search_nodes` for `Ordering::Post`: finished nodes, then the root -/
def postorder (adj : K → List K) (fuel : Nat) (r : K) : Option (List K) :=
  match postEdges adj fuel r (adj r) [r] [] with
  | .ok _ fin => some (fin ++ [r])
  | .outOfFuel => none

inductive Reach (adj : K → List K) : K → K → Prop where
  | refl (a : K) : Reach adj a a
  | step {a b c : K} : Reach adj a b → c ∈ adj b → Reach adj a c

theorem Reach.trans {adj : K → List K} {a b c : K} (h1 : Reach adj a b) (h2 : Reach adj b c) : Reach adj a c := by
  induction h2 with
  | refl => exact h1
  | step _ hc ih => exact .step ih hc

/-- `a` occurs strictly before `b` in `l` -/
def Before (l : List K) (a b : K) : Prop := ∃ l1 l2, l = l1 ++ a :: l2 ∧ b ∈ l2

theorem Before.append_right {l : List K} {a b : K} (h : Before l a b) (m : List K) : Before (l ++ m) a b := by
  obtain ⟨l1, l2, rfl, hb⟩ := h
  exact ⟨l1, l2 ++ m, by simp, List.mem_append_left _ hb⟩

theorem Before.snoc {l : List K} {a : K} (h : a ∈ l) (b : K) : Before (l ++ [b]) a b := by
  obtain ⟨l1, l2, rfl⟩ := List.append_of_mem h
  exact ⟨l1, l2 ++ [b], by simp, by simp⟩

/-- ghost state: `stack` = nodes whose loop is still running (the node being expanded first) -/
structure Inv (adj : K → List K) (r : K) (stack vis fin : List K) : Prop where
  split : ∀ x, x ∈ vis ↔ x ∈ stack ∨ x ∈ fin
  disj : ∀ x, x ∈ stack → x ∉ fin
  nodup : fin.Nodup
  fromRoot : ∀ x ∈ vis, Reach adj r x
  /-- finished nodes: every successor is visited, and finished earlier unless it reaches back -/
  edge : ∀ x ∈ fin, ∀ y ∈ adj x, y ∈ vis ∧ (Before fin y x ∨ Reach adj y x)


/-- `z` is finished no later than `w` -/
def NoLater (fin : List K) (z w : K) : Prop := z = w ∨ Before fin z w

/-- component-root invariant: a finished node either still reaches the stack, or its component root `w`
    is finished and everything it reaches is finished no later than `w` -/
def RootInv (adj : K → List K) (stack fin : List K) : Prop :=
  ∀ x ∈ fin, (∃ s ∈ stack, Reach adj x s) ∨
    (∃ w ∈ fin, Reach adj x w ∧ Reach adj w x ∧ ∀ z, Reach adj x z → z ∈ fin ∧ NoLater fin z w)

theorem NoLater.append_right {fin : List K} {z w : K} (h : NoLater fin z w) (m : List K) : NoLater (fin ++ m) z w :=
  h.imp id (fun h => h.append_right m)

theorem rootInv_append (adj : K → List K) (stack fin : List K) (x : K) (hx : x ∈ fin)
    (h : (∃ s ∈ stack, Reach adj x s) ∨
      (∃ w ∈ fin, Reach adj x w ∧ Reach adj w x ∧ ∀ z, Reach adj x z → z ∈ fin ∧ NoLater fin z w)) (m : List K) :
    (∃ s ∈ stack, Reach adj x s) ∨
      (∃ w ∈ fin ++ m, Reach adj x w ∧ Reach adj w x ∧ ∀ z, Reach adj x z → z ∈ fin ++ m ∧ NoLater (fin ++ m) z w) := by
  rcases h with h | ⟨w, hw, a, b, c⟩
  · exact Or.inl h
  · exact Or.inr ⟨w, List.mem_append_left _ hw, a, b, fun z hz => ⟨List.mem_append_left _ (c z hz).1, (c z hz).2.append_right m⟩⟩

theorem postEdges_root (adj : K → List K) (r : K) (fuel : Nat) (u : K) (l : List K) (vis fin : List K)
    (stack : List K) (hstack : ∀ s ∈ u :: stack, Reach adj s u) (hl : ∀ v ∈ l, v ∈ adj u)
    (inv : Inv adj r (u :: stack) vis fin) (rinv : RootInv adj (u :: stack) fin) (vis' fin' : List K)
    (h : postEdges adj fuel u l vis fin = .ok vis' fin') :
    Inv adj r (u :: stack) vis' fin' ∧ RootInv adj (u :: stack) fin' ∧ (∀ x ∈ vis, x ∈ vis') ∧ (∀ v ∈ l, v ∈ vis') ∧
    (∃ new, fin' = fin ++ new ∧ ∀ x ∈ new, Reach adj u x) := by
  fun_induction postEdges adj fuel u l vis fin generalizing stack vis' fin' with
  | case1 => simp at h; obtain ⟨rfl, rfl⟩ := h; exact ⟨inv, rinv, fun _ h => h, by simp, [], by simp, by simp⟩
  | case2 => simp at h
  | case3 fuel u v rest vis fin hv ih =>
    obtain ⟨i, ri, m, t, n⟩ := ih stack hstack (fun x hx => hl x (List.mem_cons_of_mem _ hx)) inv rinv vis' fin' h
    exact ⟨i, ri, m, by intro x hx; rcases List.mem_cons.mp hx with rfl | hx; exact m _ hv; exact t x hx, n⟩
  | case4 => simp at h
  | case5 fuel u v rest vis fin hv vis1 fin1 hr ih1 ih2 =>
    have huv : v ∈ adj u := hl v (by simp)
    have hstack1 : ∀ s ∈ v :: u :: stack, Reach adj s v := by
      intro s hs; rcases List.mem_cons.mp hs with rfl | hs
      · exact .refl _
      · exact .step (hstack s hs) huv
    have inv0 : Inv adj r (v :: u :: stack) (v :: vis) fin := by
      refine ⟨?_, ?_, inv.nodup, ?_, ?_⟩
      · intro x; have := inv.split x; simp only [List.mem_cons] at this ⊢; rw [this]
        simp only [or_assoc]
      · intro x hx; rcases List.mem_cons.mp hx with rfl | hx
        · intro hf; exact hv ((inv.split _).mpr (Or.inr hf))
        · exact inv.disj x hx
      · intro x hx; rcases List.mem_cons.mp hx with rfl | hx
        · exact .step (inv.fromRoot u ((inv.split u).mpr (Or.inl (by simp)))) huv
        · exact inv.fromRoot x hx
      · intro x hx y hy; obtain ⟨a, b⟩ := inv.edge x hx y hy; exact ⟨List.mem_cons_of_mem _ a, b⟩
    have rinv0 : RootInv adj (v :: u :: stack) fin := by
      intro x hx; rcases rinv x hx with ⟨s, hs, hr⟩ | h
      · exact Or.inl ⟨s, List.mem_cons_of_mem _ hs, hr⟩
      · exact Or.inr h
    obtain ⟨i1, ri1, m1, t1, ⟨new1, hn1, hreach1⟩⟩ := ih1 (u :: stack) hstack1 (fun _ h => h) inv0 rinv0 vis1 fin1 hr
    have hvfin : v ∉ fin1 := i1.disj v (by simp)
    have inv1 : Inv adj r (u :: stack) vis1 (fin1 ++ [v]) := by
      refine ⟨?_, ?_, ?_, i1.fromRoot, ?_⟩
      · intro x; rw [i1.split x]; simp only [List.mem_cons, List.mem_append, List.not_mem_nil, or_false]
        simp only [or_assoc, or_comm, or_left_comm]
      · intro x hx hf; rcases List.mem_append.mp hf with hf | hf
        · exact i1.disj x (List.mem_cons_of_mem _ hx) hf
        · simp at hf; subst hf
          exact hv ((inv.split _).mpr (Or.inl hx))
      · rw [List.nodup_append]; exact ⟨i1.nodup, by simp, by intro a ha b hb; simp at hb; subst hb; intro hab; subst hab; exact hvfin ha⟩
      · intro x hx y hy
        rcases List.mem_append.mp hx with hx | hx
        · obtain ⟨a, b⟩ := i1.edge x hx y hy
          exact ⟨a, b.imp (fun h => h.append_right _) id⟩
        · simp at hx; subst hx
          have hyv : y ∈ vis1 := t1 y hy
          refine ⟨hyv, ?_⟩
          rcases (i1.split y).mp hyv with hs | hf
          · exact Or.inr (hstack1 y hs)
          · exact Or.inl (Before.snoc hf _)
    -- everything reachable from `v` is finished by now, unless `v` reaches the remaining stack
    have hclosed : (¬ ∃ s ∈ u :: stack, Reach adj v s) → ∀ z, Reach adj v z → z ∈ fin1 ++ [v] := by
      intro hno z hz
      induction hz with
      | refl => simp
      | @step b c hb hc ih =>
        have hcv : c ∈ vis1 := by
          rcases List.mem_append.mp ih with hb1 | hb1
          · exact (i1.edge b hb1 c hc).1
          · simp at hb1; subst hb1; exact t1 c hc
        rcases (i1.split c).mp hcv with hs | hf
        · rcases List.mem_cons.mp hs with rfl | hs
          · simp
          · exact absurd ⟨c, hs, .step hb hc⟩ hno
        · exact List.mem_append_left _ hf
    have rinv1 : RootInv adj (u :: stack) (fin1 ++ [v]) := by
      intro x hx
      by_cases hvs : ∃ s ∈ u :: stack, Reach adj v s
      · -- `v` reaches the remaining stack
        obtain ⟨s, hs, hvs'⟩ := hvs
        rcases List.mem_append.mp hx with hx | hx
        · rcases ri1 x hx with ⟨s', hs', hr'⟩ | h'
          · rcases List.mem_cons.mp hs' with rfl | hs'
            · exact Or.inl ⟨s, hs, hr'.trans hvs'⟩
            · exact Or.inl ⟨s', hs', hr'⟩
          · exact rootInv_append adj (u :: stack) fin1 x hx (Or.inr h') [v]
        · simp at hx; subst hx; exact Or.inl ⟨s, hs, hvs'⟩
      · -- `v` is the root of its component
        have hcl := hclosed hvs
        have hvroot : ∀ z, Reach adj v z → z ∈ fin1 ++ [v] ∧ NoLater (fin1 ++ [v]) z v := by
          intro z hz
          have hm := hcl z hz
          refine ⟨hm, ?_⟩
          rcases List.mem_append.mp hm with h' | h'
          · exact Or.inr (Before.snoc h' _)
          · simp at h'; exact Or.inl h'
        rcases List.mem_append.mp hx with hx | hx
        · rcases ri1 x hx with ⟨s', hs', hr'⟩ | h'
          · rcases List.mem_cons.mp hs' with hsv | hs'
            · -- x reaches v only: x is a descendant of v or an older node; older nodes keep their status
              have hxv : Reach adj x v := hsv ▸ hr'
              have hx2 : x ∈ fin ++ new1 := by rw [← hn1]; exact hx
              rcases List.mem_append.mp hx2 with hold | hnew
              · rcases rinv x hold with ⟨s, hs, hr⟩ | h''
                · exact Or.inl ⟨s, hs, hr⟩
                · rw [hn1, List.append_assoc]; exact rootInv_append adj (u :: stack) fin x hold (Or.inr h'') (new1 ++ [v])
              · exact Or.inr ⟨v, by simp, hxv, hreach1 x hnew, fun z hz => hvroot z ((hreach1 x hnew).trans hz)⟩
            · exact Or.inl ⟨s', hs', hr'⟩
          · exact rootInv_append adj (u :: stack) fin1 x hx (Or.inr h') [v]
        · simp at hx; subst hx
          exact Or.inr ⟨x, by simp, .refl _, .refl _, hvroot⟩
    obtain ⟨i2, ri2, m2, t2, ⟨new2, hn2, hreach2⟩⟩ :=
      ih2 stack hstack (fun x hx => hl x (List.mem_cons_of_mem _ hx)) inv1 rinv1 vis' fin' h
    refine ⟨i2, ri2, fun x hx => m2 x (m1 x (List.mem_cons_of_mem _ hx)), ?_,
      ⟨new1 ++ [v] ++ new2, by rw [hn2, hn1]; simp, ?_⟩⟩
    · intro x hx; rcases List.mem_cons.mp hx with rfl | hx
      · exact m2 _ (m1 _ (by simp))
      · exact t2 x hx
    · intro x hx
      have huv' : Reach adj u v := .step (.refl u) huv
      simp only [List.mem_append, List.mem_singleton] at hx
      rcases hx with (hx | hx) | hx
      · exact huv'.trans (hreach1 x hx)
      · subst hx; exact huv'
      · exact hreach2 x hx

/-- component-root lemma for one postorder tree: every listed node `x` has a node `w` of its own strongly
    connected component such that everything reachable from `x` is listed no later than `w` -/
theorem postorder_root (adj : K → List K) (fuel : Nat) (r : K) (order : List K)
    (h : postorder adj fuel r = some order) :
    ∀ x ∈ order, ∃ w ∈ order, Reach adj x w ∧ Reach adj w x ∧ ∀ z, Reach adj x z → z ∈ order ∧ NoLater order z w := by
  unfold postorder at h
  split at h
  · rename_i vis' fin' hp
    simp at h; subst h
    have inv0 : Inv adj r [r] [r] [] :=
      ⟨by intro x; simp, by simp, by simp, by intro x hx; simp at hx; subst hx; exact .refl _, by simp⟩
    obtain ⟨i, ri, m, t, ⟨new, hn, hreach⟩⟩ := postEdges_root adj r fuel r (adj r) [r] [] []
      (by intro s hs; simp at hs; subst hs; exact .refl _) (fun _ h => h) inv0 (by intro x hx; simp at hx) vis' fin' hp
    -- the root finishes: same argument as for an inner node with an empty remaining stack
    have hcl : ∀ z, Reach adj r z → z ∈ fin' ++ [r] := by
      intro z hz
      induction hz with
      | refl => simp
      | @step b c hb hc ih =>
        have hcv : c ∈ vis' := by
          rcases List.mem_append.mp ih with hb1 | hb1
          · exact (i.edge b hb1 c hc).1
          · simp at hb1; subst hb1; exact t c hc
        rcases (i.split c).mp hcv with hs | hf
        · simp at hs; subst hs; simp
        · exact List.mem_append_left _ hf
    have hroot : ∀ z, Reach adj r z → z ∈ fin' ++ [r] ∧ NoLater (fin' ++ [r]) z r := by
      intro z hz; have hm := hcl z hz; refine ⟨hm, ?_⟩
      rcases List.mem_append.mp hm with h' | h'
      · exact Or.inr (Before.snoc h' _)
      · simp at h'; exact Or.inl h'
    intro x hxo
    rcases List.mem_append.mp hxo with hxf | hxr
    · rcases ri x hxf with ⟨s, hs, hr⟩ | h'
      · simp at hs; subst hs
        have hxn : x ∈ new := by simp at hn; rw [← hn]; exact hxf
        have hrx : Reach adj s x := hreach x hxn
        exact ⟨s, by simp, hr, hrx, fun z hz => hroot z (hrx.trans hz)⟩
      · obtain ⟨w, hw, a, b, c⟩ := h'
        exact ⟨w, List.mem_append_left _ hw, a, b, fun z hz => ⟨List.mem_append_left _ (c z hz).1, (c z hz).2.append_right _⟩⟩
    · simp at hxr; subst hxr; exact ⟨x, by simp, .refl _, .refl _, hroot⟩
  · simp at h

#print axioms postorder_root
end SpikeRoot

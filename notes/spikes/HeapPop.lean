/-! Spike: std `BinaryHeap::pop` in swap formulation: sift_down_to_bottom then sift_up keeps the heap. -/
namespace SpikeHeapPop

variable {α : Type} (key : α → Nat)

def swap (d : List α) (i j : Nat) : List α :=
  match d[i]?, d[j]? with
  | some a, some b => (d.set i b).set j a
  | _, _ => d

theorem swap_length (d : List α) (i j : Nat) : (swap d i j).length = d.length := by
  unfold swap; split <;> simp

theorem swap_get (d : List α) (i j : Nat) (hi : i < d.length) (hj : j < d.length) (k : Nat) (hk : k < (swap d i j).length) :
    (swap d i j)[k] = if k = j then d[i] else if k = i then d[j] else d[k]'(by rw [swap_length] at hk; exact hk) := by
  unfold swap
  simp only [List.getElem?_eq_getElem hi, List.getElem?_eq_getElem hj, List.getElem_set]
  by_cases hkj : k = j
  · subst hkj; simp
  · by_cases hki : k = i
    · subst hki; simp [hkj, Ne.symm hkj]
    · simp [hkj, hki, Ne.symm hkj, Ne.symm hki]

/-- `sift_up(0, pos)` with swaps -/
def siftUp : Nat → List α → List α
  | 0, d => d
  | pos + 1, d =>
    let parent := pos / 2
    match d[pos + 1]?, d[parent]? with
    | some x, some p => if key x ≤ key p then d else siftUp parent (swap d (pos + 1) parent)
    | _, _ => d
termination_by pos => pos
decreasing_by omega

/-- descend from `pos` to the bottom, always promoting the larger child (right child on ties) -/
def siftDown (pos : Nat) (d : List α) : Nat × List α :=
  let child := 2 * pos + 1
  if h : child + 1 < d.length then
    let c := if key d[child] ≤ key d[child + 1] then child + 1 else child
    siftDown c (swap d pos c)
  else if child + 1 = d.length then (child, swap d pos child)
  else (pos, d)
termination_by d.length - pos
decreasing_by
  all_goals simp only [swap_length]
  all_goals split <;> omega

def IsHeap (d : List α) : Prop :=
  ∀ i, 0 < i → ∀ (h : i < d.length), key d[i] ≤ key (d[(i - 1) / 2]'(by omega))

/-- all parent/child pairs are in order except the pair (pos, parent pos); the children of `pos` are
    below the parent of `pos` -/
def UpViol (d : List α) (pos : Nat) : Prop :=
  (∀ i, 0 < i → i ≠ pos → ∀ (h : i < d.length), key d[i] ≤ key (d[(i - 1) / 2]'(by omega))) ∧
  (∀ c, (c - 1) / 2 = pos → 0 < c → 0 < pos → ∀ (h : c < d.length) (h' : (pos - 1) / 2 < d.length),
      key d[c] ≤ key d[(pos - 1) / 2])

/-- pairs that involve `pos` (as child or as parent) are exempt; children of `pos` are below its parent -/
def Hole (d : List α) (pos : Nat) : Prop :=
  (∀ i, 0 < i → i ≠ pos → (i - 1) / 2 ≠ pos → ∀ (h : i < d.length), key d[i] ≤ key (d[(i - 1) / 2]'(by omega))) ∧
  (∀ c, (c - 1) / 2 = pos → 0 < c → 0 < pos → ∀ (h : c < d.length) (h' : (pos - 1) / 2 < d.length),
      key d[c] ≤ key d[(pos - 1) / 2])

theorem siftUp_length (pos : Nat) (d : List α) : (siftUp key pos d).length = d.length := by
  fun_induction siftUp key pos d <;> simp_all [swap_length]

theorem siftUp_heap (pos : Nat) (d : List α) (hpos : pos < d.length) (hv : UpViol key d pos) :
    IsHeap key (siftUp key pos d) := by
  fun_induction siftUp key pos d with
  | case1 d => intro i hi h; exact hv.1 i hi (by omega) h
  | case2 pos d parent x p hp hx hle =>
    have hpl : parent < d.length := by simp only [parent]; omega
    have hxe : d[pos + 1] = x := by simpa [List.getElem?_eq_getElem hpos] using hx
    have hpe : d[parent] = p := by simpa [List.getElem?_eq_getElem hpl] using hp
    intro i hi h
    by_cases hip : i = pos + 1
    · subst hip
      have : (pos + 1 - 1) / 2 = parent := by simp [parent]
      simp only [this, hxe, hpe]; exact hle
    · exact hv.1 i hi hip h
  | case3 pos d parent x p hp hx hnle ih =>
    have hpl : parent < d.length := by simp only [parent]; omega
    have hxe : d[pos + 1] = x := by simpa [List.getElem?_eq_getElem hpos] using hx
    have hpe : d[parent] = p := by simpa [List.getElem?_eq_getElem hpl] using hp
    have hpp : (pos + 1 - 1) / 2 = parent := by simp [parent]
    have hne : pos + 1 ≠ parent := by simp only [parent]; omega
    apply ih
    · rw [swap_length]; exact hpl
    · constructor
      · intro i hi hne' h
        have hl := h; rw [swap_length] at hl
        rw [swap_get d (pos + 1) parent hpos hpl i h, swap_get d (pos + 1) parent hpos hpl ((i - 1) / 2) (by rw [swap_length]; omega)]
        by_cases hip : i = pos + 1
        · subst hip
          simp only [hne, if_false, if_true, hpp, hxe, hpe]; omega
        · simp only [hne', hip, if_false]
          by_cases hpar : (i - 1) / 2 = parent
          · -- sibling of pos+1 (or pos+1 itself, excluded): below old parent p, and p < x
            simp only [hpar, if_true, hxe]
            have := hv.1 i hi hip hl
            simp only [hpar, hpe] at this; omega
          · by_cases hpar2 : (i - 1) / 2 = pos + 1
            · simp only [hpar2, hne, if_false, if_true]
              have := hv.2 i hpar2 hi (by omega) hl (by omega)
              simpa [hpp] using this
            · simp only [hpar, hpar2, if_false]
              exact hv.1 i hi hip hl
      · intro c hc hc0 hpar0 h h'
        have hl := h; rw [swap_length] at hl
        have hl' := h'; rw [swap_length] at hl'
        rw [swap_get d (pos + 1) parent hpos hpl c h, swap_get d (pos + 1) parent hpos hpl ((parent - 1) / 2) h']
        have hgp := hv.1 parent hpar0 (Ne.symm hne) hpl
        have hq : (parent - 1) / 2 ≠ parent := by omega
        have hq2 : (parent - 1) / 2 ≠ pos + 1 := by simp only [parent]; omega
        simp only [hq, hq2, if_false]
        by_cases hcp : c = pos + 1
        · subst hcp; simp only [hne, if_false, if_true, hpe]; rw [hpe] at hgp; exact hgp
        · have hcne : c ≠ parent := by omega
          simp only [hcne, hcp, if_false]
          have h1 := hv.1 c hc0 hcp hl
          simp only [hc] at h1
          exact Nat.le_trans h1 hgp
  | case4 pos d parent h1 =>
    exfalso
    have hpl : parent < d.length := by simp only [parent]; omega
    exact h1 d[pos + 1] d[parent] (List.getElem?_eq_getElem hpos) (List.getElem?_eq_getElem hpl)

theorem siftDown_spec (pos : Nat) (d : List α) (hpos : pos < d.length) (hh : Hole key d pos) :
    (siftDown key pos d).2.length = d.length ∧ (siftDown key pos d).1 < d.length ∧
    UpViol key (siftDown key pos d).2 (siftDown key pos d).1 := by
  fun_induction siftDown key pos d with
  | case1 pos d child h c ih =>
    have hc1 : c = child ∨ c = child + 1 := by simp only [c]; split <;> simp
    have hcl : c < d.length := by rcases hc1 with h' | h' <;> omega
    have hcpar : (c - 1) / 2 = pos := by rcases hc1 with h' | h' <;> simp only [h', child] <;> omega
    have hcne : c ≠ pos := by rcases hc1 with h' | h' <;> simp only [h', child] <;> omega
    have hbig : ∀ s, (s = child ∨ s = child + 1) → ∀ (hs : s < d.length), key d[s] ≤ key d[c] := by
      intro s hs hsl
      simp only [c]
      split
      · rename_i hle; rcases hs with rfl | rfl
        · exact hle
        · exact Nat.le_refl _
      · rename_i hle; rcases hs with rfl | rfl
        · exact Nat.le_refl _
        · omega
    have := ih (by rw [swap_length]; exact hcl) (by
      constructor
      · intro i hi hic hipar hl
        have hl' := hl; rw [swap_length] at hl'
        rw [swap_get d pos c hpos hcl i hl, swap_get d pos c hpos hcl ((i - 1) / 2) (by rw [swap_length]; omega)]
        simp only [hic, hipar, if_false]
        by_cases hip : i = pos
        · subst hip
          simp only [if_true]
          have hpar : (i - 1) / 2 ≠ i := by omega
          simp only [hpar, if_false]
          exact hh.2 c hcpar (by omega) hi hcl (by omega)
        · simp only [hip, if_false]
          by_cases hpp : (i - 1) / 2 = pos
          · -- sibling of c
            simp only [hpp, if_true]
            have hs : i = child ∨ i = child + 1 := by simp only [child]; omega
            exact hbig i hs hl'
          · simp only [hpp, if_false]
            exact hh.1 i hi hip hpp hl'
      · intro g hg hg0 _ hl hl'
        have hgl := hl; rw [swap_length] at hgl
        rw [swap_get d pos c hpos hcl g hl, swap_get d pos c hpos hcl ((c - 1) / 2) hl']
        have hgc : g ≠ c := by omega
        have hgp : g ≠ pos := by omega
        simp only [hgc, hgp, if_false, hcpar]
        have hpc : pos ≠ c := Ne.symm hcne
        simp only [hpc, if_false, if_true]
        have := hh.1 g hg0 hgp (by omega) hgl
        simpa [hg] using this)
    simpa [swap_length] using this
  | case2 pos d child h1 h2 =>
    have hcl : child < d.length := by omega
    have hcpar : (child - 1) / 2 = pos := by simp only [child]; omega
    refine ⟨by simp [swap_length], by simp [swap_length]; omega, ?_, ?_⟩
    · intro i hi hic hl
      have hl' := hl; rw [swap_length] at hl'
      rw [swap_get d pos child hpos hcl i hl, swap_get d pos child hpos hcl ((i - 1) / 2) (by rw [swap_length]; omega)]
      simp only [hic, if_false]
      have hipar : (i - 1) / 2 ≠ child := by simp only [child]; omega
      simp only [hipar, if_false]
      by_cases hip : i = pos
      · subst hip
        have hpar : (i - 1) / 2 ≠ i := by omega
        simp only [if_true, hpar, if_false]
        exact hh.2 child hcpar (by omega) hi hcl (by omega)
      · simp only [hip, if_false]
        by_cases hpp : (i - 1) / 2 = pos
        · exfalso; simp only [child] at *; omega
        · simp only [hpp, if_false]; exact hh.1 i hi hip hpp hl'
    · intro g hg hg0 _ hl _
      rw [swap_length] at hl; simp only [child] at *; omega
  | case3 pos d child h1 h2 =>
    refine ⟨rfl, hpos, ?_, ?_⟩
    · intro i hi hip hl
      by_cases hpp : (i - 1) / 2 = pos
      · exfalso; simp only [child] at *; omega
      · exact hh.1 i hi hip hpp hl
    · intro g hg hg0 hp0 hl hl'; exact hh.2 g hg hg0 hp0 hl hl'

/-- after `swap(item, data[0])`: heap except at the root; sift-down then sift-up restores the heap -/
theorem pop_restores (d : List α) (x : α) (hd : IsHeap key d) (hne : 0 < d.length) :
    let r := siftDown key 0 (d.set 0 x)
    IsHeap key (siftUp key r.1 r.2) := by
  intro r
  have hh : Hole key (d.set 0 x) 0 := by
    constructor
    · intro i hi _ hpar hl
      have hl' : i < d.length := by simpa using hl
      rw [List.getElem_set_ne (by omega), List.getElem_set_ne (by omega)]
      exact hd i hi hl'
    · intro c _ _ h0; omega
  obtain ⟨hlen, hlt, hv⟩ := siftDown_spec key 0 (d.set 0 x) (by simpa using hne) hh
  exact siftUp_heap key r.1 r.2 (by rw [hlen]; exact hlt) hv

#print axioms pop_restores
end SpikeHeapPop

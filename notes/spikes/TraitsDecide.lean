namespace SpikeTraits
structure Caps where
  send : Bool
  sync : Bool
  deriving DecidableEq, Repr

inductive Ty where
  | param (i : Nat)                 -- 0 = K, 1 = N, 2 = E
  | tuple (ts : List Ty)
  | vec (t : Ty) | hashmap (k v : Ty)
  | arc (t : Ty) | weak (t : Ty)    -- sync::{Arc, Weak}
  | rc (t : Ty) | rcweak (t : Ty)
  | refcell (t : Ty) | rwlock (t : Ty)
  | named (n : Nat)                 -- index into the definition table
  deriving Repr

inductive Tr | send | sync deriving DecidableEq, Repr

/-- a named type: its body and optional explicit impl bounds (list of (param, trait) requirements) -/
structure Def where
  body : Ty
  explicitSend : Option (List (Nat × Tr)) := none
  explicitSync : Option (List (Nat × Tr)) := none

def capOf (c : Caps) : Tr → Bool | .send => c.send | .sync => c.sync

/-- greatest fixed point by "assume on revisit": `asm` = (named, trait) pairs currently assumed -/
def holds (defs : List Def) (ps : List Caps) : Nat → List (Nat × Tr) → Tr → Ty → Bool
  | 0, _, _, _ => true
  | fuel+1, asm, tr, ty =>
    let both := fun t => holds defs ps fuel asm .send t && holds defs ps fuel asm .sync t
    match ty with
    | .param i => capOf (ps.getD i ⟨false, false⟩) tr
    | .tuple ts => ts.attach.all fun ⟨t, _⟩ => holds defs ps fuel asm tr t
    | .vec t => holds defs ps fuel asm tr t
    | .hashmap k v => holds defs ps fuel asm tr k && holds defs ps fuel asm tr v
    | .arc t | .weak t => both t
    | .rc _ | .rcweak _ => false
    | .refcell t => match tr with | .send => holds defs ps fuel asm .send t | .sync => false
    | .rwlock t => match tr with | .send => holds defs ps fuel asm .send t | .sync => both t
    | .named n =>
      if (n, tr) ∈ asm then true else
      match defs[n]? with
      | none => false
      | some d =>
        let ex := match tr with | .send => d.explicitSend | .sync => d.explicitSync
        match ex with
        | some bounds => bounds.all fun (i, t) => capOf (ps.getD i ⟨false, false⟩) t
        | none => holds defs ps fuel ((n, tr) :: asm) tr d.body

-- sync_ungraph: 0 = Node, 1 = Adjacent, 2 = WeakNode   (auto traits only)
def inner : Ty := .tuple [.param 0, .param 1, .rwlock (.named 1)]
def adjacentDef : Def := ⟨.tuple [.vec (.tuple [.named 2, .param 2]), .vec (.tuple [.named 2, .param 2])], none, none⟩
def weakDef : Def := ⟨.weak inner, none, none⟩
def syncUn : List Def := [⟨.arc inner, none, none⟩, adjacentDef, weakDef]
-- sync_digraph as in the unchanged tree: explicit impls with weak bounds
def syncDiBad : List Def := [⟨.arc inner, some [(0,.send),(1,.send),(2,.send)], some [(0,.sync),(1,.sync),(2,.sync)]⟩, adjacentDef, weakDef]
def syncDiGood : List Def := [⟨.arc inner, some [(0,.send),(0,.sync),(1,.send),(1,.sync),(2,.send),(2,.sync)], some [(0,.send),(0,.sync),(1,.send),(1,.sync),(2,.send),(2,.sync)]⟩, adjacentDef, weakDef]

def allCaps : List Caps := [⟨false,false⟩,⟨false,true⟩,⟨true,false⟩,⟨true,true⟩]
def full (c : Caps) : Bool := c.send && c.sync

def exact (defs : List Def) : Bool :=
  allCaps.all fun k => allCaps.all fun n => allCaps.all fun e =>
    [Tr.send, Tr.sync].all fun tr =>
      holds defs [k, n, e] 20 [] tr (.named 0) == (full k && full n && full e)

theorem syncUn_exact : exact syncUn = true := by decide
theorem syncDiGood_exact : exact syncDiGood = true := by decide
theorem syncDiBad_not_exact : exact syncDiBad = false := by decide
#eval holds syncDiBad [⟨true,true⟩, ⟨true,false⟩, ⟨true,true⟩] 20 [] .send (.named 0)  -- Cell payload: Send accepted
end SpikeTraits

#![allow(unused)]
//! Spike: deterministic scheduler over the lock hook. One thread runs at a time; a
//! scheduling decision is taken whenever the running thread requests a lock or finishes.
use gdsl::verif_hook::{install, Event};
use std::cell::Cell;
use std::collections::{BTreeMap, BTreeSet, HashMap};
use std::panic::{catch_unwind, AssertUnwindSafe};
use std::sync::{Arc, Condvar, Mutex};

#[derive(Clone, Debug, PartialEq)]
enum St { Ready, Waiting { addr: usize, write: bool }, Done }

#[derive(Default)]
struct LockSt { readers: Vec<usize>, writer: Option<usize> }

struct World {
    active: bool,
    current: Option<usize>,            // thread allowed to run
    st: Vec<St>,
    locks: HashMap<usize, LockSt>,
    schedule: Vec<usize>,              // forced choices (index into runnable list)
    decisions: Vec<(usize, usize)>,    // (chosen index, number of options) per decision point
    deadlock: bool,
    events: Vec<String>,
}
static WORLD: Mutex<Option<World>> = Mutex::new(None);
static CV: Condvar = Condvar::new();
thread_local! { static TID: Cell<Option<usize>> = Cell::new(None); }
struct DeadlockAbort;

fn runnable(w: &World) -> Vec<usize> {
    (0..w.st.len()).filter(|&i| match &w.st[i] {
        St::Ready => true, St::Done => false,
        St::Waiting { addr, write } => { let l = w.locks.get(addr); match l { None => true, Some(l) => if *write { l.writer.is_none() && l.readers.is_empty() } else { l.writer.is_none() } } }
    }).collect()
}
/// pick the next thread; called with the world locked
fn decide(w: &mut World) {
    let r = runnable(w);
    if r.is_empty() { if w.st.iter().any(|s| *s != St::Done) { w.deadlock = true; } w.current = None; return; }
    let k = w.decisions.len(); let idx = if k < w.schedule.len() { w.schedule[k].min(r.len() - 1) } else { 0 };
    w.decisions.push((idx, r.len())); w.current = Some(r[idx]);
}
fn wait_turn(me: usize) {
    let mut g = WORLD.lock().unwrap();
    loop {
        let w = g.as_mut().unwrap();
        if w.deadlock { drop(g); std::panic::resume_unwind(Box::new(DeadlockAbort)); }
        if w.current == Some(me) { return; }
        g = CV.wait(g).unwrap();
    }
}
fn hook(e: Event) {
    let Some(me) = TID.with(|t| t.get()) else { return };
    match e {
        Event::Request { addr, write } => {
            { let mut g = WORLD.lock().unwrap(); let w = g.as_mut().unwrap(); if !w.active { return; }
              // re-entrant acquisition by the same thread = self-deadlock
              w.st[me] = St::Waiting { addr, write }; decide(w); CV.notify_all(); }
            wait_turn(me);
            let mut g = WORLD.lock().unwrap(); let w = g.as_mut().unwrap(); w.st[me] = St::Ready;
            let l = w.locks.entry(addr).or_default(); if write { l.writer = Some(me); } else { l.readers.push(me); }
            w.events.push(format!("t{me}:{}{:x}", if write { "W" } else { "R" }, addr & 0xfff));
        }
        Event::Acquired { .. } => {}
        Event::Released { addr, write } => {
            let mut g = WORLD.lock().unwrap(); let w = g.as_mut().unwrap(); if !w.active { return; }
            let l = w.locks.entry(addr).or_default(); if write { l.writer = None; } else if let Some(p) = l.readers.iter().position(|&x| x == me) { l.readers.remove(p); }
        }
    }
}

#[derive(Debug, Clone, PartialEq, Eq, PartialOrd, Ord)]
struct Outcome { results: Vec<String>, state: String, deadlock: bool }

fn run_once<S: Send + Sync + 'static>(schedule: Vec<usize>, setup: &dyn Fn() -> Arc<S>, bodies: &[fn(&S) -> String], observe: &dyn Fn(&S) -> String) -> (Outcome, Vec<(usize, usize)>) {
    let n = bodies.len();
    let shared = setup();   // runs unscheduled (world inactive)
    *WORLD.lock().unwrap() = Some(World { active: true, current: None, st: vec![St::Ready; n], locks: HashMap::new(), schedule, decisions: vec![], deadlock: false, events: vec![] });
    { let mut g = WORLD.lock().unwrap(); decide(g.as_mut().unwrap()); }
    let mut hs = vec![];
    for (i, b) in bodies.iter().enumerate() {
        let s = shared.clone(); let b = *b;
        hs.push(std::thread::spawn(move || {
            TID.with(|t| t.set(Some(i)));
            let r = catch_unwind(AssertUnwindSafe(|| { wait_turn(i); b(&s) }));
            let out = match r { Ok(s) => s, Err(e) => if e.is::<DeadlockAbort>() { "DEADLOCK".to_string() } else { "PANIC".to_string() } };
            let mut g = WORLD.lock().unwrap(); let w = g.as_mut().unwrap(); w.st[i] = St::Done; if !w.deadlock { decide(w); } CV.notify_all(); out
        }));
    }
    let results: Vec<String> = hs.into_iter().map(|h| h.join().unwrap()).collect();
    let mut g = WORLD.lock().unwrap(); let w = g.as_mut().unwrap(); w.active = false; let dl = w.deadlock; let dec = w.decisions.clone(); drop(g);
    let state = catch_unwind(AssertUnwindSafe(|| observe(&shared))).unwrap_or("OBSERVE-PANIC(poisoned)".into());
    (Outcome { results, state, deadlock: dl }, dec)
}

/// stateless DFS over all schedules
fn explore<S: Send + Sync + 'static>(name: &str, setup: &dyn Fn() -> Arc<S>, bodies: &[fn(&S) -> String], observe: &dyn Fn(&S) -> String, verbose: bool) -> (usize, BTreeMap<Outcome, (usize, Vec<usize>)>) {
    let mut outcomes: BTreeMap<Outcome, (usize, Vec<usize>)> = BTreeMap::new(); let mut sched: Vec<usize> = vec![]; let mut runs = 0usize;
    loop {
        let (o, dec) = run_once(sched.clone(), setup, bodies, observe); runs += 1;
        let taken: Vec<usize> = dec.iter().map(|d| d.0).collect();
        outcomes.entry(o).or_insert((0, taken.clone())).0 += 1;
        // next schedule: increment the last decision that has an untried alternative
        let mut k = dec.len(); let mut next = None;
        while k > 0 { k -= 1; if dec[k].0 + 1 < dec[k].1 { let mut s: Vec<usize> = taken[..k].to_vec(); s.push(dec[k].0 + 1); next = Some(s); break; } }
        match next { Some(s) => sched = s, None => break }
        if runs > 200_000 { println!("  (cut off)"); break; }
    }
    if verbose { println!("{name}: {runs} schedules, {} distinct outcomes", outcomes.len());
    for (o, (c, s)) in &outcomes { println!("  [{c:5}] results={:?} state={} deadlock={} e.g. schedule={:?}", o.results, o.state, o.deadlock, s); } }
    (runs, outcomes)
}


macro_rules! flavour { ($m:ident, $fl:ident, $obs:expr) => { mod $m {
    use super::*; use gdsl::$fl::{Edge, Node};
    pub type N = Node<usize, (), u32>;
    pub struct Two { pub u: N, pub v: N }
    pub fn obs(s: &Two) -> String { let f: &dyn Fn(&N) -> String = &$obs; format!("u:{} v:{}", f(&s.u), f(&s.v)) }
    pub const OPS: [(&str, fn(&Two) -> String); 7] = [
        ("connect(u,v)", |s| { s.u.connect(&s.v, 1); "ok".into() }),
        ("connect(v,u)", |s| { s.v.connect(&s.u, 2); "ok".into() }),
        ("try_connect(u,v)", |s| format!("{:?}", s.u.try_connect(&s.v, 3).map_err(|e| e.to_string()))),
        ("disconnect(u,v)", |s| format!("{:?}", s.u.disconnect(&1).map_err(|e| e.to_string()))),
        ("disconnect(v,u)", |s| format!("{:?}", s.v.disconnect(&0).map_err(|e| e.to_string()))),
        ("isolate(u)", |s| { s.u.isolate(); "ok".into() }),
        ("isolate(v)", |s| { s.v.isolate(); "ok".into() }),
    ];
    pub fn inits() -> Vec<(&'static str, Box<dyn Fn() -> Arc<Two>>)> { vec![
        ("empty", Box::new(|| Arc::new(Two { u: Node::new(0, ()), v: Node::new(1, ()) }))),
        ("u->v", Box::new(|| { let t = Two { u: Node::new(0, ()), v: Node::new(1, ()) }; t.u.connect(&t.v, 7); Arc::new(t) })),
        ("u->v,v->u", Box::new(|| { let t = Two { u: Node::new(0, ()), v: Node::new(1, ()) }; t.u.connect(&t.v, 7); t.v.connect(&t.u, 8); Arc::new(t) })),
    ] }
    pub fn survey() {
        let mut total = 0usize; let mut findings: BTreeMap<(String, String), (usize, String)> = BTreeMap::new();
        for (iname, init) in inits() { for a in 0..OPS.len() { for b in a..OPS.len() {
            // sequential outcomes
            let mut seq = vec![];
            for order in [[a, b], [b, a]] { let s = init(); let mut r = vec![String::new(), String::new()];
                for &k in &order { let idx = if k == a && (r[0].is_empty()) && (order[0] == a || !r[1].is_empty() || a == b) { 0 } else { 1 }; let _ = idx; }
                // run in order, results stored by thread index (thread 0 = a, thread 1 = b)
                let first = order[0]; let second = order[1];
                let r1 = catch_unwind(AssertUnwindSafe(|| (OPS[first].1)(&s))).unwrap_or("PANIC".into()); let r2 = catch_unwind(AssertUnwindSafe(|| (OPS[second].1)(&s))).unwrap_or("PANIC".into());
                let results = if first == a { vec![r1, r2] } else { vec![r2, r1] };
                if a == b { let mut sw = results.clone(); sw.reverse(); seq.push((sw, obs(&s))); }
                seq.push((results, obs(&s))); }
            let (runs, outcomes) = explore("", &*init, &[OPS[a].1, OPS[b].1], &obs, false); total += runs;
            for (o, (c, sch)) in &outcomes {
                let kind = if o.deadlock { "deadlock" } else if o.results.iter().any(|r| r == "PANIC") || o.state.contains("OBSERVE-PANIC") { "panic+poison" }
                    else if seq.iter().any(|(r, st)| *r == o.results && *st == o.state) { continue } else if seq.iter().any(|(_, st)| *st == o.state) { "wrong-return" } else { "torn-state" };
                let key = (format!("{} || {}", OPS[a].0, OPS[b].0), kind.to_string());
                let e = findings.entry(key).or_insert((0, format!("init={iname} results={:?} state=[{}] schedule={:?}", o.results, o.state, sch))); e.0 += c; }
        } } }
        println!("{}: {} schedules explored, {} (operation pair, failure kind) classes are not equal to any sequential order:", stringify!($fl), total, findings.len());
        for ((pair, kind), (c, ex)) in &findings { println!("  {pair:38} {kind:13} [{c:4} schedules] e.g. {}", &ex[..ex.len().min(150)]); }
    }
} } }
flavour!(sdi, sync_digraph, |n: &N| format!("out={:?} in={:?}", n.iter_out().map(|Edge(_, x, e)| (*x.key(), e)).collect::<Vec<_>>(), n.iter_in().map(|Edge(x, _, e)| (*x.key(), e)).collect::<Vec<_>>()));
flavour!(sun, sync_ungraph, |n: &N| format!("adj={:?}", n.iter().map(|Edge(_, x, e)| (*x.key(), e)).collect::<Vec<_>>()));

fn main() {
    std::panic::set_hook(Box::new(|_| {}));
    install(Box::new(hook));
    sdi::survey();
    sun::survey();
}

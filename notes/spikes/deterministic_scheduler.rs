#![allow(unused)]
//! Spike: deterministic scheduler over the lock hook. One thread runs at a time; a
//! scheduling decision is taken whenever the running thread requests a lock or finishes.
use gdsl::verif_hook::{install, Event};
use std::cell::Cell;
use std::collections::{BTreeMap, BTreeSet, HashMap};
use std::panic::{catch_unwind, AssertUnwindSafe};
use std::sync::{Arc, Condvar, Mutex};

#[derive(Clone, Debug, PartialEq)]
enum St { Ready, Waiting { addr: usize, write: bool }, Done }

#[derive(Default)]
struct LockSt { readers: Vec<usize>, writer: Option<usize> }

struct World {
    active: bool,
    current: Option<usize>,            // thread allowed to run
    st: Vec<St>,
    locks: HashMap<usize, LockSt>,
    schedule: Vec<usize>,              // forced choices (index into runnable list)
    decisions: Vec<(usize, usize)>,    // (chosen index, number of options) per decision point
    deadlock: bool,
    events: Vec<String>,
}
static WORLD: Mutex<Option<World>> = Mutex::new(None);
static CV: Condvar = Condvar::new();
thread_local! { static TID: Cell<Option<usize>> = Cell::new(None); }
struct DeadlockAbort;

fn runnable(w: &World) -> Vec<usize> {
    (0..w.st.len()).filter(|&i| match &w.st[i] {
        St::Ready => true, St::Done => false,
        St::Waiting { addr, write } => { let l = w.locks.get(addr); match l { None => true, Some(l) => if *write { l.writer.is_none() && l.readers.is_empty() } else { l.writer.is_none() } } }
    }).collect()
}
/// pick the next thread; called with the world locked
fn decide(w: &mut World) {
    let r = runnable(w);
    if r.is_empty() { if w.st.iter().any(|s| *s != St::Done) { w.deadlock = true; } w.current = None; return; }
    let k = w.decisions.len(); let idx = if k < w.schedule.len() { w.schedule[k].min(r.len() - 1) } else { 0 };
    w.decisions.push((idx, r.len())); w.current = Some(r[idx]);
}
fn wait_turn(me: usize) {
    let mut g = WORLD.lock().unwrap();
    loop {
        let w = g.as_mut().unwrap();
        if w.deadlock { drop(g); std::panic::resume_unwind(Box::new(DeadlockAbort)); }
        if w.current == Some(me) { return; }
        g = CV.wait(g).unwrap();
    }
}
fn hook(e: Event) {
    let Some(me) = TID.with(|t| t.get()) else { return };
    match e {
        Event::Request { addr, write } => {
            { let mut g = WORLD.lock().unwrap(); let w = g.as_mut().unwrap(); if !w.active { return; }
              // re-entrant acquisition by the same thread = self-deadlock
              w.st[me] = St::Waiting { addr, write }; decide(w); CV.notify_all(); }
            wait_turn(me);
            let mut g = WORLD.lock().unwrap(); let w = g.as_mut().unwrap(); w.st[me] = St::Ready;
            let l = w.locks.entry(addr).or_default(); if write { l.writer = Some(me); } else { l.readers.push(me); }
            w.events.push(format!("t{me}:{}{:x}", if write { "W" } else { "R" }, addr & 0xfff));
        }
        Event::Acquired { .. } => {}
        Event::Released { addr, write } => {
            let mut g = WORLD.lock().unwrap(); let w = g.as_mut().unwrap(); if !w.active { return; }
            let l = w.locks.entry(addr).or_default(); if write { l.writer = None; } else if let Some(p) = l.readers.iter().position(|&x| x == me) { l.readers.remove(p); }
        }
    }
}

#[derive(Debug, Clone, PartialEq, Eq, PartialOrd, Ord)]
struct Outcome { results: Vec<String>, state: String, deadlock: bool }

fn run_once<S: Send + Sync + 'static>(schedule: Vec<usize>, setup: &dyn Fn() -> Arc<S>, bodies: &[fn(&S) -> String], observe: &dyn Fn(&S) -> String) -> (Outcome, Vec<(usize, usize)>) {
    let n = bodies.len();
    let shared = setup();   // runs unscheduled (world inactive)
    *WORLD.lock().unwrap() = Some(World { active: true, current: None, st: vec![St::Ready; n], locks: HashMap::new(), schedule, decisions: vec![], deadlock: false, events: vec![] });
    { let mut g = WORLD.lock().unwrap(); decide(g.as_mut().unwrap()); }
    let mut hs = vec![];
    for (i, b) in bodies.iter().enumerate() {
        let s = shared.clone(); let b = *b;
        hs.push(std::thread::spawn(move || {
            TID.with(|t| t.set(Some(i)));
            let r = catch_unwind(AssertUnwindSafe(|| { wait_turn(i); b(&s) }));
            let out = match r { Ok(s) => s, Err(e) => if e.is::<DeadlockAbort>() { "DEADLOCK".to_string() } else { "PANIC".to_string() } };
            let mut g = WORLD.lock().unwrap(); let w = g.as_mut().unwrap(); w.st[i] = St::Done; if !w.deadlock { decide(w); } CV.notify_all(); out
        }));
    }
    let results: Vec<String> = hs.into_iter().map(|h| h.join().unwrap()).collect();
    let mut g = WORLD.lock().unwrap(); let w = g.as_mut().unwrap(); w.active = false; let dl = w.deadlock; let dec = w.decisions.clone(); drop(g);
    let state = catch_unwind(AssertUnwindSafe(|| observe(&shared))).unwrap_or("OBSERVE-PANIC(poisoned)".into());
    (Outcome { results, state, deadlock: dl }, dec)
}

/// stateless DFS over all schedules
fn explore<S: Send + Sync + 'static>(name: &str, setup: &dyn Fn() -> Arc<S>, bodies: &[fn(&S) -> String], observe: &dyn Fn(&S) -> String) {
    let mut outcomes: BTreeMap<Outcome, (usize, Vec<usize>)> = BTreeMap::new(); let mut sched: Vec<usize> = vec![]; let mut runs = 0usize;
    loop {
        let (o, dec) = run_once(sched.clone(), setup, bodies, observe); runs += 1;
        let taken: Vec<usize> = dec.iter().map(|d| d.0).collect();
        outcomes.entry(o).or_insert((0, taken.clone())).0 += 1;
        // next schedule: increment the last decision that has an untried alternative
        let mut k = dec.len(); let mut next = None;
        while k > 0 { k -= 1; if dec[k].0 + 1 < dec[k].1 { let mut s: Vec<usize> = taken[..k].to_vec(); s.push(dec[k].0 + 1); next = Some(s); break; } }
        match next { Some(s) => sched = s, None => break }
        if runs > 200_000 { println!("  (cut off)"); break; }
    }
    println!("{name}: {runs} schedules, {} distinct outcomes", outcomes.len());
    for (o, (c, s)) in &outcomes { println!("  [{c:5}] results={:?} state={} deadlock={} e.g. schedule={:?}", o.results, o.state, o.deadlock, s); }
}

use gdsl::sync_digraph::{Edge, Node};
type N = Node<usize, (), u32>;
struct Two { u: N, v: N }
fn obs(s: &Two) -> String { format!("u.out={:?} u.in={:?} v.out={:?} v.in={:?}",
    s.u.iter_out().map(|Edge(_, x, e)| (*x.key(), e)).collect::<Vec<_>>(), s.u.iter_in().map(|Edge(x, _, e)| (*x.key(), e)).collect::<Vec<_>>(),
    s.v.iter_out().map(|Edge(_, x, e)| (*x.key(), e)).collect::<Vec<_>>(), s.v.iter_in().map(|Edge(x, _, e)| (*x.key(), e)).collect::<Vec<_>>()) }

fn main() {
    std::panic::set_hook(Box::new(|_| {}));
    install(Box::new(hook));
    let fresh = || Arc::new(Two { u: Node::new(0, ()), v: Node::new(1, ()) });
    explore("connect(u,v,1) || disconnect(u,v)", &fresh, &[|s: &Two| { s.u.connect(&s.v, 1); "ok".into() }, |s: &Two| format!("{:?}", s.u.disconnect(&1).map_err(|e| e.to_string()))], &obs);
    explore("connect(u,v,1) || connect(u,v,2)", &fresh, &[|s: &Two| { s.u.connect(&s.v, 1); "ok".into() }, |s: &Two| { s.u.connect(&s.v, 2); "ok".into() }], &obs);
    explore("connect(u,v,1) || isolate(u)", &fresh, &[|s: &Two| { s.u.connect(&s.v, 1); "ok".into() }, |s: &Two| { s.u.isolate(); "ok".into() }], &obs);
    let both = || { let t = Two { u: Node::new(0, ()), v: Node::new(1, ()) }; t.u.connect(&t.v, 1); t.v.connect(&t.u, 2); Arc::new(t) };
    explore("disconnect(u,v) || disconnect(v,u)  [u<->v]", &both, &[|s: &Two| format!("{:?}", s.u.disconnect(&1).map_err(|e| e.to_string())), |s: &Two| format!("{:?}", s.v.disconnect(&0).map_err(|e| e.to_string()))], &obs);
}

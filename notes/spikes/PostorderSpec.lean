/-! Spike: repaired postorder (`postorder_forward`), finishing order, per-edge property (C10). -/
namespace SpikePost
variable {K : Type} [DecidableEq K]

inductive Out (K : Type) where
  | ok (vis : List K) (fin : List K)
  | outOfFuel

/-- the `for edge in node.iter_out()` loop of `postorder_forward` for node `u`; `fin` = nodes in finishing
    order (the code records the entering edge of a node when the recursive call on it returns) -/
def postEdges (adj : K → List K) : Nat → K → List K → List K → List K → Out K
  | _, _, [], vis, fin => .ok vis fin
  | 0, _, _ :: _, _, _ => .outOfFuel
  | fuel + 1, u, v :: rest, vis, fin =>
    if v ∈ vis then postEdges adj (fuel + 1) u rest vis fin
    else
      match postEdges adj fuel v (adj v) (v :: vis) fin with
      | .outOfFuel => .outOfFuel
      | .ok vis1 fin1 => postEdges adj (fuel + 1) u rest vis1 (fin1 ++ [v])
termination_by fuel _ l => (fuel, l.length)

/-- `search_nodes` for `Ordering::Post`: finished nodes, then the root -/
def postorder (adj : K → List K) (fuel : Nat) (r : K) : Option (List K) :=
  match postEdges adj fuel r (adj r) [r] [] with
  | .ok _ fin => some (fin ++ [r])
  | .outOfFuel => none

inductive Reach (adj : K → List K) : K → K → Prop where
  | refl (a : K) : Reach adj a a
  | step {a b c : K} : Reach adj a b → c ∈ adj b → Reach adj a c

theorem Reach.trans {adj : K → List K} {a b c : K} (h1 : Reach adj a b) (h2 : Reach adj b c) : Reach adj a c := by
  induction h2 with
  | refl => exact h1
  | step _ hc ih => exact .step ih hc

/-- `a` occurs strictly before `b` in `l` -/
def Before (l : List K) (a b : K) : Prop := ∃ l1 l2, l = l1 ++ a :: l2 ∧ b ∈ l2

theorem Before.append_right {l : List K} {a b : K} (h : Before l a b) (m : List K) : Before (l ++ m) a b := by
  obtain ⟨l1, l2, rfl, hb⟩ := h
  exact ⟨l1, l2 ++ m, by simp, List.mem_append_left _ hb⟩

theorem Before.snoc {l : List K} {a : K} (h : a ∈ l) (b : K) : Before (l ++ [b]) a b := by
  obtain ⟨l1, l2, rfl⟩ := List.append_of_mem h
  exact ⟨l1, l2 ++ [b], by simp, by simp⟩

/-- ghost state: `stack` = nodes whose loop is still running (the node being expanded first) -/
structure Inv (adj : K → List K) (r : K) (stack vis fin : List K) : Prop where
  split : ∀ x, x ∈ vis ↔ x ∈ stack ∨ x ∈ fin
  disj : ∀ x, x ∈ stack → x ∉ fin
  nodup : fin.Nodup
  fromRoot : ∀ x ∈ vis, Reach adj r x
  /-- finished nodes: every successor is visited, and finished earlier unless it reaches back -/
  edge : ∀ x ∈ fin, ∀ y ∈ adj x, y ∈ vis ∧ (Before fin y x ∨ Reach adj y x)

theorem postEdges_spec (adj : K → List K) (r : K) (fuel : Nat) (u : K) (l : List K) (vis fin : List K)
    (stack : List K) (hstack : ∀ s ∈ u :: stack, Reach adj s u) (hl : ∀ v ∈ l, v ∈ adj u)
    (inv : Inv adj r (u :: stack) vis fin) (vis' fin' : List K)
    (h : postEdges adj fuel u l vis fin = .ok vis' fin') :
    Inv adj r (u :: stack) vis' fin' ∧ (∀ x ∈ vis, x ∈ vis') ∧ (∀ v ∈ l, v ∈ vis') ∧
    (∃ new, fin' = fin ++ new) := by
  fun_induction postEdges adj fuel u l vis fin generalizing stack vis' fin' with
  | case1 => simp at h; obtain ⟨rfl, rfl⟩ := h; exact ⟨inv, fun _ h => h, by simp, [], by simp⟩
  | case2 => simp at h
  | case3 fuel u v rest vis fin hv ih =>
    obtain ⟨i, m, t, n⟩ := ih stack hstack (fun x hx => hl x (List.mem_cons_of_mem _ hx)) inv vis' fin' h
    exact ⟨i, m, by intro x hx; rcases List.mem_cons.mp hx with rfl | hx; exact m _ hv; exact t x hx, n⟩
  | case4 => simp at h
  | case5 fuel u v rest vis fin hv vis1 fin1 hr ih1 ih2 =>
    have huv : v ∈ adj u := hl v (by simp)
    -- the recursive call runs with `v` pushed on the stack
    have hstack1 : ∀ s ∈ v :: u :: stack, Reach adj s v := by
      intro s hs; rcases List.mem_cons.mp hs with rfl | hs
      · exact .refl _
      · exact .step (hstack s hs) huv
    have inv0 : Inv adj r (v :: u :: stack) (v :: vis) fin := by
      refine ⟨?_, ?_, inv.nodup, ?_, ?_⟩
      · intro x; have := inv.split x; simp only [List.mem_cons] at this ⊢; rw [this]
        simp only [or_assoc]
      · intro x hx; rcases List.mem_cons.mp hx with rfl | hx
        · intro hf; exact hv ((inv.split _).mpr (Or.inr hf))
        · exact inv.disj x hx
      · intro x hx; rcases List.mem_cons.mp hx with rfl | hx
        · exact .step (inv.fromRoot u ((inv.split u).mpr (Or.inl (by simp)))) huv
        · exact inv.fromRoot x hx
      · intro x hx y hy; obtain ⟨a, b⟩ := inv.edge x hx y hy; exact ⟨List.mem_cons_of_mem _ a, b⟩
    obtain ⟨i1, m1, t1, ⟨new1, hn1⟩⟩ := ih1 (u :: stack) hstack1 (fun _ h => h) inv0 vis1 fin1 hr
    -- `v` finishes: pop it from the stack and append it to `fin`
    have hvfin : v ∉ fin1 := i1.disj v (by simp)
    have inv1 : Inv adj r (u :: stack) vis1 (fin1 ++ [v]) := by
      refine ⟨?_, ?_, ?_, i1.fromRoot, ?_⟩
      · intro x; rw [i1.split x]; simp only [List.mem_cons, List.mem_append, List.not_mem_nil, or_false]
        simp only [or_assoc, or_comm, or_left_comm]
      · intro x hx hf; rcases List.mem_append.mp hf with hf | hf
        · exact i1.disj x (List.mem_cons_of_mem _ hx) hf
        · simp at hf; subst hf
          -- `v` was fresh, so it is not an older stack entry
          exact hv ((inv.split _).mpr (Or.inl hx))
      · rw [List.nodup_append]; exact ⟨i1.nodup, by simp, by intro a ha b hb; simp at hb; subst hb; intro hab; subst hab; exact hvfin ha⟩
      · intro x hx y hy
        rcases List.mem_append.mp hx with hx | hx
        · obtain ⟨a, b⟩ := i1.edge x hx y hy
          exact ⟨a, b.imp (fun h => h.append_right _) id⟩
        · simp at hx; subst hx
          have hyv : y ∈ vis1 := t1 y hy
          refine ⟨hyv, ?_⟩
          rcases (i1.split y).mp hyv with hs | hf
          · exact Or.inr (hstack1 y hs)
          · exact Or.inl (Before.snoc hf _)
    obtain ⟨i2, m2, t2, ⟨new2, hn2⟩⟩ := ih2 stack hstack (fun x hx => hl x (List.mem_cons_of_mem _ hx)) inv1 vis' fin' h
    refine ⟨i2, fun x hx => m2 x (m1 x (List.mem_cons_of_mem _ hx)), ?_, ⟨new1 ++ [v] ++ new2, by rw [hn2, hn1]; simp⟩⟩
    intro x hx; rcases List.mem_cons.mp hx with rfl | hx
    · exact m2 _ (m1 _ (by simp))
    · exact t2 x hx

/-- C10 (postorder, nodes): exactly the reachable nodes, once each, root last, and for every edge
    `x → y` between listed nodes `y` comes first unless `x` is reachable from `y` -/
theorem postorder_spec (adj : K → List K) (fuel : Nat) (r : K) (order : List K)
    (h : postorder adj fuel r = some order) :
    order.Nodup ∧ (∀ x, x ∈ order ↔ Reach adj r x) ∧ (∃ fin, order = fin ++ [r]) ∧
    (∀ x ∈ order, ∀ y ∈ adj x, Before order y x ∨ Reach adj y x) := by
  unfold postorder at h
  split at h
  · rename_i vis' fin' hp
    simp at h; subst h
    have inv0 : Inv adj r [r] [r] [] :=
      ⟨by intro x; simp, by simp, by simp, by intro x hx; simp at hx; subst hx; exact .refl _, by simp⟩
    obtain ⟨i, m, t, _⟩ := postEdges_spec adj r fuel r (adj r) [r] [] [] (by intro s hs; simp at hs; subst hs; exact .refl _)
      (fun _ h => h) inv0 vis' fin' hp
    have hrfin : r ∉ fin' := i.disj r (by simp)
    have hmem : ∀ x, x ∈ fin' ++ [r] ↔ x ∈ vis' := by
      intro x; rw [i.split x]; simp only [List.mem_append, List.mem_singleton, List.mem_cons, List.not_mem_nil, or_false]
      exact or_comm
    have hedge : ∀ x ∈ fin' ++ [r], ∀ y ∈ adj x, y ∈ vis' ∧ (Before (fin' ++ [r]) y x ∨ Reach adj y x) := by
      intro x hx y hy
      rcases List.mem_append.mp hx with hx | hx
      · obtain ⟨a, b⟩ := i.edge x hx y hy; exact ⟨a, b.imp (fun h => h.append_right _) id⟩
      · simp at hx; subst hx
        have hy' := t y hy
        refine ⟨hy', ?_⟩
        rcases (i.split y).mp hy' with hs | hf
        · simp at hs; subst hs; exact Or.inr (.refl _)
        · exact Or.inl (Before.snoc hf _)
    refine ⟨?_, ?_, ⟨fin', rfl⟩, fun x hx y hy => (hedge x hx y hy).2⟩
    · rw [List.nodup_append]; exact ⟨i.nodup, by simp, by intro a ha b hb; simp at hb; subst hb; intro hab; subst hab; exact hrfin ha⟩
    · intro x; rw [hmem]; constructor
      · exact i.fromRoot x
      · intro hreach
        induction hreach with
        | refl => exact (hmem r).mp (by simp)
        | step _ hc ih => exact (hedge _ ((hmem _).mpr ih) _ hc).1
  · simp at h

#print axioms postorder_spec
end SpikePost

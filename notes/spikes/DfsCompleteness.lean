/-! Spike: depth-first search as in `recurse_outbound`, completeness via closure of new nodes. -/
namespace SpikeDfs
variable {K E : Type} [DecidableEq K]

inductive Out (K E : Type) where
  | found (vis : List K) (tree : List (K × K × E))
  | notFound (vis : List K) (tree : List (K × K × E))
  | outOfFuel

/-- the `for edge in node.iter_out()` loop of `recurse_outbound` for node `u`, remaining edges `l` -/
def dfsEdges (adj : K → List (K × E)) (t : K) : Nat → K → List (K × E) → List K → List (K × K × E) → Out K E
  | _, _, [], vis, tree => .notFound vis tree
  | 0, _, _ :: _, _, _ => .outOfFuel
  | fuel + 1, u, (v, e) :: rest, vis, tree =>
    if v ∈ vis then dfsEdges adj t (fuel + 1) u rest vis tree
    else if v = t then .found (v :: vis) (tree ++ [(u, v, e)])
    else
      match dfsEdges adj t fuel v (adj v) (v :: vis) (tree ++ [(u, v, e)]) with
      | .found vis' tree' => .found vis' tree'
      | .outOfFuel => .outOfFuel
      | .notFound vis' tree' => dfsEdges adj t (fuel + 1) u rest vis' tree'
termination_by fuel _ l => (fuel, l.length)

inductive Reach (adj : K → List (K × E)) : K → K → Prop where
  | refl (a : K) : Reach adj a a
  | step {a b c : K} {e : E} : Reach adj a b → (c, e) ∈ adj b → Reach adj a c

/-- what a `notFound` return guarantees -/
structure Post (adj : K → List (K × E)) (t : K) (l : List (K × E)) (vis vis' : List K) : Prop where
  mono : ∀ x ∈ vis, x ∈ vis'
  targets : ∀ p ∈ l, p.1 ∈ vis'
  newClosed : ∀ x ∈ vis', x ∈ vis ∨ ∀ p ∈ adj x, p.1 ∈ vis'
  noTarget : t ∉ vis → t ∉ vis'

theorem dfsEdges_post (adj : K → List (K × E)) (t : K) (fuel : Nat) (u : K) (l : List (K × E))
    (vis : List K) (tree : List (K × K × E)) (vis' : List K) (tree' : List (K × K × E))
    (h : dfsEdges adj t fuel u l vis tree = .notFound vis' tree') : Post adj t l vis vis' := by
  fun_induction dfsEdges adj t fuel u l vis tree generalizing vis' tree' with
  | case1 => simp at h; obtain ⟨rfl, rfl⟩ := h; exact ⟨fun _ h => h, by simp, fun _ h => Or.inl h, id⟩
  | case2 => simp at h
  | case3 fuel u v e rest vis tree hv ih =>
    have p := ih vis' tree' h
    exact ⟨p.mono, by intro q hq; rcases List.mem_cons.mp hq with rfl | hq; exact p.mono _ hv; exact p.targets q hq, p.newClosed, p.noTarget⟩
  | case4 => simp at h
  | case5 => simp at h
  | case6 => simp at h
  | case7 fuel u v e rest vis tree hv hvt vis1 tree1 hr ih1 ih2 =>
    have p1 := ih1 vis1 tree1 hr
    have p2 := ih2 vis' tree' h
    refine ⟨fun x hx => p2.mono x (p1.mono x (List.mem_cons_of_mem _ hx)), ?_, ?_, ?_⟩
    · intro q hq
      rcases List.mem_cons.mp hq with rfl | hq
      · exact p2.mono _ (p1.mono _ (List.mem_cons_self))
      · exact p2.targets q hq
    · intro x hx
      rcases p2.newClosed x hx with hx1 | hcl
      · rcases p1.newClosed x hx1 with hx0 | hcl
        · rcases List.mem_cons.mp hx0 with rfl | hx0
          · -- x = v: all its successors were reached by the inner call
            right; intro q hq; exact p2.mono _ (p1.targets q hq)
          · left; exact hx0
        · right; intro q hq; exact p2.mono _ (hcl q hq)
      · right; exact hcl
    · intro ht
      apply p2.noTarget; apply p1.noTarget
      intro hmem; rcases List.mem_cons.mp hmem with h' | h'
      · exact hvt h'.symm
      · exact ht h'

theorem closed_reach (adj : K → List (K × E)) (vis : List K) (hc : ∀ x ∈ vis, ∀ p ∈ adj x, p.1 ∈ vis)
    (r : K) (hr : r ∈ vis) (x : K) (h : Reach adj r x) : x ∈ vis := by
  induction h with
  | refl => exact hr
  | step _ hcb ih => exact hc _ ih _ hcb

/-- completeness of `Dfs::search_path`: a `notFound` answer means the target is unreachable -/
theorem dfs_complete (adj : K → List (K × E)) (r t : K) (fuel : Nat) (hrt : r ≠ t)
    (vis' : List K) (tree' : List (K × K × E))
    (h : dfsEdges adj t fuel r (adj r) [r] [] = .notFound vis' tree') : ¬ Reach adj r t := by
  intro hreach
  have p := dfsEdges_post adj t fuel r (adj r) [r] [] vis' tree' h
  have hclosed : ∀ x ∈ vis', ∀ q ∈ adj x, q.1 ∈ vis' := by
    intro x hx
    rcases p.newClosed x hx with h0 | hcl
    · simp at h0; subst h0; exact p.targets
    · exact hcl
  have ht : t ∈ vis' := closed_reach adj vis' hclosed r (p.mono r (by simp)) t hreach
  exact p.noTarget (by simp; exact fun h => hrt h.symm) ht

#print axioms dfs_complete
end SpikeDfs

#![allow(unused, clippy::all)]
use std::collections::{BTreeMap, BTreeSet, HashMap, HashSet, VecDeque};
use std::panic::{catch_unwind, AssertUnwindSafe};

pub struct Rng(u64);
impl Rng {
    pub fn new(s: u64) -> Self { Rng(s.wrapping_mul(0x9E3779B97F4A7C15) | 1) }
    pub fn next(&mut self) -> u64 { let mut x = self.0; x ^= x << 13; x ^= x >> 7; x ^= x << 17; self.0 = x; x }
    pub fn below(&mut self, n: usize) -> usize { (self.next() % n as u64) as usize }
    pub fn chance(&mut self, pct: u64) -> bool { self.next() % 100 < pct }
}

pub static mut FAILS: Option<BTreeMap<String, (usize, String)>> = None;
pub fn fail(kind: &str, detail: String) {
    unsafe { let m = FAILS.get_or_insert_with(BTreeMap::new); let e = m.entry(kind.to_string()).or_insert((0, detail.clone())); e.0 += 1; if detail.len() < e.1.len() { e.1 = detail; } }
}
pub fn guard<F: FnOnce()>(kind: &str, ctx: &dyn Fn() -> String, f: F) {
    if let Err(e) = catch_unwind(AssertUnwindSafe(f)) {
        let msg = e.downcast_ref::<String>().cloned().or_else(|| e.downcast_ref::<&str>().map(|s| s.to_string())).unwrap_or("?".into());
        fail(&format!("{kind}: PANIC {}", &msg[..msg.len().min(60)]), ctx());
    }
}

// reference multigraph: ordered edge log (u,v,e) in connect order; directed semantic
#[derive(Clone, Default)]
pub struct Ref { pub n: usize, pub out: Vec<Vec<(usize, u32)>>, pub inn: Vec<Vec<(usize, u32)>> }
impl Ref {
    pub fn new(n: usize) -> Self { Ref { n, out: vec![vec![]; n], inn: vec![vec![]; n] } }
    pub fn connect(&mut self, u: usize, v: usize, e: u32) { self.out[u].push((v, e)); self.inn[v].push((u, e)); }
}

macro_rules! directed_hunt { ($modname:ident, $fl:ident) => { pub mod $modname {
    use super::*;
    use gdsl::$fl::*;
    type N = Node<usize, i64, u32>;
    pub fn dump(nodes: &[N]) -> (Vec<Vec<(usize, u32)>>, Vec<Vec<(usize, u32)>>) {
        (nodes.iter().map(|n| n.iter_out().map(|Edge(_, v, e)| (*v.key(), e)).collect()).collect(),
         nodes.iter().map(|n| n.iter_in().map(|Edge(u, _, e)| (*u.key(), e)).collect()).collect())
    }
    pub fn ops(seed: u64) {
        let mut rng = Rng::new(seed); let n = 2 + rng.below(4);
        let nodes: Vec<N> = (0..n).map(|i| Node::new(i, i as i64)).collect();
        let mut r = Ref::new(n); let mut log = vec![];
        for step in 0..(20 + rng.below(60)) {
            let u = rng.below(n); let v = if rng.chance(20) { u } else { rng.below(n) }; let e = rng.below(3) as u32;
            let op = rng.below(10);
            let ctx = |log: &Vec<String>| format!("{} seed={} {}", stringify!($fl), seed, log.join(";"));
            match op {
                0..=3 => { log.push(format!("connect {u} {v} {e}")); nodes[u].connect(&nodes[v], e); r.connect(u, v, e); }
                4 => { log.push(format!("try_connect {u} {v} {e}")); let ex = r.out[u].iter().any(|x| x.0 == v); let got = nodes[u].try_connect(&nodes[v], e).is_ok();
                    if got == ex { fail("try_connect result", ctx(&log)); } if !ex { r.connect(u, v, e); } }
                5..=7 => { log.push(format!("disconnect {u} {v}"));
                    let exp = r.out[u].iter().position(|x| x.0 == v).map(|i| { let x = r.out[u].remove(i); let j = r.inn[v].iter().position(|y| y.0 == u).unwrap(); r.inn[v].remove(j); x.1 });
                    let l2 = log.clone();
                    let got = catch_unwind(AssertUnwindSafe(|| nodes[u].disconnect(&v).ok()));
                    match got { Ok(g) => if g != exp { fail("disconnect result", ctx(&log)); }, Err(_) => { fail("disconnect PANIC", ctx(&l2)); return; } } }
                _ => { log.push(format!("isolate {u}"));
                    for w in 0..n { r.out[w].retain(|x| x.0 != u); r.inn[w].retain(|x| x.0 != u); } r.out[u].clear(); r.inn[u].clear();
                    if catch_unwind(AssertUnwindSafe(|| nodes[u].isolate())).is_err() { fail("isolate PANIC", ctx(&log)); return; } }
            }
            let (o, i) = dump(&nodes);
            if o != r.out || i != r.inn { fail("state differs from reference multigraph", ctx(&log)); return; }
            for a in 0..n { if nodes[a].out_degree() != r.out[a].len() || nodes[a].in_degree() != r.inn[a].len() || nodes[a].is_root() != r.inn[a].is_empty() || nodes[a].is_leaf() != r.out[a].is_empty() { fail("degree/predicates", ctx(&log)); return; }
                for b in 0..n { if nodes[a].is_connected(&b) != r.out[a].iter().any(|x| x.0 == b) || nodes[a].find_inbound(&b).is_some() != r.inn[a].iter().any(|x| x.0 == b) { fail("is_connected/find", ctx(&log)); return; } } }
        }
    }
    // ---- searches
    pub fn build(rng: &mut Rng, n: usize, m: usize) -> (Vec<N>, Ref, Vec<(usize, usize, u32)>) {
        let vals: Vec<i64> = (0..n).map(|_| rng.below(3) as i64).collect();
        let nodes: Vec<N> = (0..n).map(|i| Node::new(i, vals[i])).collect(); let mut r = Ref::new(n); let mut log = vec![];
        for _ in 0..m { let u = rng.below(n); let v = if rng.chance(10) { u } else { rng.below(n) }; let e = rng.below(3) as u32; nodes[u].connect(&nodes[v], e); r.connect(u, v, e); log.push((u, v, e)); }
        (nodes, r, log)
    }
    fn dist(adj: &Vec<Vec<(usize, u32)>>, rej: &HashSet<(usize, usize, u32)>, s: usize) -> Vec<Option<usize>> {
        let n = adj.len(); let mut d = vec![None; n]; d[s] = Some(0); let mut q = VecDeque::from([s]);
        while let Some(u) = q.pop_front() { for &(v, e) in &adj[u] { if rej.contains(&(u, v, e)) { continue; } if d[v].is_none() { d[v] = Some(d[u].unwrap() + 1); q.push_back(v); } } } d
    }
    fn cyc_len(adj: &Vec<Vec<(usize, u32)>>, rej: &HashSet<(usize, usize, u32)>, s: usize) -> Option<usize> {
        // shortest closed path of >=1 edges from s to s
        let mut best = None;
        for &(v, e) in &adj[s] { if rej.contains(&(s, v, e)) { continue; } if v == s { best = Some(1); break; }
            if let Some(d) = dist(adj, rej, v)[s] { best = Some(best.map_or(d + 1, |b: usize| b.min(d + 1))); } }
        best
    }
    macro_rules! path_edges { ($p:expr) => { $p.map(|p| p.iter_edges().map(|Edge(u, v, e)| (*u.key(), *v.key(), e)).collect::<Vec<_>>()) } }
    fn check_path(kind: &str, ctx: &dyn Fn() -> String, adj: &Vec<Vec<(usize, u32)>>, rej: &HashSet<(usize, usize, u32)>, p: &Vec<(usize, usize, u32)>, s: usize, t: usize, tr: bool) -> bool {
        if p.is_empty() { fail(&format!("{kind}: empty path"), ctx()); return false; }
        if p[0].0 != s || p[p.len() - 1].1 != t { fail(&format!("{kind}: endpoints"), ctx()); return false; }
        for w in p.windows(2) { if w[0].1 != w[1].0 { fail(&format!("{kind}: not chained"), ctx()); return false; } }
        for &(u, v, e) in p { if !adj[u].contains(&(v, e)) || rej.contains(&(u, v, e)) { fail(&format!("{kind}: edge missing or rejected"), ctx()); return false; } }
        true
    }
    pub fn searches(seed: u64) {
        let mut rng = Rng::new(seed); let n = 1 + rng.below(7); let m = rng.below(2 * n + 2);
        let (nodes, r, log) = build(&mut rng, n, m);
        let mut rej: HashSet<(usize, usize, u32)> = HashSet::new(); if rng.chance(50) { for &(u, v, e) in &log { if rng.chance(25) { rej.insert((u, v, e)); } } }
        let radj: Vec<Vec<(usize, u32)>> = r.inn.clone(); // transposed adjacency (v -> [(u,e)])
        let rrej: HashSet<(usize, usize, u32)> = rej.iter().map(|&(u, v, e)| (u, v, e)).collect();
        for tr in [false, true] {
            // in transposed mode the filter sees Edge(v,u,e) for stored u->v; we express rejection on what the filter sees
            let adj = if tr { &radj } else { &r.out };
            for s in 0..n { let d = dist(adj, &rej, s);
                let ctx = || format!("{} seed={} tr={} root={} log={:?} rej={:?}", stringify!($fl), seed, tr, s, log, rej);
                for t in 0..n { if t == s { continue; }
                    let ctx = || format!("{} seed={} tr={} {}->{} log={:?} rej={:?}", stringify!($fl), seed, tr, s, t, log, rej);
                    for kind in ["bfs", "dfs", "pfs-min", "pfs-max"] {
                        let rejc = rej.clone(); let mut f = move |Edge(u, v, e): &Edge<usize, i64, u32>| !rejc.contains(&(*u.key(), *v.key(), *e));
                        let res = catch_unwind(AssertUnwindSafe(|| match (kind, tr) {
                            ("bfs", false) => path_edges!(nodes[s].bfs().target(&t).filter(&mut f).search_path()),
                            ("bfs", true) => path_edges!(nodes[s].bfs().transpose().target(&t).filter(&mut f).search_path()),
                            ("dfs", false) => path_edges!(nodes[s].dfs().target(&t).filter(&mut f).search_path()),
                            ("dfs", true) => path_edges!(nodes[s].dfs().transpose().target(&t).filter(&mut f).search_path()),
                            ("pfs-min", false) => path_edges!(nodes[s].pfs().target(&t).filter(&mut f).search_path()),
                            ("pfs-min", true) => path_edges!(nodes[s].pfs().transpose().target(&t).filter(&mut f).search_path()),
                            ("pfs-max", false) => path_edges!(nodes[s].pfs().max().target(&t).filter(&mut f).search_path()),
                            (_, _) => path_edges!(nodes[s].pfs().max().transpose().target(&t).filter(&mut f).search_path()),
                        }));
                        let k = format!("{kind} path tr={tr}");
                        match res { Err(_) => fail(&format!("{k}: PANIC"), ctx()),
                            Ok(None) => if d[t].is_some() { fail(&format!("{k}: None but reachable"), ctx()); },
                            Ok(Some(p)) => { if d[t].is_none() { fail(&format!("{k}: Some but unreachable"), ctx()); }
                                else if check_path(&k, &ctx, adj, &rej, &p, s, t, tr) { if kind == "bfs" && p.len() != d[t].unwrap() { fail(&format!("{k}: not shortest"), ctx()); }
                                    let mut seen = HashSet::new(); seen.insert(s); for &(_, v, _) in &p { if !seen.insert(v) { fail(&format!("{k}: node repeated"), ctx()); break; } } } } }
                        // search() agreement
                        let rejc = rej.clone(); let mut f2 = move |Edge(u, v, e): &Edge<usize, i64, u32>| !rejc.contains(&(*u.key(), *v.key(), *e));
                        let got = catch_unwind(AssertUnwindSafe(|| match (kind, tr) {
                            ("bfs", false) => nodes[s].bfs().target(&t).filter(&mut f2).search().map(|x| *x.key()),
                            ("bfs", true) => nodes[s].bfs().transpose().target(&t).filter(&mut f2).search().map(|x| *x.key()),
                            ("dfs", false) => nodes[s].dfs().target(&t).filter(&mut f2).search().map(|x| *x.key()),
                            ("dfs", true) => nodes[s].dfs().transpose().target(&t).filter(&mut f2).search().map(|x| *x.key()),
                            ("pfs-min", false) => nodes[s].pfs().target(&t).filter(&mut f2).search().map(|x| *x.key()),
                            ("pfs-min", true) => nodes[s].pfs().transpose().target(&t).filter(&mut f2).search().map(|x| *x.key()),
                            ("pfs-max", false) => nodes[s].pfs().max().target(&t).filter(&mut f2).search().map(|x| *x.key()),
                            (_, _) => nodes[s].pfs().max().transpose().target(&t).filter(&mut f2).search().map(|x| *x.key()),
                        }));
                        match got { Err(_) => fail(&format!("{kind} search tr={tr}: PANIC"), ctx()), Ok(g) => if g != d[t].map(|_| t) { fail(&format!("{kind} search tr={tr}: wrong"), ctx()); } }
                    }
                }
                // cycles
                let cl = cyc_len(adj, &rej, s);
                for kind in ["bfs", "dfs", "pfs-min", "pfs-max"] {
                    let rejc = rej.clone(); let mut f = move |Edge(u, v, e): &Edge<usize, i64, u32>| !rejc.contains(&(*u.key(), *v.key(), *e));
                    let res = catch_unwind(AssertUnwindSafe(|| match (kind, tr) {
                        ("bfs", false) => path_edges!(nodes[s].bfs().filter(&mut f).search_cycle()),
                        ("bfs", true) => path_edges!(nodes[s].bfs().transpose().filter(&mut f).search_cycle()),
                        ("dfs", false) => path_edges!(nodes[s].dfs().filter(&mut f).search_cycle()),
                        ("dfs", true) => path_edges!(nodes[s].dfs().transpose().filter(&mut f).search_cycle()),
                        ("pfs-min", false) => path_edges!(nodes[s].pfs().filter(&mut f).search_cycle()),
                        ("pfs-min", true) => path_edges!(nodes[s].pfs().transpose().filter(&mut f).search_cycle()),
                        ("pfs-max", false) => path_edges!(nodes[s].pfs().max().filter(&mut f).search_cycle()),
                        (_, _) => path_edges!(nodes[s].pfs().max().transpose().filter(&mut f).search_cycle()),
                    }));
                    let k = format!("{kind} cycle tr={tr}");
                    match res { Err(_) => fail(&format!("{k}: PANIC"), ctx()),
                        Ok(None) => if cl.is_some() { fail(&format!("{k}: None but cycle exists"), ctx()); },
                        Ok(Some(p)) => { if cl.is_none() { fail(&format!("{k}: Some but no cycle"), ctx()); }
                            else if check_path(&k, &ctx, adj, &rej, &p, s, s, tr) { if kind == "bfs" && p.len() != cl.unwrap() { fail(&format!("{k}: not shortest"), ctx()); }
                                let mut seen = HashSet::new(); for &(_, v, _) in &p { if !seen.insert(v) { fail(&format!("{k}: node repeated"), ctx()); break; } } } } }
                }
                // for_each trace: every edge leaving a reachable node exactly once (no filter here)
                let d0 = dist(adj, &HashSet::new(), s);
                let mut expect: Vec<(usize, usize, u32)> = vec![]; for u in 0..n { if d0[u].is_some() { for &(v, e) in &adj[u] { expect.push((u, v, e)); } } } expect.sort();
                for kind in ["bfs", "dfs", "pfs-min", "pfs-max", "pre", "post"] {
                    let mut tr_edges: Vec<(usize, usize, u32)> = vec![]; let mut f = |Edge(u, v, e): &Edge<usize, i64, u32>| tr_edges.push((*u.key(), *v.key(), *e));
                    let res = catch_unwind(AssertUnwindSafe(|| match (kind, tr) {
                        ("bfs", false) => { nodes[s].bfs().for_each(&mut f).search(); } ("bfs", true) => { nodes[s].bfs().transpose().for_each(&mut f).search(); }
                        ("dfs", false) => { nodes[s].dfs().for_each(&mut f).search(); } ("dfs", true) => { nodes[s].dfs().transpose().for_each(&mut f).search(); }
                        ("pfs-min", false) => { nodes[s].pfs().for_each(&mut f).search(); } ("pfs-min", true) => { nodes[s].pfs().transpose().for_each(&mut f).search(); }
                        ("pfs-max", false) => { nodes[s].pfs().max().for_each(&mut f).search(); } ("pfs-max", true) => { nodes[s].pfs().max().transpose().for_each(&mut f).search(); }
                        ("pre", false) => { nodes[s].preorder().for_each(&mut f).search_nodes(); } ("pre", true) => { nodes[s].preorder().transpose().for_each(&mut f).search_nodes(); }
                        ("post", false) => { nodes[s].postorder().for_each(&mut f).search_nodes(); } (_, _) => { nodes[s].postorder().transpose().for_each(&mut f).search_nodes(); }
                    }));
                    if res.is_err() { fail(&format!("{kind} for_each tr={tr}: PANIC"), ctx()); continue; }
                    // pfs order discipline
                    if kind.starts_with("pfs") { let mut disc: Vec<usize> = vec![s]; let mut expd: Vec<usize> = vec![]; let mut seen: HashSet<usize> = HashSet::from([s]);
                        for &(u, v, _) in &tr_edges { if expd.last() != Some(&u) { // start expanding u
                                for &y in &disc { if !expd.contains(&y) && y != u && !adj[y].is_empty() { let (vy, vu) = (*nodes[y].value(), *nodes[u].value()); if (kind == "pfs-min" && vy < vu) || (kind == "pfs-max" && vy > vu) { fail(&format!("{kind} tr={tr}: expansion order"), ctx()); } } }
                                expd.push(u); }
                            if seen.insert(v) { disc.push(v); } } }
                    tr_edges.sort(); if tr_edges != expect { fail(&format!("{kind} for_each tr={tr}: trace != edges of reachable nodes"), ctx()); }
                }
                // orders vs reference DFS (exact: follows adjacency order)
                fn ref_dfs(adj: &Vec<Vec<(usize, u32)>>, rej: &HashSet<(usize, usize, u32)>, u: usize, seen: &mut HashSet<usize>, pre: &mut Vec<usize>, post: &mut Vec<usize>) { pre.push(u); for &(v, e) in &adj[u] { if rej.contains(&(u, v, e)) { continue; } if seen.insert(v) { ref_dfs(adj, rej, v, seen, pre, post); } } post.push(u); }
                let (mut pre, mut post, mut seen) = (vec![], vec![], HashSet::from([s])); ref_dfs(adj, &rej, s, &mut seen, &mut pre, &mut post);
                for kind in ["pre", "post"] {
                    let rejc = rej.clone(); let mut f = move |Edge(u, v, e): &Edge<usize, i64, u32>| !rejc.contains(&(*u.key(), *v.key(), *e));
                    let res = catch_unwind(AssertUnwindSafe(|| match (kind, tr) {
                        ("pre", false) => nodes[s].preorder().filter(&mut f).search_nodes(), ("pre", true) => nodes[s].preorder().transpose().filter(&mut f).search_nodes(),
                        ("post", false) => nodes[s].postorder().filter(&mut f).search_nodes(), (_, _) => nodes[s].postorder().transpose().filter(&mut f).search_nodes(),
                    }.iter().map(|x| *x.key()).collect::<Vec<_>>()));
                    match res { Err(_) => fail(&format!("{kind}order tr={tr}: PANIC"), ctx()), Ok(g) => { let exp = if kind == "pre" { &pre } else { &post }; if &g != exp { fail(&format!("{kind}order tr={tr}: != reference DFS order"), format!("{} got={:?} exp={:?}", ctx(), g, exp)); } } }
                }
            }
        }
    }
    pub fn scc(seed: u64) {
        let mut rng = Rng::new(seed); let n = 1 + rng.below(7); let m = rng.below(2 * n + 2);
        let (nodes, r, log) = build(&mut rng, n, m);
        let mut g: Graph<usize, i64, u32> = Graph::new(); let mut order: Vec<usize> = (0..n).collect(); for i in (1..n).rev() { order.swap(i, rng.below(i + 1)); } for i in order { g.insert(nodes[i].clone()); }
        let reach: Vec<Vec<bool>> = (0..n).map(|s| { let mut d = vec![false; n]; d[s] = true; let mut q = vec![s]; while let Some(u) = q.pop() { for &(v, _) in &r.out[u] { if !d[v] { d[v] = true; q.push(v); } } } d }).collect();
        let mut exp: BTreeSet<BTreeSet<usize>> = BTreeSet::new(); for a in 0..n { exp.insert((0..n).filter(|&b| reach[a][b] && reach[b][a]).collect()); }
        let ctx = || format!("{} seed={} n={} log={:?}", stringify!($fl), seed, n, log);
        match catch_unwind(AssertUnwindSafe(|| g.scc())) { Err(_) => fail("scc: PANIC", ctx()),
            Ok(c) => { let total: usize = c.iter().map(|x| x.len()).sum(); let got: BTreeSet<BTreeSet<usize>> = c.iter().map(|x| x.iter().map(|y| *y.key()).collect()).collect();
                if total != n { fail("scc: not a partition (count)", ctx()); } else if got != exp { fail("scc: wrong partition", format!("{} got={:?} exp={:?}", ctx(), got, exp)); } } }
        // roots/leaves/orphans
        let ks = |v: Vec<N>| { let mut k: Vec<usize> = v.iter().map(|x| *x.key()).collect(); k.sort(); k };
        if ks(g.roots()) != (0..n).filter(|&a| r.inn[a].is_empty()).collect::<Vec<_>>() { fail("roots", ctx()); }
        if ks(g.leaves()) != (0..n).filter(|&a| r.out[a].is_empty()).collect::<Vec<_>>() { fail("leaves", ctx()); }
        if ks(g.orphans()) != (0..n).filter(|&a| r.out[a].is_empty() && r.inn[a].is_empty()).collect::<Vec<_>>() { fail("orphans", ctx()); }
        // serde
        for fmt in ["json", "cbor"] {
            let res = catch_unwind(AssertUnwindSafe(|| -> Graph<usize, i64, u32> { if fmt == "json" { serde_json::from_str(&serde_json::to_string(&g).unwrap()).unwrap() } else { serde_cbor::from_slice(&serde_cbor::to_vec(&g).unwrap()).unwrap() } }));
            match res { Err(_) => fail(&format!("serde {fmt}: PANIC/Err"), ctx()), Ok(h) => { if h.len() != n { fail(&format!("serde {fmt}: len"), ctx()); continue; }
                for a in 0..n { let o: Vec<(usize, u32)> = h[a].iter_out().map(|Edge(_, v, e)| (*v.key(), e)).collect(); if o != r.out[a] || h[a].value() != nodes[a].value() { fail(&format!("serde {fmt}: out list/value differs"), ctx()); break; }
                    let mut i: Vec<(usize, u32)> = h[a].iter_in().map(|Edge(u, _, e)| (*u.key(), e)).collect(); let mut ri = r.inn[a].clone(); i.sort(); ri.sort(); if i != ri { fail(&format!("serde {fmt}: in multiset differs"), ctx()); break; } } } }
        }
    }
}}}

macro_rules! undirected_hunt { ($modname:ident, $fl:ident) => { pub mod $modname {
    use super::*;
    use gdsl::$fl::*;
    type N = Node<usize, i64, u32>;
    pub fn adj_of(r: &Ref) -> Vec<Vec<(usize, u32)>> { (0..r.n).map(|u| r.out[u].iter().chain(r.inn[u].iter()).cloned().collect()).collect() }
    pub fn dump(nodes: &[N]) -> Vec<Vec<(usize, u32)>> { nodes.iter().map(|n| n.iter().map(|Edge(_, v, e)| (*v.key(), e)).collect()).collect() }
    pub fn ops(seed: u64) {
        let mut rng = Rng::new(seed); let n = 2 + rng.below(4);
        let nodes: Vec<N> = (0..n).map(|i| Node::new(i, i as i64)).collect();
        let mut r = Ref::new(n); let mut log: Vec<String> = vec![];
        for step in 0..(20 + rng.below(60)) {
            let u = rng.below(n); let v = if rng.chance(20) { u } else { rng.below(n) }; let e = rng.below(3) as u32;
            let ctx = |log: &Vec<String>| format!("{} seed={} {}", stringify!($fl), seed, log.join(";"));
            match rng.below(10) {
                0..=3 => { log.push(format!("connect {u} {v} {e}")); nodes[u].connect(&nodes[v], e); r.connect(u, v, e); }
                4 => { log.push(format!("try_connect {u} {v} {e}")); let ex = r.out[u].iter().any(|x| x.0 == v) || r.inn[u].iter().any(|x| x.0 == v); let got = nodes[u].try_connect(&nodes[v], e).is_ok();
                    if got == ex { fail("un try_connect result", ctx(&log)); } if !ex { r.connect(u, v, e); } }
                5..=7 => { log.push(format!("disconnect {u} {v}"));
                    // expected: first inbound half (v->u) with partner v.out, else first outbound half (u->v) with partner v.inn
                    let exp = if let Some(i) = r.inn[u].iter().position(|x| x.0 == v) { let x = r.inn[u].remove(i); let j = r.out[v].iter().position(|y| y.0 == u).unwrap(); r.out[v].remove(j); Some(x.1) }
                        else if let Some(i) = r.out[u].iter().position(|x| x.0 == v) { let x = r.out[u].remove(i); let j = r.inn[v].iter().position(|y| y.0 == u).unwrap(); r.inn[v].remove(j); Some(x.1) } else { None };
                    match catch_unwind(AssertUnwindSafe(|| nodes[u].disconnect(&v).ok())) { Ok(g) => if g != exp { fail("un disconnect result", ctx(&log)); }, Err(_) => { fail("un disconnect PANIC", ctx(&log)); return; } } }
                _ => { log.push(format!("isolate {u}"));
                    for w in 0..n { r.out[w].retain(|x| x.0 != u); r.inn[w].retain(|x| x.0 != u); } r.out[u].clear(); r.inn[u].clear();
                    if catch_unwind(AssertUnwindSafe(|| nodes[u].isolate())).is_err() { fail("un isolate PANIC", ctx(&log)); return; } }
            }
            let a = adj_of(&r);
            if dump(&nodes) != a { fail("un state differs from reference", ctx(&log)); return; }
            for x in 0..n { if nodes[x].degree() != a[x].len() || nodes[x].is_orphan() != a[x].is_empty() { fail("un degree/orphan", ctx(&log)); return; }
                for y in 0..n { let c = a[x].iter().any(|z| z.0 == y); if nodes[x].is_connected(&y) != c || nodes[y].is_connected(&x) != c { fail("un is_connected symmetry", ctx(&log)); return; }
                    for e in 0..3u32 { if a[x].iter().filter(|z| **z == (y, e)).count() != a[y].iter().filter(|z| **z == (x, e)).count() { fail("un count symmetry", ctx(&log)); return; } } } }
        }
    }
    fn dist(adj: &Vec<Vec<(usize, u32)>>, rej: &HashSet<(usize, usize, u32)>, s: usize) -> Vec<Option<usize>> {
        let n = adj.len(); let mut d = vec![None; n]; d[s] = Some(0); let mut q = VecDeque::from([s]);
        while let Some(u) = q.pop_front() { for &(v, e) in &adj[u] { if rej.contains(&(u, v, e)) { continue; } if d[v].is_none() { d[v] = Some(d[u].unwrap() + 1); q.push_back(v); } } } d
    }
    macro_rules! path_edges { ($p:expr) => { $p.map(|p| p.iter_edges().map(|Edge(u, v, e)| (*u.key(), *v.key(), e)).collect::<Vec<_>>()) } }
    fn check_path(kind: &str, ctx: &dyn Fn() -> String, adj: &Vec<Vec<(usize, u32)>>, rej: &HashSet<(usize, usize, u32)>, p: &Vec<(usize, usize, u32)>, s: usize, t: usize) -> bool {
        if p.is_empty() { fail(&format!("{kind}: empty path"), ctx()); return false; }
        if p[0].0 != s || p[p.len() - 1].1 != t { fail(&format!("{kind}: endpoints"), ctx()); return false; }
        for w in p.windows(2) { if w[0].1 != w[1].0 { fail(&format!("{kind}: not chained"), ctx()); return false; } }
        for &(u, v, e) in p { if !adj[u].contains(&(v, e)) || rej.contains(&(u, v, e)) { fail(&format!("{kind}: edge missing or rejected"), ctx()); return false; } }
        true
    }
    pub fn searches(seed: u64) {
        let mut rng = Rng::new(seed); let n = 1 + rng.below(7); let m = rng.below(2 * n + 2);
        let vals: Vec<i64> = (0..n).map(|_| rng.below(3) as i64).collect();
        let nodes: Vec<N> = (0..n).map(|i| Node::new(i, vals[i])).collect(); let mut r = Ref::new(n); let mut log = vec![];
        for _ in 0..m { let u = rng.below(n); let v = if rng.chance(10) { u } else { rng.below(n) }; let e = rng.below(3) as u32; nodes[u].connect(&nodes[v], e); r.connect(u, v, e); log.push((u, v, e)); }
        let adj = adj_of(&r);
        let mut rej: HashSet<(usize, usize, u32)> = HashSet::new(); if rng.chance(50) { for u in 0..n { for &(v, e) in &adj[u] { if rng.chance(20) { rej.insert((u, v, e)); } } } }
        for s in 0..n { let d = dist(&adj, &rej, s);
            let ctx = || format!("{} seed={} root={} log={:?} rej={:?}", stringify!($fl), seed, s, log, rej);
            for t in 0..n { if t == s { continue; }
                let ctx = || format!("{} seed={} {}->{} log={:?} rej={:?}", stringify!($fl), seed, s, t, log, rej);
                for kind in ["bfs", "dfs", "pfs-min", "pfs-max"] {
                    let rejc = rej.clone(); let mut f = move |Edge(u, v, e): &Edge<usize, i64, u32>| !rejc.contains(&(*u.key(), *v.key(), *e));
                    let res = catch_unwind(AssertUnwindSafe(|| match kind {
                        "bfs" => path_edges!(nodes[s].bfs().target(&t).filter(&mut f).search_path()), "dfs" => path_edges!(nodes[s].dfs().target(&t).filter(&mut f).search_path()),
                        "pfs-min" => path_edges!(nodes[s].pfs().target(&t).filter(&mut f).search_path()), _ => path_edges!(nodes[s].pfs().max().target(&t).filter(&mut f).search_path()) }));
                    let k = format!("un {kind} path");
                    match res { Err(_) => fail(&format!("{k}: PANIC"), ctx()), Ok(None) => if d[t].is_some() { fail(&format!("{k}: None but reachable"), ctx()); },
                        Ok(Some(p)) => { if d[t].is_none() { fail(&format!("{k}: Some but unreachable"), ctx()); } else if check_path(&k, &ctx, &adj, &rej, &p, s, t) { if kind == "bfs" && p.len() != d[t].unwrap() { fail(&format!("{k}: not shortest"), ctx()); }
                            let mut seen = HashSet::new(); seen.insert(s); for &(_, v, _) in &p { if !seen.insert(v) { fail(&format!("{k}: node repeated"), ctx()); break; } } } } }
                    let rejc = rej.clone(); let mut f2 = move |Edge(u, v, e): &Edge<usize, i64, u32>| !rejc.contains(&(*u.key(), *v.key(), *e));
                    let got = catch_unwind(AssertUnwindSafe(|| match kind { "bfs" => nodes[s].bfs().target(&t).filter(&mut f2).search().map(|x| *x.key()), "dfs" => nodes[s].dfs().target(&t).filter(&mut f2).search().map(|x| *x.key()),
                        "pfs-min" => nodes[s].pfs().target(&t).filter(&mut f2).search().map(|x| *x.key()), _ => nodes[s].pfs().max().target(&t).filter(&mut f2).search().map(|x| *x.key()) }));
                    match got { Err(_) => fail(&format!("un {kind} search: PANIC"), ctx()), Ok(g) => if g != d[t].map(|_| t) { fail(&format!("un {kind} search: wrong"), ctx()); } }
                }
            }
            // cycles: exists iff some accepted closed walk of >= 1 edges from s back to s
            let exists = adj[s].iter().any(|&(v, e)| !rej.contains(&(s, v, e)) && (v == s || dist(&adj, &rej, v)[s].is_some()));
            for kind in ["bfs", "dfs", "pfs-min", "pfs-max"] {
                let rejc = rej.clone(); let mut f = move |Edge(u, v, e): &Edge<usize, i64, u32>| !rejc.contains(&(*u.key(), *v.key(), *e));
                let res = catch_unwind(AssertUnwindSafe(|| match kind { "bfs" => path_edges!(nodes[s].bfs().filter(&mut f).search_cycle()), "dfs" => path_edges!(nodes[s].dfs().filter(&mut f).search_cycle()),
                    "pfs-min" => path_edges!(nodes[s].pfs().filter(&mut f).search_cycle()), _ => path_edges!(nodes[s].pfs().max().filter(&mut f).search_cycle()) }));
                let k = format!("un {kind} cycle");
                match res { Err(_) => fail(&format!("{k}: PANIC"), ctx()), Ok(None) => if exists { fail(&format!("{k}: None but closed walk exists"), ctx()); },
                    Ok(Some(p)) => { if !exists { fail(&format!("{k}: Some but none exists"), ctx()); } else { check_path(&k, &ctx, &adj, &rej, &p, s, s); } } }
            }
            let d0 = dist(&adj, &HashSet::new(), s);
            let mut expect: Vec<(usize, usize, u32)> = vec![]; for u in 0..n { if d0[u].is_some() { for &(v, e) in &adj[u] { expect.push((u, v, e)); } } } expect.sort();
            for kind in ["bfs", "dfs", "pfs-min", "pfs-max", "pre", "post"] {
                let mut tr_edges: Vec<(usize, usize, u32)> = vec![]; let mut f = |Edge(u, v, e): &Edge<usize, i64, u32>| tr_edges.push((*u.key(), *v.key(), *e));
                let res = catch_unwind(AssertUnwindSafe(|| match kind { "bfs" => { nodes[s].bfs().for_each(&mut f).search(); } "dfs" => { nodes[s].dfs().for_each(&mut f).search(); } "pfs-min" => { nodes[s].pfs().for_each(&mut f).search(); }
                    "pfs-max" => { nodes[s].pfs().max().for_each(&mut f).search(); } "pre" => { nodes[s].order().pre().for_each(&mut f).search_nodes(); } _ => { nodes[s].order().post().for_each(&mut f).search_nodes(); } }));
                if res.is_err() { fail(&format!("un {kind} for_each: PANIC"), ctx()); continue; }
                tr_edges.sort(); if tr_edges != expect { fail(&format!("un {kind} for_each: trace != edges of reachable nodes"), ctx()); }
            }
            fn ref_dfs(adj: &Vec<Vec<(usize, u32)>>, rej: &HashSet<(usize, usize, u32)>, u: usize, seen: &mut HashSet<usize>, pre: &mut Vec<usize>, post: &mut Vec<usize>) { pre.push(u); for &(v, e) in &adj[u] { if rej.contains(&(u, v, e)) { continue; } if seen.insert(v) { ref_dfs(adj, rej, v, seen, pre, post); } } post.push(u); }
            let (mut pre, mut post, mut seen) = (vec![], vec![], HashSet::from([s])); ref_dfs(&adj, &rej, s, &mut seen, &mut pre, &mut post);
            for kind in ["pre", "post"] {
                let rejc = rej.clone(); let mut f = move |Edge(u, v, e): &Edge<usize, i64, u32>| !rejc.contains(&(*u.key(), *v.key(), *e));
                let res = catch_unwind(AssertUnwindSafe(|| match kind { "pre" => nodes[s].order().pre().filter(&mut f).search_nodes(), _ => nodes[s].order().post().filter(&mut f).search_nodes() }.iter().map(|x| *x.key()).collect::<Vec<_>>()));
                match res { Err(_) => fail(&format!("un {kind}order: PANIC"), ctx()), Ok(g) => { let exp = if kind == "pre" { &pre } else { &post }; if &g != exp { fail(&format!("un {kind}order: != reference DFS order"), format!("{} got={:?} exp={:?}", ctx(), g, exp)); } } }
            }
        }
        // container + serde
        let mut g: Graph<usize, i64, u32> = Graph::new(); for x in nodes.iter() { g.insert(x.clone()); }
        let ctx = || format!("{} seed={} n={} log={:?}", stringify!($fl), seed, n, log);
        for fmt in ["json", "cbor"] {
            let res = catch_unwind(AssertUnwindSafe(|| -> Graph<usize, i64, u32> { if fmt == "json" { serde_json::from_str(&serde_json::to_string(&g).unwrap()).unwrap() } else { serde_cbor::from_slice(&serde_cbor::to_vec(&g).unwrap()).unwrap() } }));
            match res { Err(_) => fail(&format!("un serde {fmt}: PANIC/Err"), ctx()), Ok(h) => { if h.len() != n { fail(&format!("un serde {fmt}: len"), ctx()); continue; }
                for a in 0..n { let mut o: Vec<(usize, u32)> = h[a].iter().map(|Edge(_, v, e)| (*v.key(), e)).collect(); let mut ra = adj[a].clone(); o.sort(); ra.sort(); if o != ra { fail(&format!("un serde {fmt}: incident multiset differs"), ctx()); break; } } } }
        }
    }
}}}
undirected_hunt!(un, ungraph);
undirected_hunt!(sun, sync_ungraph);

directed_hunt!(di, digraph);
directed_hunt!(sdi, sync_digraph);

fn main() {
    std::panic::set_hook(Box::new(|_| {}));
    let iters: u64 = std::env::args().nth(1).and_then(|x| x.parse().ok()).unwrap_or(300);
    let skip_sync_ops = std::env::var("SKIP_SYNC_OPS").is_ok(); for seed in 0..iters { di::ops(seed); if !skip_sync_ops { sdi::ops(seed); } }
    for seed in 0..iters { di::searches(seed); sdi::searches(seed); }
    for seed in 0..iters { di::scc(seed); sdi::scc(seed); }
    if std::env::var("SKIP_UN_OPS").is_err() { for seed in 0..iters { un::ops(seed); sun::ops(seed); } }
    for seed in 0..iters { un::searches(seed); sun::searches(seed); }
    unsafe { match &FAILS { None => println!("no failures"), Some(m) => for (k, (c, d)) in m { println!("[{c:6}] {k}\n         e.g. {}", &d[..d.len().min(260)]); } } }
}

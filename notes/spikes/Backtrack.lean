/-! Spike: `backtrack_edge_tree` (repaired: the closing edge is not compared with itself). -/
namespace SpikeBacktrack
variable {K : Type} [DecidableEq K]

/-- the `for edge in edge_tree.iter().rev().skip(1)` loop; `cur` is `path[i]`, `acc` is the path so far
    (kept in forward order, the code pushes and reverses at the end) -/
def backLoop : List (K × K) → K × K → List (K × K) → List (K × K)
  | [], _, acc => acc
  | e :: rest, cur, acc => if cur.1 = e.2 then backLoop rest e (e :: acc) else backLoop rest cur acc

/-- `None` models the `unwrap` on an empty tree -/
def backtrack (tree : List (K × K)) : Option (List (K × K)) :=
  match tree.reverse with
  | [] => none
  | w :: rest => some (backLoop rest w [w])

/-- a chain of edges from `a` to `b` -/
inductive Chain : K → K → List (K × K) → Prop where
  | nil (a : K) : Chain a a []
  | snoc {a b c : K} {p : List (K × K)} : Chain a b p → Chain a c (p ++ [(b, c)])

/-- discovery trees, latest edge first: every source is the root or the target of an earlier edge -/
def RevOK (r : K) : List (K × K) → Prop
  | [] => True
  | e :: l => RevOK r l ∧ (e.1 = r ∨ ∃ e' ∈ l, e'.2 = e.1)

theorem backLoop_chain (r : K) (rest : List (K × K)) (cur : K × K) (acc : List (K × K))
    (hok : RevOK r rest) (hroot : ∀ e ∈ rest, e.2 ≠ r)
    (hcur : cur.1 = r ∨ ∃ e' ∈ rest, e'.2 = cur.1) :
    ∃ p, backLoop rest cur acc = p ++ acc ∧ Chain r cur.1 p ∧ ∀ e ∈ p, e ∈ rest := by
  induction rest generalizing cur acc with
  | nil =>
    rcases hcur with h | ⟨e', he', _⟩
    · exact ⟨[], by simp [backLoop], by rw [h]; exact .nil r, by simp⟩
    · simp at he'
  | cons e rest ih =>
    obtain ⟨hok', he⟩ := hok
    have hroot' : ∀ e' ∈ rest, e'.2 ≠ r := fun e' h => hroot e' (List.mem_cons_of_mem _ h)
    simp only [backLoop]
    by_cases hce : cur.1 = e.2
    · simp only [if_pos hce]
      obtain ⟨p, hp, hch, hsub⟩ := ih e (e :: acc) hok' hroot' he
      refine ⟨p ++ [e], by rw [hp]; simp, ?_, ?_⟩
      · rw [hce]; have := Chain.snoc (c := e.2) hch; simpa using this
      · intro x hx; rcases List.mem_append.mp hx with h | h
        · exact List.mem_cons_of_mem _ (hsub x h)
        · simp at h; subst h; simp
    · simp only [if_neg hce]
      have hcur' : cur.1 = r ∨ ∃ e' ∈ rest, e'.2 = cur.1 := by
        rcases hcur with h | ⟨e', he', heq⟩
        · exact Or.inl h
        · rcases List.mem_cons.mp he' with h | h
          · subst h; exact absurd heq.symm hce
          · exact Or.inr ⟨e', h, heq⟩
      obtain ⟨p, hp, hch, hsub⟩ := ih cur acc hok' hroot' hcur'
      exact ⟨p, hp, hch, fun x hx => List.mem_cons_of_mem _ (hsub x hx)⟩

/-- the path returned for a discovery tree ending in `w` is a chain of tree edges from the root to `w.2`;
    `w.2 = r` is allowed (cycle search), earlier edges never enter the root -/
theorem backtrack_chain (r : K) (tree : List (K × K)) (w : K × K) (hok : RevOK r (w :: tree.reverse))
    (hroot : ∀ e ∈ tree, e.2 ≠ r) :
    ∃ p, backtrack (tree ++ [w]) = some p ∧ Chain r w.2 p ∧ ∀ e ∈ p, e ∈ tree ++ [w] := by
  obtain ⟨hok', hw⟩ := hok
  obtain ⟨p, hp, hch, hsub⟩ := backLoop_chain r tree.reverse w [w] hok' (by simpa using hroot) hw
  refine ⟨p ++ [w], by simp [backtrack, hp], ?_, ?_⟩
  · have := Chain.snoc (c := w.2) hch; simpa using this
  · intro e he; rcases List.mem_append.mp he with h | h
    · exact List.mem_append_left _ (by simpa using hsub e h)
    · exact List.mem_append_right _ h

/-- the unrepaired loop starts at the closing edge itself: on `[r→a, r→r]` it emits the loop twice -/
def backtrackOld (tree : List (K × K)) : Option (List (K × K)) :=
  match tree.reverse with
  | [] => none
  | w :: rest => if tree.length = 1 then some [w] else some (backLoop (w :: rest) w [w])

example : backtrackOld [((0 : Nat), 1), (0, 0)] = some [(0, 0), (0, 0)] := by decide
example : backtrack [((0 : Nat), 1), (0, 0)] = some [(0, 0)] := by decide

#print axioms backtrack_chain
end SpikeBacktrack

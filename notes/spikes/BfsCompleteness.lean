namespace SpikeBfs
variable {K : Type} [DecidableEq K]

inductive ScanRes (K : Type) where
  | found (tree : List (K × K))
  | cont (vis : List K) (tree : List (K × K)) (q : List K)

def scan (t u : K) : List K → List K → List (K × K) → List K → ScanRes K
  | [], vis, tree, q => .cont vis tree q
  | v :: vs, vis, tree, q =>
    if v ∈ vis then scan t u vs vis tree q
    else if v = t then .found (tree ++ [(u, v)])
    else scan t u vs (v :: vis) (tree ++ [(u, v)]) (q ++ [v])

inductive Out (K : Type) where
  | found (tree : List (K × K)) | exhausted | outOfFuel

def bfs (adj : K → List K) (t : K) : Nat → List K → List K → List (K × K) → Out K
  | 0, _, _, _ => .outOfFuel
  | _+1, [], _, _ => .exhausted
  | fuel+1, u :: q, vis, tree =>
    match scan t u (adj u) vis tree q with
    | .found tree' => .found tree'
    | .cont vis' tree' q' => bfs adj t fuel q' vis' tree'

inductive Reach (adj : K → List K) : K → K → Prop where
  | refl (a : K) : Reach adj a a
  | step {a b c : K} : Reach adj a b → c ∈ adj b → Reach adj a c

/-- closure modulo the queue -/
def Closed (adj : K → List K) (q vis : List K) : Prop :=
  ∀ x ∈ vis, x ∈ q ∨ ∀ y ∈ adj x, y ∈ vis

theorem scan_cont (t u : K) (vs vis : List K) (tree : List (K × K)) (q : List K)
    (vis' : List K) (tree' : List (K × K)) (q' : List K)
    (h : scan t u vs vis tree q = .cont vis' tree' q') (ht : t ∉ vis) :
    t ∉ vis' ∧ (∀ x ∈ vis, x ∈ vis') ∧ (∀ v ∈ vs, v ∈ vis') ∧ (∀ x ∈ q, x ∈ q') ∧
    (∀ x ∈ vis', x ∈ vis ∨ x ∈ q') := by
  induction vs generalizing vis tree q with
  | nil => simp [scan] at h; obtain ⟨rfl, rfl, rfl⟩ := h; simp_all
  | cons v vs ih =>
    simp only [scan] at h
    split at h
    · have := ih vis tree q h ht; grind
    · split at h
      · simp at h
      · rename_i hv hvt
        have := ih (v :: vis) (tree ++ [(u, v)]) (q ++ [v]) h (by simp; grind)
        grind

theorem bfs_exhausted_closed (adj : K → List K) (t : K) (fuel : Nat) (q vis : List K) (tree : List (K × K))
    (h : bfs adj t fuel q vis tree = .exhausted) (ht : t ∉ vis) (hc : Closed adj q vis) :
    ∃ vis', (∀ x ∈ vis, x ∈ vis') ∧ t ∉ vis' ∧ Closed adj [] vis' := by
  induction fuel generalizing q vis tree with
  | zero => simp [bfs] at h
  | succ fuel ih =>
    cases q with
    | nil => exact ⟨vis, fun _ h => h, ht, hc⟩
    | cons u q =>
      simp only [bfs] at h
      split at h
      · simp at h
      · rename_i vis' tree' q' hs
        obtain ⟨h1, h2, h3, h4, h5⟩ := scan_cont t u (adj u) vis tree q vis' tree' q' hs ht
        have hc' : Closed adj q' vis' := by
          intro x hx
          rcases h5 x hx with hx | hx
          · rcases hc x hx with hq | hcl
            · rcases List.mem_cons.mp hq with rfl | hq
              · right; exact h3
              · left; exact h4 x hq
            · right; intro y hy; exact h2 y (hcl y hy)
          · left; exact hx
        obtain ⟨v2, a, b, c⟩ := ih q' vis' tree' h h1 hc'
        exact ⟨v2, fun x hx => a x (h2 x hx), b, c⟩

theorem closed_reach (adj : K → List K) (vis : List K) (hc : Closed adj [] vis) (r : K) (hr : r ∈ vis)
    (x : K) (h : Reach adj r x) : x ∈ vis := by
  induction h with
  | refl => exact hr
  | step _ hcb ih => rcases hc _ ih with h | h; · simp at h
                     · exact h _ hcb

/-- completeness: if BFS exhausts the queue, the target is unreachable -/
theorem bfs_complete (adj : K → List K) (r t : K) (fuel : Nat) (hrt : r ≠ t)
    (h : bfs adj t fuel [r] [r] [] = .exhausted) : ¬ Reach adj r t := by
  intro hreach
  obtain ⟨vis', a, b, c⟩ := bfs_exhausted_closed adj t fuel [r] [r] [] h (by simp; exact fun h => hrt h.symm)
    (by intro x hx; left; exact hx)
  exact b (closed_reach adj vis' c r (a r (by simp)) t hreach)

end SpikeBfs

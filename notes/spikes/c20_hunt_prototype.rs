#![allow(unused, clippy::all)]
use std::collections::{BTreeMap, HashSet};
use std::panic::{catch_unwind, AssertUnwindSafe};
pub struct Rng(u64);
impl Rng { pub fn new(s: u64) -> Self { Rng(s.wrapping_mul(0x9E3779B97F4A7C15) | 1) } pub fn next(&mut self) -> u64 { let mut x = self.0; x ^= x << 13; x ^= x >> 7; x ^= x << 17; self.0 = x; x }
    pub fn below(&mut self, n: usize) -> usize { (self.next() % n as u64) as usize } pub fn chance(&mut self, p: u64) -> bool { self.next() % 100 < p } }
pub static mut FAILS: Option<BTreeMap<String, (usize, String)>> = None;
pub fn fail(kind: &str, detail: String) { unsafe { let m = FAILS.get_or_insert_with(BTreeMap::new); let e = m.entry(kind.to_string()).or_insert((0, detail.clone())); e.0 += 1; if detail.len() < e.1.len() { e.1 = detail; } } }

macro_rules! c20 { ($modname:ident, $fl:ident, $iter:ident, $directed:expr) => { pub mod $modname {
    use super::*; use gdsl::$fl::*;
    type N = Node<usize, i64, u32>;
    fn rand_op(rng: &mut Rng, nodes: &[N], log: &mut Vec<String>, allow_add: bool) {
        let n = nodes.len(); let u = rng.below(n); let v = if rng.chance(25) { u } else { rng.below(n) }; let e = rng.below(3) as u32;
        match rng.below(6) { 0 if allow_add => { log.push(format!("connect {u} {v} {e}")); nodes[u].connect(&nodes[v], e); }
            1 if allow_add => { log.push(format!("try_connect {u} {v}")); let _ = nodes[u].try_connect(&nodes[v], e); }
            2 | 3 => { log.push(format!("disconnect {u} {v}")); let _ = nodes[u].disconnect(&v); }
            4 => { log.push(format!("isolate {u}")); nodes[u].isolate(); }
            _ => { log.push(format!("query {u} {v}")); let _ = nodes[u].is_connected(&v); let _ = nodes[u].$iter().count(); let _ = nodes[v].bfs().target(&u).search(); } }
    }
    pub fn run(seed: u64) {
        let mut rng = Rng::new(seed); let n = 1 + rng.below(5);
        let nodes: Vec<N> = (0..n).map(|i| Node::new(i, rng.below(3) as i64)).collect(); let mut log: Vec<String> = vec![];
        for _ in 0..rng.below(3 * n + 2) { let u = rng.below(n); let v = if rng.chance(25) { u } else { rng.below(n) }; let e = rng.below(3) as u32; nodes[u].connect(&nodes[v], e); log.push(format!("connect {u} {v} {e}")); }
        log.push("|".into());
        let which = rng.below(7); let root = rng.below(n); let budget = std::cell::Cell::new(6usize);
        let ctx = |log: &Vec<String>| format!("{} seed={} loop={} root={} {}", stringify!($fl), seed, which, root, log.join(";"));
        let res = catch_unwind(AssertUnwindSafe(|| {
            let mut steps = 0usize;
            if which == 0 {
                for Edge(u, v, e) in nodes[root].$iter() {
                    steps += 1; if steps > 10_000 { fail("c20 iterator did not terminate", ctx(&log)); break; }
                    // yielded edge must exist now
                    if !nodes[root].$iter().any(|Edge(_, v2, e2)| v2.key() == v.key() && e2 == e) { fail("c20 iterator yielded a non-existing edge", ctx(&log)); }
                    if *u.key() != root { fail("c20 iterator wrong endpoint", ctx(&log)); }
                    let add = budget.get() > 0; if add { budget.set(budget.get() - 1); } rand_op(&mut rng, &nodes, &mut log, add);
                }
            } else {
                let mut lg = log.clone(); let mut rng2 = Rng::new(seed ^ 0xABCDEF);
                let mut cb = |Edge(u, v, e): &Edge<usize, i64, u32>| { let add = budget.get() > 0; if add { budget.set(budget.get() - 1); } rand_op(&mut rng2, &nodes, &mut lg, add); };
                match which { 1 => { nodes[root].bfs().for_each(&mut cb).search(); } 2 => { nodes[root].dfs().for_each(&mut cb).search(); } 3 => { nodes[root].pfs().for_each(&mut cb).search(); }
                    4 => { nodes[root].pfs().max().for_each(&mut cb).search_path(); } 5 => { nodes[root].bfs().for_each(&mut cb).search_cycle(); } _ => { nodes[root].dfs().for_each(&mut cb).search_path(); } }
                log = lg;
            }
        }));
        if res.is_err() { fail("c20 PANIC during loop/callback", ctx(&log)); return; }
        // invariants afterwards
        let ok = catch_unwind(AssertUnwindSafe(|| { for a in 0..n { for Edge(_, v, e) in nodes[a].$iter() { let _ = (v.key(), e); } } }));
        if ok.is_err() { fail("c20 PANIC after loop", ctx(&log)); }
    }
}}}
c20!(di, digraph, iter_out, true);
c20!(sdi, sync_digraph, iter_out, true);
c20!(un, ungraph, iter, false);
c20!(sun, sync_ungraph, iter, false);
fn main() {
    std::panic::set_hook(Box::new(|_| {}));
    let iters: u64 = std::env::args().nth(1).and_then(|x| x.parse().ok()).unwrap_or(300);
    let which = std::env::args().nth(2).unwrap_or("all".into());
    for seed in 0..iters { if which == "all" || which == "di" { di::run(seed); } if which == "all" || which == "un" { un::run(seed); } if which == "all" || which == "sdi" { sdi::run(seed); } if which == "all" || which == "sun" { sun::run(seed); } }
    unsafe { match &FAILS { None => println!("no failures"), Some(m) => for (k, (c, d)) in m { println!("[{c:6}] {k}\n         e.g. {}", &d[..d.len().min(300)]); } } }
}

import GdslModel.Model.Spec
/-!
# `backtrack_edge_tree` and chains (shared by C04, C05, C06, C09)
INTERFACE FILE: the statements below are fixed; proofs are to be filled in.
-/
namespace G
variable {K E : Type} [DecidableEq K]

/-- the path returned for a discovery tree ending in `w` is `p ++ [w]` with `p` a chain of earlier
    tree edges from the root to the source of `w`; `w.2.1 = r` is allowed (cycle search) but no
    earlier edge enters the root -/
theorem backtrack_spec (r : K) (tree : List (Edge K E)) (w : Edge K E)
    (ht : DTree r (tree ++ [w])) (hroot : ∀ x ∈ tree, x.2.1 ≠ r) :
    ∃ p, backtrack (tree ++ [w]) = p ++ [w] ∧ Chain r w.1 p ∧ ∀ x ∈ p, x ∈ tree := by
  sorry

/-- a chain of edges that all exist in the graph is a walk -/
theorem chain_walk (adj : K → List (K × E)) {a b : K} {p : List (Edge K E)} (hc : Chain a b p)
    (hs : ∀ x ∈ p, (x.2.1, x.2.2) ∈ adj x.1) : Walk adj a b p := by
  sorry

/-- with a depth function that grows by one along tree edges, a chain of tree edges from the root to `a`
    has exactly `d a` edges -/
theorem chain_depth (tree : List (Edge K E)) (d : K → Nat) (r : K) (hd0 : d r = 0)
    (hd : ∀ x ∈ tree, d x.2.1 = d x.1 + 1) {a : K} {p : List (Edge K E)} (hc : Chain r a p)
    (hs : ∀ x ∈ p, x ∈ tree) : p.length = d a := by
  sorry

/-- in a tree whose edge targets are distinct and never the root, a chain from the root repeats no node -/
theorem chain_simple (r : K) (tree : List (Edge K E)) (hn : (tree.map (fun x => x.2.1)).Nodup)
    (hroot : ∀ x ∈ tree, x.2.1 ≠ r) {a : K} {p : List (Edge K E)} (hc : Chain r a p)
    (hs : ∀ x ∈ p, x ∈ tree) : (r :: p.map (fun x => x.2.1)).Nodup := by
  sorry

theorem pathNodes_chain {a b : K} {p : List (Edge K E)} (hc : Chain a b p) (hne : p ≠ []) :
    pathNodes p = a :: p.map (fun x => x.2.1) := by
  sorry

/-- reachability by one or more steps is the existence of a non-empty walk -/
theorem reach_iff_path (adj : K → List (K × E)) (a b : K) :
    Reach adj a b ↔ a = b ∨ ∃ p, IsPath adj a b p := by
  sorry

end G

import GdslModel.Model.Sync
import GdslModel.Model.Spec
/-!
# Lock programs run alone compute the plain functions (interface for C15 / C17)
INTERFACE FILE: the statements below are fixed; proofs are to be filled in.
-/
namespace G
variable {K E : Type} [DecidableEq K]

/-- the body of every directed mutator (no mutation mutex), run alone from any store with no lock held,
    never blocks and computes exactly `Di.step` -/
theorem Sync.Di.body_refines (op : Op K E) (s : Store K E) :
    ∃ n tr, ∀ fuel, n ≤ fuel →
      runSingle fuel (Sync.Di.prog false op) s [] [] = some ((Di.step s op).1, (Di.step s op).2, tr) := by
  sorry

theorem Sync.Un.body_refines (op : Op K E) (s : Store K E) :
    ∃ n tr, ∀ fuel, n ≤ fuel →
      runSingle fuel (Sync.Un.prog false op) s [] [] = some ((Un.step s op).1, (Un.step s op).2, tr) := by
  sorry

/-- the same with the mutation mutex around the body -/
theorem Sync.Di.prog_refines (op : Op K E) (s : Store K E) :
    ∃ n tr, ∀ fuel, n ≤ fuel →
      runSingle fuel (Sync.Di.prog true op) s [] [] = some ((Di.step s op).1, (Di.step s op).2, tr) := by
  sorry

theorem Sync.Un.prog_refines (op : Op K E) (s : Store K E) :
    ∃ n tr, ∀ fuel, n ≤ fuel →
      runSingle fuel (Sync.Un.prog true op) s [] [] = some ((Un.step s op).1, (Un.step s op).2, tr) := by
  sorry

end G

#!/usr/bin/env python3
"""Mutation sweep: how many small source mutations of gdsl that still compile and still pass the existing suite
are reported by the checks?

This is a measurement tool for the framework itself (DESIGN.md section 13), not a registered check. It never
touches /repo or /verif: it works on a private copy of both.

  tools/mutants.py --work DIR [--max N] [--seed S] [--only REGEX] [--ops a,b,c]

DIR/repo   copy of /repo's HEAD (git worktree export), mutated and restored for every mutant
DIR/verif  copy of /verif's working tree whose crates depend on DIR/repo
DIR/mutants.jsonl   one record per mutant: file, line, operator, before/after, fate
   fate: stillborn (does not compile) | killed-by-suite (an existing test fails) | caught:<ID>[:no-failing-input-found]
         | MISSED (every relevant check passed: equivalent mutant or a gap - to be triaged by hand)
"""
import argparse, json, os, random, re, shutil, subprocess, sys, time

def sh(cmd, cwd=None, timeout=None, env=None):
    try:
        r = subprocess.run(cmd, cwd=cwd, timeout=timeout, env=env, stdout=subprocess.PIPE, stderr=subprocess.STDOUT, text=True, shell=isinstance(cmd, str))
        return r.returncode, r.stdout
    except subprocess.TimeoutExpired as e:
        return 124, (e.stdout or b"").decode(errors="replace") if isinstance(e.stdout, bytes) else (e.stdout or "")

# ---------------------------------------------------------------- mutation operators (single line, textual)
OPS = [
    ("swap-out-in", r"\biter_out\b", "iter_in"), ("swap-in-out", r"\biter_in\b", "iter_out"),
    ("outbound->inbound", r"\boutbound\b", "inbound"), ("inbound->outbound", r"\binbound\b", "outbound"),
    ("push->insert0", r"\.push\(", ".insert(0, "),
    ("eq->ne", r" == ", " != "), ("ne->eq", r" != ", " == "),
    ("lt->le", r" < ", " <= "), ("le->lt", r" <= ", " < "), ("gt->ge", r" > ", " >= "), ("ge->gt", r" >= ", " > "),
    ("and->or", r" && ", " || "), ("or->and", r" \|\| ", " && "),
    ("true->false", r"\btrue\b", "false"), ("false->true", r"\bfalse\b", "true"),
    ("drop-not", r"!(?=[a-z(])", ""),
    ("continue->break", r"\bcontinue\b", "break"), ("break->continue", r"\bbreak\b", "continue"),
    ("plus1->plus0", r"\+ 1\b", "+ 0"), ("minus1->minus0", r"- 1\b", "- 0"), ("pluseq1->pluseq2", r"\+= 1\b", "+= 2"),
    ("some->none", r"\bSome\(([a-z_.()&*]+)\)", "None"),
    ("pop_front->pop_back", r"\bpop_front\b", "pop_back"), ("push_back->push_front", r"\bpush_back\b", "push_front"),
    ("drop-rev", r"\.rev\(\)", ""),
    ("min->max", r"\bloop_outbound_min\b", "loop_outbound_max"), ("Reverse-drop", r"\bReverse\(([a-z_.()]+)\)", r"\1"),
    ("first->last", r"\.first\(\)", ".last()"), ("last->first", r"\.last\(\)", ".first()"),
    ("remove->swap_remove", r"\.remove\(idx\)", ".swap_remove(idx)"),
    ("ok->err", r"\bOk\(\(\)\)", "Err(Error::EdgeNotFound)"),
    ("unwrap_or-flip", r"\.is_some\(\)", ".is_none()"), ("is_none-flip", r"\.is_none\(\)", ".is_some()"),
    ("is_empty-not", r"\.is_empty\(\)", ".len() == 1"),
    ("read->write", r"\.read\(\)", ".write()"),
    ("delete-stmt", None, None),
]

def relevant_checks(path):
    fl = path.split("/")[0]
    directed = fl in ("digraph", "sync_digraph")
    sync = fl.startswith("sync_")
    edge = ["C01" if directed else "C02", "C03"]
    tail = ["C15"] + (["C17"] if sync else [])
    if path.endswith("adjacent.rs"):
        return edge + ["C20", "C19"] + tail
    if path.endswith("node/mod.rs"):
        return edge + ["C20", "C06", "C19", "C04"] + tail
    if path.endswith("bfs.rs"):
        return ["C04", "C09", "C07"] + (["C08"] if directed else []) + ["C20", "C19"] + tail
    if path.endswith("dfs.rs"):
        return ["C05", "C09", "C07"] + (["C08"] if directed else []) + ["C20", "C19"] + tail
    if path.endswith("pfs.rs"):
        return ["C06", "C09", "C07"] + (["C08"] if directed else []) + ["C20"] + tail
    if path.endswith("order.rs"):
        return ["C10", "C07"] + (["C08", "C11"] if directed else []) + ["C20", "C19"] + tail
    if path.endswith("path.rs"):
        return ["C04", "C05", "C09", "C06"] + tail
    if path.endswith("method.rs"):
        return ["C07", "C04"] + tail
    if path.endswith("graph_serde.rs"):
        return ["C12", "C13"] + tail
    if path.endswith("graph_macros.rs"):
        return ["C14"]
    if path.endswith("/mod.rs") or path == fl + "/mod.rs":
        return ["C18"] + (["C11"] if directed else []) + ["C12", "C14"] + tail
    return ["C03", "C15"]

def enumerate_mutants(repo, only):
    out = []
    src = os.path.join(repo, "src")
    for root, _, files in os.walk(src):
        for f in sorted(files):
            if not f.endswith(".rs") or f in ("verif_hook.rs", "lib.rs", "error.rs"):
                continue
            p = os.path.join(root, f)
            rel = os.path.relpath(p, src)
            if only and not re.search(only, rel):
                continue
            lines = open(p).read().split("\n")
            in_doc = False
            for i, l in enumerate(lines):
                s = l.strip()
                if s.startswith("//") or s.startswith("#[") or not s:
                    continue
                if s.startswith("macro_rules!") or "format!" in s or "panic!" in s or "write!" in s or "push_str" in s:
                    continue
                code = l.split("//")[0]
                for name, pat, rep in OPS:
                    if name == "delete-stmt":
                        if s.endswith(";") and not s.startswith(("let ", "use ", "pub ", "type ", "return", "}")) and "=>" not in s and s.count("(") == s.count(")"):
                            out.append((rel, i, name, l, re.sub(r"\S.*$", "", l) + "/* deleted */"))
                        continue
                    for m in re.finditer(pat, code):
                        new = code[:m.start()] + m.expand(rep) + code[m.end():]
                        if new != code:
                            out.append((rel, i, name, l, new + l[len(code):]))
    return out

def main():
    ap = argparse.ArgumentParser()
    ap.add_argument("--work", required=True)
    ap.add_argument("--max", type=int, default=100000)
    ap.add_argument("--seed", type=int, default=1)
    ap.add_argument("--only", default="")
    ap.add_argument("--ops", default="")
    ap.add_argument("--verif", default="/verif")
    ap.add_argument("--repo", default="/repo")
    ap.add_argument("--skip-setup", action="store_true")
    a = ap.parse_args()
    W = os.path.abspath(a.work)
    repo, verif = os.path.join(W, "repo"), os.path.join(W, "verif")
    env = dict(os.environ, CARGO_NET_OFFLINE="true", VERIF_REPO=repo)
    if not a.skip_setup:
        shutil.rmtree(W, ignore_errors=True)
        os.makedirs(W)
        sh(f"git -C {a.repo} archive HEAD | tar -x -C {W} --one-top-level=repo")
        sh(f"cd {repo} && git init -q && git add -A && git -c user.email=m@m -c user.name=m commit -qm base")
        sh(f"rsync -a --exclude work --exclude replays --exclude harness/target --exclude macros/target --exclude probes/target --exclude .git --exclude seeded --exclude notes {a.verif}/ {verif}/")
        for c in ("harness", "macros", "probes"):
            p = os.path.join(verif, c, "Cargo.toml")
            t = open(p).read().replace('path = "/repo"', f'path = "{repo}"')
            open(p, "w").write(t)
            cfg = os.path.join(verif, c, ".cargo", "config.toml")
            if os.path.exists(cfg):
                t = open(cfg).read().replace("/verif/", verif + "/")
                open(cfg, "w").write(t)
        sh(f"grep -rl '/verif/' {verif}/tools {verif}/check | xargs -r sed -i 's#/verif/#{verif}/#g'")
        rc, out = sh("./setup", cwd=verif, env=env, timeout=3600)
        print("setup rc", rc, out[-300:], flush=True)
        rc, out = sh("cargo test --workspace --offline --no-fail-fast --lib --tests", cwd=repo, env=env, timeout=1800)
        print("baseline suite rc", rc, flush=True)
        if rc != 0:
            print(out[-2000:])
            return 1
    ms = enumerate_mutants(repo, a.only)
    if a.ops:
        keep = set(a.ops.split(","))
        ms = [m for m in ms if m[2] in keep]
    random.Random(a.seed).shuffle(ms)
    ms = ms[: a.max]
    print(f"{len(ms)} mutants", flush=True)
    logp = os.path.join(W, "mutants.jsonl")
    done = set()
    if os.path.exists(logp):
        for l in open(logp):
            r = json.loads(l)
            done.add((r["file"], r["line"], r["op"], r["after"]))
    log = open(logp, "a")
    t0 = time.time()
    for n, (rel, i, op, before, after) in enumerate(ms):
        if (rel, i + 1, op, after) in done:
            continue
        p = os.path.join(repo, "src", rel)
        lines = open(p).read().split("\n")
        assert lines[i] == before
        lines[i] = after
        open(p, "w").write("\n".join(lines))
        rec = {"file": rel, "line": i + 1, "op": op, "before": before.strip(), "after": after.strip()}
        t1 = time.time()
        rc, out = sh("cargo build --offline --lib --tests", cwd=repo, env=env, timeout=900)
        if rc != 0:
            rec["fate"] = "stillborn"
        else:
            rc, out = sh("timeout 300 cargo test --workspace --offline --no-fail-fast --lib --tests", cwd=repo, env=env, timeout=400)
            if rc != 0:
                rec["fate"] = "killed-by-suite"
            else:
                rec["fate"] = "MISSED"
                rec["checks"] = []
                for cid in relevant_checks(rel):
                    rc, out = sh(["./check", cid, "--tier", "quick"], cwd=verif, env=env, timeout=1800)
                    v = [l for l in out.split("\n") if l.startswith("VIOLATION")]
                    rec["checks"].append(cid)
                    if v:
                        concrete = not all("no-failing-input-found" in x for x in v)
                        if concrete:
                            rec["fate"] = f"caught:{cid}"
                            break
                        # reported, but without a failing input: remember it and see whether a later check finds one
                        rec.setdefault("reported_without_input", []).append(cid)
                        rec["fate"] = f"caught:{rec['reported_without_input'][0]}:no-failing-input-found"
        rec["secs"] = round(time.time() - t1, 1)
        sh("git checkout -- .", cwd=repo)
        log.write(json.dumps(rec) + "\n")
        log.flush()
        print(f"[{n+1}/{len(ms)}] {rel}:{i+1} {op}: {rec['fate']} ({rec['secs']} s, total {round(time.time()-t0)} s)", flush=True)
    # summary
    recs = [json.loads(l) for l in open(logp)]
    from collections import Counter
    c = Counter(r["fate"].split(":")[0] if r["fate"].startswith("caught") else r["fate"] for r in recs)
    print("SUMMARY", dict(c))
    for r in recs:
        if r["fate"] == "MISSED":
            print("MISSED", r["file"], r["line"], r["op"], "|", r["before"], "=>", r["after"])
    return 0

if __name__ == "__main__":
    sys.exit(main())

#!/bin/sh
# seed_round.sh <worktree-name> <seed-id> <property> : store, verify and try one seeded change
W="$1"; S="$2"; P="$3"
mkdir -p /verif/seeded/$S && cp /tmp/seed/$W/SEED_OUT/patch.diff /tmp/seed/$W/SEED_OUT/demo.rs /tmp/seed/$W/SEED_OUT/NOTES.md /verif/seeded/$S/ || exit 2
echo "== verify $S"; /verif/tools/verify_seed.sh /verif/seeded/$S 2>&1 | tail -2
echo "== check $P"; /verif/tools/try_seed.sh /verif/seeded/$S/patch.diff $P 2>&1 | tail -4

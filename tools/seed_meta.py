#!/usr/bin/env python3
"""seed_meta.py <seed-id> <property> <change> <needs> <ran>: writes seeded/<id>/meta.json"""
import json, sys
sid, prop, change, needs, ran = sys.argv[1:6]
json.dump({"property": prop, "change": change, "needs_to_manifest": needs,
           "verified": "tools/verify_seed.sh: existing suite passes with the change, demo.rs fails with it and passes without it (scratch worktree)",
           "ran": ran, "origin": "independent sub-agent given only the property text and a scratch worktree (later rounds: told which kinds of change earlier rounds produced and asked for a different kind, round 4 also pointed at less-travelled corners)"},
          open(f"/verif/seeded/{sid}/meta.json", "w"), indent=1)

#!/bin/sh
# verify_seed.sh <dir with patch.diff and demo.rs>: confirms, in a scratch worktree of /repo, that the change
# compiles, the existing suite still passes with it, and the demonstration fails with it and passes without it.
set -u
D="$1"; W=/tmp/seedverify.$$
git -C /repo worktree add -q "$W" HEAD || exit 2
trap 'git -C /repo worktree remove --force "$W" >/dev/null 2>&1; rm -rf "$W"' EXIT
export CARGO_TARGET_DIR="$W/target" CARGO_NET_OFFLINE=true
cp "$D/demo.rs" "$W/tests/seed_demo.rs"
( cd "$W" && timeout 600 cargo test --offline --test seed_demo >"$W/demo_without.log" 2>&1 ); R0=$?
git -C "$W" apply "$D/patch.diff" || { echo "PATCH DOES NOT APPLY"; exit 2; }
( cd "$W" && timeout 900 cargo test --workspace --offline --no-fail-fast >"$W/suite.log" 2>&1 ); RS=$?
( cd "$W" && timeout 600 cargo test --offline --test seed_demo >"$W/demo_with.log" 2>&1 ); R1=$?
PASSED=$(grep -E "^test result" "$W/suite.log" | awk '{p+=$4; f+=$6} END {print p" passed "f" failed"}')
echo "demo without change: rc=$R0 (want 0); suite with change (incl. the demo): rc=$RS [$PASSED]; demo with change: rc=$R1 (want != 0)"
grep -E "^test .* FAILED|^test result: FAILED|panicked at" "$W/demo_with.log" | head -5
# the only failing test of the suite run must be the demo itself
grep -E "^test .*FAILED" "$W/suite.log" | grep -v seed_demo | head
if [ $R0 -eq 0 ] && [ $R1 -ne 0 ]; then echo "SEED-VERIFIED"; else echo "SEED-NOT-VERIFIED"; fi

#!/bin/sh
# coverage.sh [DIR]: line coverage of /repo/src under one quick run of every harness generator (measurement tool,
# not a registered check). Needs the nightly toolchain's llvm-profdata/llvm-cov (same LLVM major as stable rustc).
set -e
D="${1:-/tmp/gdsl-cov}"; mkdir -p "$D/prof" "$D/out"
B="$HOME/.rustup/toolchains/nightly-x86_64-unknown-linux-gnu/lib/rustlib/x86_64-unknown-linux-gnu/bin"
cd /verif/harness
CARGO_TARGET_DIR="$D/target" RUSTFLAGS="--cfg gdsl_verif -C instrument-coverage" cargo build --offline 2>&1 | tail -1
rm -f /repo/default_*.profraw /verif/harness/default_*.profraw
H="$D/target/debug/gdsl-verif-harness"
for id in C01 C02 C03 C04 C05 C06 C07 C08 C09 C10 C11 C12 C13 C15 C17 C18 C19 C20; do
  LLVM_PROFILE_FILE="$D/prof/$id-%p-%m.profraw" timeout 1800 "$H" run --prop $id --tier quick --seed 1 --threads 16 --out "$D/out/$id" >/dev/null 2>&1 || echo "$id failed"
  rm -rf "$D/out/$id"
done
"$B/llvm-profdata" merge -sparse "$D"/prof/*.profraw -o "$D/all.profdata"
"$B/llvm-cov" report "$H" -instr-profile="$D/all.profdata" --ignore-filename-regex='(registry|rustc|harness)' | cut -c1-40,100-190
"$B/llvm-cov" export "$H" -instr-profile="$D/all.profdata" --ignore-filename-regex='(registry|rustc|harness)' -format=lcov > "$D/all.lcov"
python3 - "$D/all.lcov" <<'PY'
import sys, collections
cur=None; miss=collections.defaultdict(list)
for l in open(sys.argv[1]):
    l=l.strip()
    if l.startswith('SF:'): cur=l[3:]
    elif l.startswith('DA:'):
        a,b=l[3:].split(',')[:2]
        if b=='0': miss[cur].append(int(a))
for f in sorted(miss):
    src=open(f).read().split('\n')
    for n in miss[f]: print(f"not executed: {f}:{n}: {src[n-1].strip()[:100]}")
PY

"""C16: Send/Sync exactness. The model's tables are regenerated from the Rust sources by
translate_traits.py; the theorems of Props/C16.lean are `decide`-proofs over that data. The model is
validated against rustc by a probe binary that reads the real trait solver's verdict for every
(flavour, type, payload-capability) row; the rustc table is also judged directly against the
property statement (oracle)."""
import os, json, time, shutil, itertools

WIT = {"both": "PBoth", "send": "PSend", "sync": "PSync", "none": "PNone"}
FLS = ["digraph", "sync_digraph", "ungraph", "sync_ungraph"]
TYS = ["Node", "Edge", "Graph"]

PRELUDE = '''#![allow(unused, clippy::all)]
use std::marker::PhantomData;
macro_rules! payload {
    ($name:ident, $marker:ty) => {
        pub struct $name(pub u8, pub PhantomData<$marker>);
        impl Clone for $name { fn clone(&self) -> Self { $name(self.0, PhantomData) } }
        impl PartialEq for $name { fn eq(&self, o: &Self) -> bool { self.0 == o.0 } }
        impl Eq for $name {}
        impl std::hash::Hash for $name { fn hash<H: std::hash::Hasher>(&self, h: &mut H) { self.0.hash(h) } }
        impl std::fmt::Display for $name { fn fmt(&self, f: &mut std::fmt::Formatter) -> std::fmt::Result { write!(f, "{}", self.0) } }
    };
}
payload!(PBoth, ());                                   // Send + Sync
payload!(PSend, std::cell::Cell<u8>);                  // Send only
payload!(PSync, std::sync::MutexGuard<'static, u8>);   // Sync only
payload!(PNone, std::rc::Rc<u8>);                      // neither
struct Probe<T: ?Sized>(PhantomData<T>);
trait No { const SEND: bool = false; const SYNC: bool = false; }
impl<T: ?Sized> No for Probe<T> {}
impl<T: ?Sized + Send> Probe<T> { const SEND: bool = true; }
impl<T: ?Sized + Sync> Probe<T> { const SYNC: bool = true; }
// the same question about a value whose type cannot be named (a search object holding a closure): method resolution
// prefers the impl on `Wrap<T>` (found without an extra autoref) whenever its bound holds
struct Wrap<'a, T>(&'a T);
trait YesSend { fn is_send(&self) -> bool { true } }
trait NoSend { fn is_send(&self) -> bool { false } }
impl<'a, T: Send> YesSend for Wrap<'a, T> {}
impl<'a, 'b, T> NoSend for &'b Wrap<'a, T> {}
trait YesSync { fn is_sync(&self) -> bool { true } }
trait NoSync { fn is_sync(&self) -> bool { false } }
impl<'a, T: Sync> YesSync for Wrap<'a, T> {}
impl<'a, 'b, T> NoSync for &'b Wrap<'a, T> {}
fn brow(fl: &str, what: &str, send: bool, sync: bool) {
    println!("B {fl} {what} send={} sync={}", send as u8, sync as u8);
}
fn row(fl: &str, ty: &str, k: &str, n: &str, e: &str, send: bool, sync: bool) {
    println!("{fl} {ty} {k} {n} {e} send={} sync={}", send as u8, sync as u8);
}
'''


def gen_probe(root):
    lines = [PRELUDE, "fn main() {",
             "    // sanity of the witnesses themselves",
             '    assert!(Probe::<PBoth>::SEND && Probe::<PBoth>::SYNC && Probe::<PSend>::SEND && !Probe::<PSend>::SYNC);',
             '    assert!(!Probe::<PSync>::SEND && Probe::<PSync>::SYNC && !Probe::<PNone>::SEND && !Probe::<PNone>::SYNC);']
    for fl in FLS:
        for ty in TYS:
            for k, n, e in itertools.product(WIT, WIT, WIT):
                t = f"gdsl::{fl}::{ty}<{WIT[k]}, {WIT[n]}, {WIT[e]}>"
                lines.append(f'    row("{fl}", "{ty}", "{k}", "{n}", "{e}", Probe::<{t}>::SEND, Probe::<{t}>::SYNC);')
    # search objects: with Send + Sync payloads, holding a closure that captured an `Rc<Cell<_>>`
    lines.append("    // sanity of the value probe")
    lines.append("    { let a = 1u8; let r = std::rc::Rc::new(1u8); assert!((&Wrap(&a)).is_send() && (&Wrap(&a)).is_sync() && !(&Wrap(&r)).is_send() && !(&Wrap(&r)).is_sync()); }")
    for fl in FLS:
        for what, expr in builder_exprs(fl):
            lines.append("    {")
            lines.append(f"        use gdsl::{fl}::*;")
            lines.append("        let n = Node::<usize, i32, i32>::new(0, 0);")
            lines.append("        let rc = std::rc::Rc::new(std::cell::Cell::new(0));")
            lines.append("        let mut f = |_e: &Edge<usize, i32, i32>| { rc.set(rc.get() + 1); };")
            lines.append("        let mut g = |_e: &Edge<usize, i32, i32>| -> bool { rc.set(rc.get() + 1); true };")
            lines.append(f"        let b = {expr};")
            lines.append(f'        brow("{fl}", "{what}", (&Wrap(&b)).is_send(), (&Wrap(&b)).is_sync());')
            lines.append("    }")
    # what the construction macros return: a graph of the flavour they are named after (value probe again; a macro
    # arm that hands back another flavour's type under the sync name would be neither Send nor Sync)
    for fl in FLS:
        for what, expr in macro_exprs(fl):
            lines.append("    {")
            lines.append("        use gdsl::*;")
            lines.append(f"        let g = {expr};")
            lines.append(f'        let n = g.get(&0);')
            lines.append(f'        println!("M {fl} {what} send={{}} sync={{}} node_send={{}} node_sync={{}}", (&Wrap(&g)).is_send() as u8, (&Wrap(&g)).is_sync() as u8, (&Wrap(&n)).is_send() as u8, (&Wrap(&n)).is_sync() as u8);')
            lines.append("    }")
    lines.append("}")
    os.makedirs(os.path.join(root, "probes", "src"), exist_ok=True)
    open(os.path.join(root, "probes", "src", "main.rs"), "w").write("\n".join(lines) + "\n")


def macro_exprs(fl):
    return [("form1", f"{fl}![ (usize) (0) => [1] (1) => [] ]"),
            ("form2", f"{fl}![ (usize, i64) (0, 5) => [1] (1, 6) => [] ]"),
            ("form3", f"{fl}![ (usize) => [u32] (0) => [(1, 7)] (1) => [] ]"),
            ("form4", f"{fl}![ (usize, i64) => [u32] (0, 5) => [(1, 7)] (1, 6) => [] ]"),
            ("empty", f"{fl}![]")]


def macro_witness(fl, what):
    expr = dict(macro_exprs(fl))[what]
    sync = fl.startswith("sync_")
    return (f"// property C16: `{expr}` builds a gdsl::{fl} graph with Send + Sync payloads; it must {'be' if sync else 'not be'} Send and Sync.\n"
            f"// This program {'fails to compile although it must compile' if sync else 'compiles although it must be rejected'}.\n"
            f"use gdsl::*;\nfn need<T: Send + Sync>(_: &T) {{}}\nfn main() {{\n    let g = {expr};\n    need(&g);\n    let n = g.get(&0);\n    need(&n);\n}}\n")


def builder_exprs(fl):
    di = "di" in fl
    out = []
    for k in ("bfs", "dfs", "pfs"):
        out.append((f"{k}.for_each", f"n.{k}().for_each(&mut f)"))
        out.append((f"{k}.filter", f"n.{k}().filter(&mut g)"))
    if di:
        out.append(("preorder.for_each", "n.preorder().for_each(&mut f)"))
        out.append(("postorder.filter", "n.postorder().filter(&mut g)"))
    else:
        out.append(("order.pre.for_each", "n.order().pre().for_each(&mut f)"))
        out.append(("order.post.filter", "n.order().post().filter(&mut g)"))
    return out


def builder_witness(fl, what, trait):
    expr = dict(builder_exprs(fl))[what]
    return (f"// property C16: a search object of gdsl::{fl} that holds a for_each/filter closure must not be {trait}: the closure\n"
            f"// may have captured state that is not thread-safe (here an Rc<Cell<i32>>), and moving or sharing the search object\n"
            f"// would let a second thread reach it. This program compiles although it must be rejected.\n"
            f"use gdsl::{fl}::*;\nfn need<T: {trait}>(_: &T) {{}}\nfn main() {{\n    let n = Node::<usize, i32, i32>::new(0, 0);\n"
            f"    let rc = std::rc::Rc::new(std::cell::Cell::new(0));\n    let mut f = |_e: &Edge<usize, i32, i32>| {{ rc.set(rc.get() + 1); }};\n"
            f"    let mut g = |_e: &Edge<usize, i32, i32>| -> bool {{ rc.set(rc.get() + 1); true }};\n    let b = {expr};\n    need(&b);\n}}\n")


BORROWED = "borrowed"


def gen_borrowed(root):
    """a second binary: payloads that are Send + Sync but borrow (`&'a u8`): every sync type must accept them.
    A compile error in this file means an impl asks more than the payloads' own Send + Sync (e.g. 'static)."""
    lines = ["#![allow(unused)]", "// property C16: a sync node, edge or graph can always be sent/shared when its payload types are Send + Sync;",
             "// `&'a u8` is Send + Sync for every 'a, so each line below must compile", "fn need<T: Send + Sync>() {}", "fn borrowed<'a>(_x: &'a u8) {"]
    for fl in FLS:
        if not fl.startswith("sync_"):
            continue
        for ty in TYS:
            lines.append(f"    need::<gdsl::{fl}::{ty}<&'a u8, &'a u8, &'a u8>>();")
    lines += ["}", "fn main() {", "    let v = 7u8;", "    borrowed(&v);", "    println!(\"borrowed ok\");", "}"]
    os.makedirs(os.path.join(root, "probes", "src", "bin"), exist_ok=True)
    open(os.path.join(root, "probes", "src", "bin", "borrowed.rs"), "w").write("\n".join(lines) + "\n")
    return lines


def witness_program(fl, ty, k, n, e, trait, should_hold):
    t = f"gdsl::{fl}::{ty}<{WIT[k]}, {WIT[n]}, {WIT[e]}>"
    body = PRELUDE.split("struct Probe")[0]
    return (f"// property C16: `{t}: {trait}` must {'hold' if should_hold else 'be rejected'} (K is {k}, N is {n}, E is {e})\n"
            f"// this program {'fails to compile although it must compile' if should_hold else 'compiles although it must be rejected'}\n"
            + body + f"fn require<T: {trait}>() {{}}\nfn main() {{\n    require::<{t}>();\n}}\n")


def custom(C, pid, tier, seed):
    t0 = time.time()
    spec = C.P.PROPS[pid]
    root = C.ROOT
    ev = {"property_id": pid, "tier": tier, "seed": seed, "level": "proof", "coverage": {}, "assumptions": spec.get("assumptions", []), "wall_s": 0.0, "violations": 0}
    cov = ev["coverage"]
    violations, broken = [], []
    gen = os.path.join(C.LEAN, "GdslModel", "Gen", "Traits.lean")
    with C.Lock():
        rc, out, _ = C.sh(["python3", os.path.join(root, "tools", "translate_traits.py"), os.environ.get("VERIF_REPO", "/repo"), gen], timeout=120)
        translated = rc == 0
        if not translated:
            broken.append(("proof", "translator: " + out.strip()[-400:]))
            # keep a syntactically valid file so that the other modules still build
        proofs = C.discharge(pid, spec) if translated else {"obligations": len(spec["theorems"]), "discharged": 0, "failed": [(t, "translation failed") for _, t in spec["theorems"]], "axioms": {}, "log": ""}
        rc_d, out_d, _ = C.sh(["lake", "build", "traits_driver"], cwd=C.LEAN, timeout=1800) if translated else (1, "", 0)
        gen_probe(root)
        borrowed_src = gen_borrowed(root)
        borrowed_bad = None
        envs = [("hook-on", dict(C.ENV, RUSTFLAGS="--cfg gdsl_verif"))]
        if tier == "thorough":
            envs.append(("hook-off", dict(C.ENV)))
        tables = {}
        btables = {}
        mtables = {}
        for name, env in envs:
            rc, out, dt = C.sh(["cargo", "build", "--offline"], cwd=os.path.join(root, "probes"), timeout=1800, env=env)
            if rc != 0 and "src/bin/borrowed.rs" in out:
                # the table binary may still build: rustc rejects a borrowed Send + Sync payload
                errs = [l for l in out.split("\n") if l.startswith("error")][:3]
                borrowed_bad = "rustc rejects a sync type over borrowed Send + Sync payloads (`&'a u8`): " + " | ".join(errs)
                rc, out, dt = C.sh(["cargo", "build", "--offline", "--bin", "gdsl-verif-probes"], cwd=os.path.join(root, "probes"), timeout=1800, env=env)
            if rc != 0:
                broken.append(("correspondence", f"probe crate does not compile ({name}): " + " | ".join(l for l in out.split("\n") if l.startswith("error"))[:600]))
                continue
            rc, out, _ = C.sh([os.path.join(root, "harness", "target", "probes", "debug", "gdsl-verif-probes")], timeout=120)
            if rc != 0:
                broken.append(("correspondence", f"probe binary failed ({name}): {out[-300:]}"))
                continue
            tables[name] = [l for l in out.strip().split("\n") if l and not l.startswith("B ") and not l.startswith("M ")]
            mtables[name] = [l for l in out.strip().split("\n") if l.startswith("M ")]
            btables[name] = [l for l in out.strip().split("\n") if l.startswith("B ")]
    for t, why in proofs["failed"]:
        broken.append(("proof", f"theorem {t}: {why}"))
    rows = tables.get("hook-on", [])
    # ---- oracle: the rustc table against the property statement
    bad_rows = []
    for name, tab in tables.items():
        for l in tab:
            fl, ty, k, n, e, s1, s2 = l.split(" ")
            want = (fl.startswith("sync_") and k == n == e == "both")
            for trait, got in (("Send", s1 == "send=1"), ("Sync", s2 == "sync=1")):
                if got != want:
                    bad_rows.append((fl, ty, k, n, e, trait, want, name))
    # ---- oracle: search objects holding a closure are never Send or Sync
    bad_builders = []
    n_brows = 0
    for name, tab in btables.items():
        for l in tab:
            _, fl, what, s1, s2 = l.split(" ")
            n_brows += 1
            for trait, got in (("Send", s1 == "send=1"), ("Sync", s2 == "sync=1")):
                if got:
                    bad_builders.append((fl, what, trait, name))
    # ---- oracle: the construction macros return graphs of their own flavour
    bad_macros = []
    for name, tab in mtables.items():
        for l in tab:
            _, fl, what, *flags = l.split(" ")
            n_brows += 1
            want = "1" if fl.startswith("sync_") else "0"
            if any(f.split("=")[1] != want for f in flags):
                bad_macros.append((fl, what, " ".join(flags), name))
    # ---- correspondence: model table vs rustc table
    mism = []
    n_rows = 0
    if rc_d == 0 and rows:
        wdir = os.path.join(C.WORK, pid)
        shutil.rmtree(wdir, ignore_errors=True)
        os.makedirs(wdir)
        req = os.path.join(wdir, "rows.req")
        open(req, "w").write("\n".join(" ".join(l.split(" ")[:5]) for l in rows) + "\n")
        import subprocess
        with open(req) as fi:
            r = subprocess.run([os.path.join(C.LEAN, ".lake", "build", "bin", "traits_driver")], stdin=fi, capture_output=True, text=True, timeout=120)
        model = r.stdout.strip().split("\n")
        for a, b in zip(rows, model):
            n_rows += 1
            if a != b:
                mism.append((a, b))
        if mism:
            broken.append(("correspondence", f"{len(mism)} of {n_rows} rows differ between rustc and the model; first: rustc `{mism[0][0]}` model `{mism[0][1]}`"))
    elif translated and rc_d != 0:
        broken.append(("correspondence", "traits_driver does not build: " + out_d[-300:]))
    known = C.load_known()
    seen = set()
    for (fl, ty, k, n, e, trait, want, name) in bad_rows:
        f = {"oracle": "c16", "case": f"case {fl} x", "msg": f"{fl}::{ty}<K={k},N={n},E={e}>: {trait}"}
        kf = C.known_match(pid, f, known)
        if kf:
            line = f"KNOWN-FINDING: property={pid} {kf['what']}"
            if line not in seen:
                print(line); seen.add(line)
            continue
        if len(violations) < 3:
            os.makedirs(C.REPLAYS, exist_ok=True)
            prog = witness_program(fl, ty, k, n, e, trait, want)
            path = C.write_replay(pid, "oracle", f"rustc {'rejects' if want else 'accepts'} `gdsl::{fl}::{ty}<K: {k}, N: {n}, E: {e}>: {trait}` ({name}); {len(bad_rows)} wrong rows in total", prog.split("\n"), {"flavour": fl, "seed": seed, "tier": tier})
            os.replace(path, path[:-5] + ".rs")
            violations.append((path[:-5] + ".rs", ""))
    for (fl, what, trait, name) in bad_builders[:2]:
        path = C.write_replay(pid, "oracle", f"rustc accepts `{trait}` for the gdsl::{fl} search object `{what}` holding a closure that captured an Rc ({name}); {len(bad_builders)} such verdicts in total", builder_witness(fl, what, trait).split("\n"), {"flavour": fl, "seed": seed, "tier": tier})
        os.replace(path, path[:-5] + ".rs")
        violations.append((path[:-5] + ".rs", ""))
    for (fl, what, flags, name) in bad_macros[:2]:
        path = C.write_replay(pid, "oracle", f"rustc says `{flags}` for the graph (and a node of it) built by `{dict(macro_exprs(fl))[what]}` ({name}); {len(bad_macros)} such verdicts in total", macro_witness(fl, what).split("\n"), {"flavour": fl, "seed": seed, "tier": tier})
        os.replace(path, path[:-5] + ".rs")
        violations.append((path[:-5] + ".rs", ""))
    for b in bad_macros:
        bad_rows.append((b[0], "macro " + b[1], "-", "-", "-", "Send+Sync", b[0].startswith("sync_"), b[3]))
    for b in bad_builders:
        bad_rows.append((b[0], b[1], "-", "-", "-", b[2], False, b[3]))
    if borrowed_bad:
        path = C.write_replay(pid, "oracle", borrowed_bad, borrowed_src, {"seed": seed, "tier": tier})
        os.replace(path, path[:-5] + ".rs")
        violations.append((path[:-5] + ".rs", ""))
        bad_rows.append(("sync_*", "*", BORROWED, BORROWED, BORROWED, "Send+Sync", True, "hook-on"))
    if broken and not violations and not seen:
        path = C.write_replay(pid, broken[0][0], "; ".join(w for _, w in broken), ["-- " + w[:300] for _, w in broken], {"seed": seed, "tier": tier})
        violations.append((path, " no-failing-input-found"))
    cov.update({"obligations": proofs["obligations"], "discharged": proofs["discharged"],
                "checker_cmd": "python3 tools/translate_traits.py /repo lean/GdslModel/Gen/Traits.lean && cd lean && lake build GdslModel.Props.C16 && lake env lean Audit/C16.lean",
                "trusted_base": C.P.TRUSTED_BASE + ["translator tools/translate_traits.py (type-grammar parser; fails loudly on unknown constructs)", "transcription of std's auto-trait rules for Arc/Weak/Rc/RefCell/RwLock/Vec/HashMap/tuples (validated against rustc by the probe table)", "Rust's meaning of Send/Sync (the 'no data race' consequence is not modelled)"],
                "theorems": [t for _, t in spec.get("theorems", [])], "axioms": proofs["axioms"],
                "evaluations": (sum(len(t) for t in tables.values()) + n_brows) * 2, "distinct_nontrivial": len(rows) * 2 + 2 * len(btables.get("hook-on", [])),
                "rule": "plus the graph and a node handle returned by every form of the four construction macros (Send + Sync exactly for the sync flavours); plus search objects (bfs/dfs/pfs/orderings of the four flavours, for_each and filter) holding a closure that captured an Rc: never Send or Sync (value probe by method resolution); plus one must-compile program with borrowed (non-'static) Send + Sync payloads for every sync type; rows = 4 flavours x {Node, Edge, Graph} x 4^3 payload witnesses (Send+Sync / Send only = PhantomData<Cell> / Sync only = PhantomData<MutexGuard> / neither = PhantomData<Rc>) x {Send, Sync}; each row is one query to rustc's trait solver, read at run time through an inherent-const probe; all distinct, all non-trivial (a generic obligation each).",
                "samples": rows[:3] + rows[200:203], "traces_validated_against_impl": n_rows, "exhaustive": True,
                "correspondence_mismatches": len(mism), "oracle_failures": len(bad_rows), "broken_obligations": [w for _, w in broken],
                "probe_builds": list(tables.keys())})
    ev["violations"] = len(violations)
    ev["wall_s"] = round(time.time() - t0, 1)
    os.makedirs(C.EVID, exist_ok=True)
    json.dump(ev, open(os.path.join(C.EVID, f"{pid}.json"), "w"), indent=1)
    for path, suffix in violations:
        print(f"VIOLATION property={pid} replay={path}{suffix}")
    C.log(f"{pid} {tier}: obligations {cov['discharged']}/{cov['obligations']}, {n_rows} rows compared, {len(mism)} model mismatches, {len(bad_rows)} wrong rustc verdicts, {ev['wall_s']} s")
    return 1 if violations else 0

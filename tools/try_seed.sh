#!/bin/sh
# try_seed.sh <patch.diff> <ID> [<ID> ...]: applies the change to /repo, runs the quick checks of the given
# properties, and undoes the change straight afterwards (the evidence files, which every run rewrites, are
# restored to the committed ones of the unchanged tree).
P="$1"; shift
cd /verif
git -C /repo apply "$P" || { echo "patch does not apply"; exit 2; }
for id in "$@"; do
  ./check "$id" --tier quick 2>&1 | grep -E "VIOLATION|KNOWN|\[check\]" | cut -c1-260
done
git -C /repo checkout -- . ; git -C /repo clean -fdq -- src ; git -C /verif checkout -- evidence ; git -C /repo status --short | head -3

#!/usr/bin/env python3
"""Regenerates MANIFEST.json from tools/props.py (single source of truth for what is claimed)."""
import json, os, sys
ROOT = os.path.dirname(os.path.dirname(os.path.abspath(__file__)))
sys.path.insert(0, os.path.join(ROOT, "tools"))
import props as P

ALL = [json.loads(l)["id"] for l in open(os.path.join(ROOT, "properties.jsonl"))]
hook_commits = [l.strip() for l in open(os.path.join(ROOT, "tools", "hook_commits.txt")) if l.strip()] if os.path.exists(os.path.join(ROOT, "tools", "hook_commits.txt")) else []
m = {
    "version": 1,
    "setup_cmd": "./setup",
    "hooks": {
        "guard": "gdsl_verif",
        "enable": "RUSTFLAGS=\"--cfg gdsl_verif\" (set in harness/.cargo/config.toml; the harness depends on /repo by path, so every check rebuilds gdsl from the working tree with the hook on)",
        "baseline_off_cmd": "cd /repo && cargo test --workspace --no-fail-fast --offline",
        "source_commits": hook_commits,
        "add_only": False,
    },
    "engines": [
        {"name": "lean-model", "path": "lean", "serves_properties": sorted(P.PROPS), "kind_free_text": "Lean 4 model (GdslModel/Model), helper lemmas (Lemmas), property theorems (Props), compiled driver (Driver/Main.lean)"},
        {"name": "rust-harness", "path": "harness", "serves_properties": sorted(P.PROPS), "kind_free_text": "in-process executor of the real gdsl code for the four flavours, generators, oracles, deterministic scheduler over the lock hook"},
        {"name": "check", "path": "check", "serves_properties": sorted(P.PROPS), "kind_free_text": "python entry point: build, discharge proof obligations + axiom audit, correspondence, violation protocol, evidence"},
    ],
    "checks": [],
    "not_applicable": [],
    "notes": "All checks: ./check <ID> [--tier quick|thorough]; VERIF_SEED / VERIF_TIER honoured. Evidence: evidence/<ID>.json. Replays: replays/ (created at run time). See DESIGN.md.",
}
for pid in ALL:
    if pid in P.PROPS and P.PROPS[pid].get('theorems'):
        s = P.PROPS[pid]
        m["checks"].append({
            "property_id": pid,
            "quick_cmd": f"./check {pid} --tier quick",
            "thorough_cmd": f"./check {pid} --tier thorough",
            "evidence_file": f"/verif/evidence/{pid}.json",
            "replay_cmd_template": f"./check {pid} --replay {{path}}",
            "engine": "lean-model",
            "level_claimed": {"category": "proof", "text": s["level_text"], "design_ref": s.get("design_ref", "DESIGN.md section 7")},
            "level_note": s["level_note"],
            "technique": s["technique"],
        })
    else:
        m["not_applicable"].append({"property_id": pid, "reason": P.NOT_YET.get(pid, "check not built yet; being built in the order of DESIGN.md section 9 (nothing in the technique prevents it)")})
json.dump(m, open(os.path.join(ROOT, "MANIFEST.json"), "w"), indent=1)
print("MANIFEST.json:", len(m["checks"]), "checks,", len(m["not_applicable"]), "not claimed")

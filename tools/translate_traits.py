#!/usr/bin/env python3
"""Translator for C16: the struct/type definitions of Node, Adjacent, WeakNode, Edge, Graph and every
`unsafe impl Send|Sync` (with its where clause) of the four flavours  ->  Lean data
(lean/GdslModel/Gen/Traits.lean). A construct the parser does not know makes the translation fail
loudly (exit 1): the proof obligation is then not discharged.
Usage: translate_traits.py <repo root> <output file>"""
import re, sys, os


def strip_comments(src):
    src = re.sub(r'//[^\n]*', '', src)
    return re.sub(r'/\*.*?\*/', '', src, flags=re.S)


class P:
    """recursive-descent parser for the type grammar that occurs: paths, generics, tuples, references"""
    def __init__(self, s): self.s = s; self.i = 0
    def ws(self):
        while self.i < len(self.s) and self.s[self.i].isspace(): self.i += 1
    def peek(self): self.ws(); return self.s[self.i] if self.i < len(self.s) else ''
    def ty(self):
        self.ws()
        if self.peek() == '&':
            self.i += 1; self.ws()
            m = re.match(r"'[a-z_]+", self.s[self.i:])
            if m: self.i += len(m.group(0))
            self.ws()
            if self.s[self.i:self.i+4] == 'mut ': self.i += 4
            return ('ref', self.ty())
        if self.peek() == '(':
            self.i += 1; items = []
            while self.peek() != ')':
                items.append(self.ty())
                if self.peek() == ',': self.i += 1
            self.i += 1
            return ('tuple', items)
        m = re.match(r"[A-Za-z_][A-Za-z0-9_]*(::[A-Za-z_][A-Za-z0-9_]*)*", self.s[self.i:])
        if not m: raise ValueError('cannot parse type at: ' + self.s[self.i:self.i+40])
        name = m.group(0); self.i += len(name); args = []
        if self.peek() == '<':
            self.i += 1
            while self.peek() != '>':
                if self.peek() == "'":
                    m2 = re.match(r"'[a-z_]+", self.s[self.i:]); self.i += len(m2.group(0))
                else: args.append(self.ty())
                if self.peek() == ',': self.i += 1
            self.i += 1
        return ('app', name.split('::')[-1], args)


def parse_type(s): return P(s).ty()


def split_top(s):
    out, depth, cur = [], 0, ''
    for ch in s:
        if ch in '<(': depth += 1
        if ch in '>)': depth -= 1
        if ch == ',' and depth == 0: out.append(cur); cur = ''
        else: cur += ch
    if cur.strip(): out.append(cur)
    return out


def file_facts(src):
    aliases = {}
    for m in re.finditer(r'\btype\s+(\w+)\s*<([^>]*)>\s*=\s*([^;]+);', src):
        aliases.setdefault(m.group(1), ([p.strip() for p in m.group(2).split(',') if p.strip() and not p.strip().startswith("'")], m.group(3)))
    structs = {}
    for m in re.finditer(r'\bstruct\s+(\w+)', src):
        name = m.group(1); k = m.end()
        def skip_ws(k):
            while k < len(src) and src[k].isspace(): k += 1
            return k
        def balanced(k, op, cl):
            depth = 0; start = k
            while True:
                if src[k] == op: depth += 1
                elif src[k] == cl:
                    depth -= 1
                    if depth == 0: return src[start + 1:k], k + 1
                k += 1
        k = skip_ws(k)
        if src[k] == '<': _, k = balanced(k, '<', '>')
        k = skip_ws(k)
        if src[k] == '(':
            body, k = balanced(k, '(', ')')
            fields = [parse_type(re.sub(r'^\s*pub\s+', '', f)) for f in split_top(body)]
        else:
            k = src.index('{', k); body, k = balanced(k, '{', '}')
            fields = [parse_type(re.sub(r'^\s*(pub(\([a-z]+\))?\s+)?\w+\s*:', '', f, count=1)) for f in split_top(body) if ':' in f]
        structs.setdefault(name, fields)
    # the bounds every struct puts on its own parameters (generics list and where clause): an impl has to repeat them
    base = {}
    for m in re.finditer(r'\bstruct\s+(\w+)\s*<([^>]*)>\s*(where([^{(;]*))?', src, flags=re.S):
        b = base.setdefault(m.group(1), {})
        for g in split_top(m.group(2)):
            g = g.split('=')[0]
            if ':' in g:
                p_, bs = g.split(':', 1)
                b.setdefault(p_.strip(), set()).update(x.strip() for x in bs.split('+'))
        for clause in split_top(m.group(4) or ''):
            if ':' in clause:
                p_, bs = clause.split(':', 1)
                b.setdefault(p_.strip(), set()).update(x.strip() for x in bs.split('+'))
    impls = {}
    # every explicit impl of Send/Sync, safe or not, with or without where clause
    for m in re.finditer(r'\bimpl\s*<([^>]*)>\s*(!?)\s*(Send|Sync)\s+for\s+(\w+)\s*<[^>]*>\s*(where([^{]*))?\{', src, flags=re.S):
        if m.group(2) == '!':
            raise ValueError('negative impl: not supported by the translator')
        bounds = []
        own = base.get(m.group(4), {})
        def add(p, b):
            b = b.strip()
            if not b: return
            if b in ('Send', 'Sync'): bounds.append((p, b))
            elif b not in own.get(p, set()) and (p, 'Extra') not in bounds:
                # a lifetime bound or a trait the struct itself does not ask for: the impl covers fewer instantiations
                bounds.append((p, 'Extra'))
        # bounds written inline in the generics list
        for g in split_top(m.group(1)):
            if ':' in g:
                p, bs = g.split(':', 1)
                for b in bs.split('+'): add(p.strip(), b)
        for clause in split_top(m.group(6) or ''):
            if ':' not in clause: continue
            p, bs = clause.split(':', 1); p = p.strip()
            for b in bs.split('+'): add(p, b)
        key = (m.group(4), m.group(3))
        if key in impls:
            raise ValueError(f'two explicit impls of {key[1]} for {key[0]}')
        impls[key] = bounds
    return dict(aliases=aliases, structs=structs, impls=impls)


def flavour_facts(root, fl):
    files = [f'src/{fl}/node/mod.rs', f'src/{fl}/node/adjacent.rs', f'src/{fl}/mod.rs']
    srcs = [strip_comments(open(os.path.join(root, f)).read()) for f in files]
    merged = dict(sync=None, aliases={}, structs={}, impls={}, struct_aliases={})
    all_src = '\n'.join(srcs)
    sync_imports = bool(re.search(r'sync::\{[^}]*\bArc\b', all_src)); rc_imports = bool(re.search(r'rc::\{[^}]*\bRc\b', all_src))
    if sync_imports == rc_imports:
        raise ValueError(f'{fl}: cannot resolve which Weak is imported')
    for src in srcs:
        f1 = file_facts(src)
        for n, fields in f1['structs'].items():
            if n not in merged['structs']: merged['structs'][n] = fields; merged['struct_aliases'][n] = f1['aliases']
        for k, v in f1['impls'].items():
            if k in merged['impls']:
                raise ValueError(f'two explicit impls of {k[1]} for {k[0]}')
            merged['impls'][k] = v
    merged['sync'] = sync_imports
    # an explicit Send/Sync impl anywhere else in the flavour (a search object, an iterator, a helper type) is outside
    # the model: say so rather than translate a part of the picture
    base = os.path.join(root, 'src', fl)
    for dp, _dn, fns in os.walk(base):
        for fn in fns:
            rel = os.path.relpath(os.path.join(dp, fn), root)
            if not fn.endswith('.rs') or rel in files:
                continue
            src = strip_comments(open(os.path.join(dp, fn)).read())
            m = re.search(r'unsafe\s+impl\b[^{;]*\b(Send|Sync)\s+for\s+([A-Za-z_][A-Za-z0-9_]*)', src)
            if m:
                raise ValueError(f'{fl}: explicit {m.group(1)} impl for unmodelled type {m.group(2)} in {rel}')
    return merged


NAMED = ['Node', 'Adjacent', 'WeakNode', 'Edge', 'Graph']
PARAM = {'K': 0, 'N': 1, 'E': 2}


def to_lean(t, facts, env=None):
    env = env or {}
    if t[0] == 'ref': raise ValueError('reference type in a stored field')
    if t[0] == 'tuple': return '.tuple [' + ', '.join(to_lean(x, facts, env) for x in t[1]) + ']'
    _, name, args = t
    if name in env: return to_lean(env[name], facts)
    if name in PARAM and not args: return f'.param {PARAM[name]}'
    if name in NAMED: return f'.named {NAMED.index(name)}'
    if name in facts['aliases']:
        params, body = facts['aliases'][name]
        return to_lean(parse_type(body), facts, dict(zip(params, args)))
    a = [to_lean(x, facts, env) for x in args]
    if name == 'Vec': return f'.vec ({a[0]})'
    if name in ('HashMap', 'AHashMap'): return f'.hashmap ({a[0]}) ({a[1]})'
    if name == 'Arc': return f'.arc ({a[0]})'
    if name == 'Rc': return f'.rc ({a[0]})'
    if name == 'Weak': return (f'.weak ({a[0]})' if facts['sync'] else f'.rcweak ({a[0]})')
    if name == 'RwLock': return f'.rwlock ({a[0]})'
    if name == 'RefCell': return f'.refcell ({a[0]})'
    raise ValueError(f'untranslatable type constructor {name}')


def translate(root):
    out = ['/- GENERATED by tools/translate_traits.py from the sources of /repo on every run; do not edit. -/',
           'import GdslModel.Model.Traits', 'namespace G.Traits.Gen', 'open G.Traits', '']
    for fl in ['digraph', 'sync_digraph', 'ungraph', 'sync_ungraph']:
        f = flavour_facts(root, fl)
        defs = []
        for n in NAMED:
            if n not in f['structs']:
                raise ValueError(f'{fl}: struct {n} not found')
            fields = f['structs'][n]; f['aliases'] = f['struct_aliases'][n]
            body = to_lean(fields[0], f) if len(fields) == 1 else '.tuple [' + ', '.join(to_lean(x, f) for x in fields) + ']'
            def ex(tr):
                b = f['impls'].get((n, tr))
                if b is None: return 'none'
                for p, _ in b:
                    if p not in PARAM: raise ValueError(f'{fl}: bound on unknown parameter {p}')
                return 'some [' + ', '.join(f'({PARAM[p]}, .{t.lower()})' for p, t in b) + ']'
            defs.append(f'  ⟨{body}, {ex("Send")}, {ex("Sync")}⟩')
        for (tname, _tr) in f['impls']:
            if tname not in NAMED:
                raise ValueError(f'{fl}: explicit Send/Sync impl for unmodelled type {tname}')
        out.append(f'def {fl} : List Def := [\n' + ',\n'.join(defs) + '\n]\n')
    out.append('end G.Traits.Gen')
    return '\n'.join(out) + '\n'


if __name__ == '__main__':
    try:
        text = translate(sys.argv[1])
    except Exception as e:
        print('translate_traits: ' + str(e), file=sys.stderr)
        sys.exit(1)
    with open(sys.argv[2], 'w') as f:
        f.write(text)

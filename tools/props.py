"""Property table: which theorems (module, name) are the proof obligations of each property,
which oracles the harness evaluates, how the correspondence is scoped."""

TRUSTED_BASE = [
    "Lean 4.33.0 kernel; axioms allowed in property theorems: propext, Classical.choice, Quot.sound (printed per theorem in coverage.axioms)",
    "Lean compiler: the driver executable runs the compiled form of the definitions the theorems are about",
    "correspondence check (harness generators, canonical text form, line comparison): differential testing of model vs. real code, bounded by what is generated (see coverage.distribution)",
    "std Rc/Arc/Weak/RefCell/RwLock, ahash maps: modelled (keys instead of pointers, lists instead of Vec), not verified",
    "serde_json: modelled at byte level for the document type of the harness (Model/Json.lean) and compared with the real parser/printer on raw bytes; serde_cbor: modelled at byte level likewise (Model/Cbor.lean) and compared on raw bytes",
]

EDGE_RULE = ("exhaustive: breadth-first exploration of the implementation's abstract state space (state = dump of all adjacency lists), "
             "every (state, operation) pair executed once as its own case on both sides; random: seeded histories with dump after every call. "
             "A case is distinct by its (state-reaching history, operation) resp. its seed; non-trivial = it executes at least one edge operation. "
             "distinct_nontrivial = explored (state, operation) pairs + random histories. Beyond these: histories that grow past the "
             "list-growth thresholds, hub histories (a node of degree 20-150 with two-way neighbours, parallel edges, self-loops, removals from the "
             "middle of its lists, isolate), the extremes of the value types, and the same histories on the w* flavours (a non-Copy, heap-owning key "
             "type whose Hash has two values) and the z* flavours (zero-sized node and edge values). C03 also runs histories with two live node objects of one "
             "key under an identity-based connect contract (not modelled: nodes are keys in the model). Every third case of a sync flavour (chosen by a "
             "hash of the case line) runs its requests on two helper threads in turn - the objects move between threads, nothing runs concurrently. "
             "Histories followed by edge loops (for statement or for_each) whose body disconnects, connects, isolates or queries; and, on the plain "
             "flavours, histories in which the clone of an edge value panics inside connect / try_connect and the caller catches it (f* flavours: "
             "the call has not happened, the lists are what they were).")

NOT_YET = {}

CORR_NOTE = ("Theorems are about the Lean model; the model is hand-written and tied to /repo on every run by the correspondence check "
             "(same programs on the real code built from the working tree and on the compiled model, outputs compared line by line) plus "
             "independent oracles that evaluate the property statement on the real objects. Trusted: Lean kernel, the axioms listed in the evidence, "
             "the Lean compiler, the harness/generators (differential testing, bounded by what they generate), std Rc/Arc/RefCell/RwLock/hash-map semantics.")

PROPS = {
    "C01": {
        "theorems": [("GdslModel.Props.C01", "G.Di." + t) for t in ["mirror_init", "mirror_step", "mirror_run", "no_panic", "connected_iff_inbound", "pair_multiplicity", "root_iff", "leaf_iff"]],
        "level_text": "Machine-checked proof (Lean 4) that the model's directed edge operations keep the mirror invariant after every prefix of every history, for all keys/values/sizes, with its corollaries for lookups, multiplicities and root/leaf; the model (positional isolate loops, error branches) is tied to digraph and sync_digraph by an exact correspondence on every (state, operation) pair of the small state space and on random histories, and the mirror equation is evaluated as an oracle on the real iter_out/iter_in after every call.",
        "level_note": CORR_NOTE,
        "technique": "Lean 4 invariant proof by induction over histories + model/implementation correspondence (differential)",
        "design_ref": "DESIGN.md section 7, C01",
        "oracles": ["mirror"],
        "rule": EDGE_RULE,
        "exhaustive": True,
    },
    "C02": {
        "theorems": [("GdslModel.Props.C02", "G.Un." + t) for t in ["sym_step", "sym_run", "no_panic", "count_symm", "connected_symm", "selfloop_degree", "edge_degree", "handshake", "handshake_run"]],
        "level_text": "Machine-checked proof (Lean 4) that the undirected edge operations keep the half-edge symmetry invariant after every prefix of every history (either endpoint as caller, self-loops, parallel edges), with the count/degree/is_connected corollaries; model tied to ungraph and sync_ungraph by exact correspondence (exhaustive small state space + random histories) and a symmetry oracle on the real iter() output.",
        "level_note": CORR_NOTE,
        "technique": "Lean 4 invariant proof by induction over histories + model/implementation correspondence (differential)",
        "design_ref": "DESIGN.md section 7, C02",
        "oracles": ["mirror"],
        "rule": EDGE_RULE,
        "exhaustive": True,
    },
    "C03": {
        "theorems": [("GdslModel.Props.C03", "G." + t) for t in ["connect_spec", "Di.tryConnect_spec", "Di.disconnect_found", "Di.disconnect_absent", "Di.isolate_spec", "Un.tryConnect_spec", "Un.disconnect_found_inbound", "Un.disconnect_found_outbound", "Un.disconnect_absent", "Un.isolate_spec", "Di.run_no_panic", "Un.run_no_panic", "Di.connect_disconnect", "Un.connect_disconnect"]],
        "level_text": "Machine-checked proof (Lean 4) of the exact list-level effect, return value, unchanged-on-failure and no-panic of connect/try_connect/disconnect/isolate in the model (refinement to the ordered multigraph), for all stores reachable by any history; model tied to all four flavours by exact correspondence on every (state, operation) pair with <=3 nodes and on random histories with random handle provenance; the contract is also evaluated directly on the real lists before/after each call; self-deadlocks of the sync flavours are detected through the lock hook.",
        "level_note": CORR_NOTE + " Handle independence is a modelling assumption (nodes are keys) validated by the generator's handle-provenance dimension, not a theorem.",
        "technique": "Lean 4 refinement proof (operation specs) + model/implementation correspondence (differential) + contract oracle",
        "design_ref": "DESIGN.md section 7, C03",
        "oracles": ["contract", "mirror", "nopanic"],
        "rule": EDGE_RULE,
        "exhaustive": True,
    },
}

SEARCH_RULE = ("enumerated: every connect sequence (insertion order matters) on <=3 (quick) / <=4 (thorough) nodes up to the edge bound, each with every root, "
               "every target, and reject-sets (none / each single edge; all subsets in the thorough tier); random: seeded graphs up to 40 nodes "
               "(sparse, dense, DAG, ring, disconnected, self-loops, parallel edges). One case = one graph with all its requests; a request is "
               "non-trivial if it runs a traversal. distinct_nontrivial = number of graph cases. Every generator also produces: builder reuse "
               "(several searches on one builder object, retargeting, graph changes between two calls), the builder's configuration calls in every "
               "order (kind~n, before or after the closure is attached, conflicting priority calls, transpose() called twice, a first target that is overwritten), a closure of the other kind or of the same kind installed first (the later call wins), every search without a closure repeated with a for_each closure that only watches (same result), stages that add an edge into the root after the builder was made, closures that start traversals of their own or ask questions while the outer traversal runs (read-only scripts; every nested answer is compared with the same question asked alone), root handles obtained in different ways (#via), "
               "graphs of 900-1400 nodes, closed chains of 1100-1600 nodes (every fourth of 4300-4900), soak cases (one long successful search repeated 160 times on one thread), priority-first traversals over node values the closure changes while nodes are queued (C07, judged by the statement alone), two-helper-thread execution of every third sync-flavour case, hubs of degree up to 90, the extremes of the value types, and the "
               "searches/orderings on the w* (colliding key hashes) and z* (zero-sized values) flavours.")

def _search(pid, oracles, theorems, text, technique):
    PROPS[pid] = {
        "theorems": theorems,
        "oracles": oracles,
        "rule": SEARCH_RULE,
        "exhaustive": True,
        "level_text": text,
        "level_note": CORR_NOTE,
        "technique": technique,
        "design_ref": "DESIGN.md section 7, " + pid,
    }

_search("C04", ["c04"], [("GdslModel.Props.C04", "G.Bfs." + t) for t in ["path_sound", "path_minimal", "path_complete", "path_iff", "search_iff", "fuel_enough"]],
        "Machine-checked proof (Lean 4) about the model of the breadth-first loops: search_path returns a walk of existing accepted edges (with their values) from the root to the target, no walk with fewer edges exists (ghost depth function + frontier lemma), None only if the target is unreachable in the accepted graph (iff), search agrees, and fuel > |nodes| never runs out; for all multigraphs, insertion orders, filters and sizes. The model is tied to all four flavours by exact correspondence on every connect sequence on <=3 nodes x roots x targets x reject sets and random graphs up to 40 nodes; the statement is also evaluated on the real paths by an independent shortest-distance oracle.",
        "Lean 4 proof (closure-modulo-queue invariant, ghost BFS depth, discovery-tree backtracking) + model/implementation correspondence + shortest-path oracle")
_search("C05", ["c05"], [("GdslModel.Props.C05", "G.Dfs." + t) for t in ["path_sound", "path_simple", "path_complete", "path_iff", "search_iff", "fuel_enough"]],
        "Machine-checked proof (Lean 4) about the model of the recursive depth-first loops: search_path returns a walk of existing accepted edges from the root to the target that repeats no node, returns None only if the target is unreachable in the accepted graph (iff), search agrees, and fuel > |nodes| never runs out; for all graphs, filters and sizes. The model (order of exec/visited/push/target test, backtrack_edge_tree) is tied to all four flavours by exact correspondence on every connect sequence on <=3 nodes x roots x targets x reject sets and random graphs up to 40 nodes; the statement is also evaluated on the real paths by an independent reachability/simple-path oracle.",
        "Lean 4 proof (closure invariant, discovery-tree backtracking) + model/implementation correspondence + path oracle")
_search("C06", ["c06"], [("GdslModel.Props.C06", "G." + t) for t in ["Heap.push_heap", "Heap.pop_max", "Heap.pop_none", "Pfs.log_erases", "Pfs.pop_minimal", "Pfs.pending_are_discovered", "Pfs.path_sound", "Pfs.path_complete", "Pfs.search_iff", "Pfs.fuel_enough", "NodeOrd.eq_key", "NodeOrd.cmp_value"]],
        "Machine-checked proof (Lean 4): the transcription of std's BinaryHeap (push = sift_up, pop = swap-last + sift_down_to_bottom + sift_up, right child on ties) keeps the heap order and pops a maximal element; along the priority-first loop (ghost log proved to erase to the executed loop) every expansion pops an element that no pending (discovered, unexpanded) node beats, for min() (Reverse) and max(); paths are sound, None iff unreachable, search returns the target; comparison operators are the value order, equality is key equality (and Edge comparison as the code has it: == on the endpoints in digraph, on the value in the undirected flavours, order by value). Tie-breaking of the real heap is matched exactly by the correspondence (all value assignments over {0,1,2} on small graphs, random beyond), and the discipline is re-derived from the callback trace of the real code by an oracle.",
        "Lean 4 proof (binary-heap invariants, ghost-log loop invariant) + model/implementation correspondence incl. heap tie order + trace-discipline oracle")
_search("C07", ["c07"], [("GdslModel.Props.C07", "G." + t) for t in ["Trace.search_sees_all", "Trace.order_sees_all", "Trace.true_endpoints", "Trace.order_true_endpoints", "Filter.excluded", "Filter.order_excluded", "Filter.as_subgraph", "Filter.order_as_subgraph"]],
        "Machine-checked proof (Lean 4) for all six traversal kinds of the model: without target and filter the sequence of edges handed to the closure is a permutation of the edges (with multiplicity) leaving the nodes reachable from the root; every traced edge is an element of its source's iterated list with its stored value; the edge tree (hence every path, cycle, ordering) contains accepted edges only; a filtered run equals the unfiltered run on the accepted subgraph. Tied to the four flavours by exact correspondence of the callback traces (for_each and every reject set on small graphs) and a multiset oracle on the real traces.",
        "Lean 4 proof (trace/loop invariants, filter-as-subgraph simulation) + model/implementation correspondence of callback traces + multiset oracle")
_search("C08", ["c08"], [("GdslModel.Props.C08", "G." + t) for t in ["Transpose.eq_swap", "Transpose.run_eq_swap", "Transpose.swap_reverses", "Forward.ignores_inbound", "Builder.order_irrelevant", "Builder.transpose_idempotent", "Builder.last_call_wins"]],
        "Machine-checked proof (Lean 4) that in the model a transposed run of any of the 30 configurations is the plain run on the store with the two lists of every node exchanged, that under the mirror invariant this store is the edge-reversed graph, that plain runs depend on outgoing lists only, and that the builder's configuration calls (transpose, min/max, target) commute, so that a transposed builder follows the incoming lists in whatever order it was configured. The substantive tie - that the real code selects exactly these lists for every {bfs,dfs,pfs-min,pfs-max,pre,post} x {search,path,cycle,nodes,edges} and reports Edge(v,u,e) - is the exact correspondence on digraph/sync_digraph plus a metamorphic oracle that reruns every request on a freshly built edge-reversed graph and demands identical output.",
        "Lean 4 proof (transposition = list swap) + model/implementation correspondence over all 30 configurations + reversed-graph metamorphic oracle")
_search("C09", ["c09"], [("GdslModel.Props.C09", "G.Cycle." + t) for t in ["sound", "complete", "simple", "bfs_minimal"]],
        "Machine-checked proof (Lean 4) for bfs, dfs, pfs-min and pfs-max of the model: search_cycle returns a non-empty walk of existing accepted edges from the root to the root exactly when one exists, its edge targets are pairwise distinct (no intermediate node and no edge twice), and the breadth-first one is a shortest such cycle; the same theorems instantiated with out++inn are the undirected statements. Tied to the four flavours by exact correspondence (self-loops at the root and elsewhere, parallel edges, reject sets) and a cycle oracle on the real results.",
        "Lean 4 proof (shared run-level soundness/completeness lemmas in cycle mode, repaired backtrack) + model/implementation correspondence + cycle oracle")
_search("C10", ["c10"], [("GdslModel.Props.C10", "G.Order." + t) for t in ["nodes_exactly_reach", "pre_is_dfs_discovery", "post_is_dfs_finishing", "post_edge_property", "edges_one_per_node", "fuel_enough"]],
        "Machine-checked proof (Lean 4) that the model's preorder/postorder list exactly the nodes reachable through accepted edges once (root first/last), are the discovery resp. finishing sequence of a run of the non-deterministic depth-first relation Dfs, satisfy the per-edge postorder property, and that search_edges has one existing accepted entering edge per non-root node in the same order; for all graphs and filters. Model tied to the four flavours by exact correspondence (enumerated graphs <=3 nodes, random to 40) and an exact 'some DFS produces this order' oracle on the real output.",
        "Lean 4 proof (ghost stack/finished invariant; refinement to a non-deterministic DFS relation) + model/implementation correspondence + exact DFS-order oracle")

CONT_RULE = ("enumerated small inputs (all digraphs on <=3/4 nodes for scc; all connect sequences on <=3 nodes for serde; all single structural "
             "mutations of seed documents; all container histories over a small alphabet) plus seeded random ones; every order-dependent call is "
             "annotated with the hash map's iteration order observed in the implementation and the model is evaluated under that order. One case = "
             "one graph/document/history; distinct_nontrivial = number of cases. Also: scc across graph changes on one container and on "
             "containers of 1100-1700 nodes; serialisation after container histories and of documents with 257-1030 edge records; raw JSON and "
             "CBOR bytes (every single-edit class) compared exactly with the byte-level models; deserialize_in_place into populated graphs; long "
             "runs of one source; scc histories in which members are isolated, removed and brought back; serialisation after edge histories "
             "(removals, edges re-made from the other end), of containers that hold only what is reachable from one node, either format first, and "
             "round trips over a key type whose Display text and hashes collide, over node values changed in place between two serialisations, after a document that was rejected half-way, and documents of a container whose node values are themselves graphs (all judged by the statement alone); DOT exports with stateful attribute callbacks; documents of the container with text keys (Graph<String, i64, u32>: empty, long, non-ASCII keys; judged by the "
             "statement alone, not modelled); two containers sharing nodes, one of them dropped; containers as sole owners of connected nodes; "
             "the w* and z* flavours.")
_CONT = {
 "C11": ([("GdslModel.Props.C11", "G.Scc." + t) for t in ["partition", "sound", "complete", "order_independent", "fuel_enough"]],
         "Machine-checked proof (Lean 4) of Kosaraju's algorithm as implemented (first pass: postorder forest threaded through the visited filter in hash-map order; second pass: transposed preorder among unassigned nodes in decreasing finishing position): for every iteration order of a closed container the result is a partition of the members, two nodes share a component exactly when each reaches the other, and as a set of sets it does not depend on the order - via the component-root lemma on the non-deterministic DFS relation. Tied to digraph/sync_digraph by exact correspondence under the annotated hash order (all digraphs on <=3 (quick) / <=4 (thorough) nodes x 4 container instances and insertion orders, random to 30 nodes) and a mutual-reachability partition oracle on the real output.",
         "Lean 4 proof of Kosaraju (component-root lemma, two-pass invariants, every iteration order) + model/implementation correspondence under observed hash order + partition oracle"),
 "C12": ([("GdslModel.Props.C12", "G.Serde." + t) for t in ["roundtrip", "roundtrip_inn", "nonmember_error"]],
         "Machine-checked proof (Lean 4) that, for every iteration order of the hash map, rebuilding the decomposition of a closed container yields the same keys and node values, every member's outgoing (directed) / outbound half-edge (undirected) list exactly and in order, a mirrored store, and per source the same incoming values (hence the same multiset of incident edges); a non-member neighbour makes the document undeserialisable. The JSON byte format is inside the model for the payload types of the harness (Model/Json.lean: the writer print, the reader parse; parse (print d) = some d and the whole byte-level round trip are theorems, and the bytes serde_json writes are compared with print on every case); the CBOR byte format likewise (Model/Cbor.lean: shortest-form writer, reader with all integer widths, indefinite lengths, tags and the recursion budget; Cbor.parse_print, Cbor.roundtrip_bytes; the bytes serde_cbor writes are compared with Cbor.print on every case); the real serde_json/serde_cbor round trips of all four containers are compared with the model (all connect sequences on <=3 nodes, random to 40 nodes) and checked by a structural-equality oracle.",
         "Lean 4 proof (decompose/rebuild round trip for every iteration order; byte-level JSON and CBOR writer/reader round trips) + model/implementation correspondence through real serde_json and serde_cbor + structural oracle"),
 "C13": ([("GdslModel.Props.C13", "G.Serde." + t) for t in ["undeclared_is_error", "first_key_wins", "ok_is_wellformed"]],
         "Machine-checked proof (Lean 4) about the structural layer of deserialisation (the visitor over the two lists): an error exactly when an edge names an undeclared key; repeated keys keep the first declaration; an Ok graph is mirrored, its nodes come from the document and every node's lists are exactly the listed edges in document order; the function has no panic outcome. At byte level the JSON reader is inside the model (Model/Json.lean, for K=usize, N=i64, E=u32): deJson is a total function of the bytes (no panic outcome), everything it accepts is in range and goes through the visitor (de_ok_wellformed, de_error_iff), white space around a document is irrelevant, and no proper prefix of a written document is accepted (truncated_is_error); that serde_json accepts exactly this language is the correspondence on raw bytes (every single white-space/number-literal/punctuation/truncation/trailing edit of seed documents plus random byte edits, compared exactly). The CBOR reader is inside the model in the same way (Model/Cbor.lean; Cbor.parse_inrange, de_ok_wellformed, de_error_iff, truncated_is_error, trailing_is_error), tied to serde_cbor by exact correspondence on raw CBOR documents (every item header x boundary arguments, widths, major types, indefinite lengths, reserved values, tags; truncations; random byte edits). Payload types other than usize/i64/u32 and the byte formats of other serde back ends are not modelled.",
         "Lean 4 proof of the structural layer and of the byte-level JSON and CBOR readers + exact correspondence on structural mutations and on raw JSON and CBOR bytes"),
 "C18": ([("GdslModel.Props.C18", "G.Cont." + t) for t in ["insert_spec", "remove_spec", "nodup_insert", "nodup_remove", "len_insert", "len_remove", "order_spec", "views", "root_iff_no_member_edge", "dot_lines", "run_refines", "run_nodup"]],
         "Machine-checked proof (Lean 4) that the container model refines a key set (insert adds iff absent and otherwise changes nothing, remove/contains/len are the map's, an accepted iteration order lists each member once), that roots/leaves/orphans are exactly the members without incoming/outgoing/any edge (and, with the mirror invariant, describe the edge set from both ends), and that the DOT exports have one node statement per member and one edge statement per iterated edge. Nodes are keys in the model, so 'hands out the inserted nodes themselves' is validated, not proved: container histories interleaved with edge operations through container handles are compared call by call with the model and with an independent reference map; DOT text is compared exactly under the annotated hash order and as a multiset of lines.",
         "Lean 4 refinement proof (container = key set; views; DOT line structure) + model/implementation correspondence of container histories + reference-map and DOT oracles"),
}
for _p, (_t, _txt, _tech) in _CONT.items():
    PROPS[_p] = {"theorems": _t, "oracles": [_p.lower()], "rule": CONT_RULE, "exhaustive": True, "level_text": _txt, "level_note": CORR_NOTE, "technique": _tech, "design_ref": "DESIGN.md section 7, " + _p}

import c14 as _c14
PROPS["C14"] = {"theorems": [("GdslModel.Props.C14", "G.Macro." + t) for t in ["build_spec", "panic_first_missing"]], "oracles": [], "rule": "", "custom": _c14.custom,
    "technique": "Lean 4 proof of the arm body's denotation + generated macro programs compiled against the tree (correspondence) + independent denotation oracle",
    "level_text": "Machine-checked proof (Lean 4) that the body of a *graph! arm (collect edge tuples, insert nodes, check source then target, connect), as a function of the listed nodes and edges, builds exactly the listed nodes (first listing of a key wins) and per node exactly its listed edges in listed order, mirrored, and otherwise panics naming the first unlisted key in (edge order, source before target). The macro_rules! expansion itself is exercised, not modelled: a seeded generator writes invocations of all 4 macros x 4 forms (plus the empty form and the _node!/_connect! helpers) into a crate compiled against the working tree, each result bound to the flavour's own Graph type, and their output is compared with the model and with an independent denotation.", "level_note": CORR_NOTE, "design_ref": "DESIGN.md section 7, C14"}

import c16 as _c16
PROPS["C16"] = {"theorems": [("GdslModel.Props.C16", "G.Traits." + t) for t in ["exact_spec", "never_spec", "sync_digraph_exact", "sync_ungraph_exact", "plain_never", "sync_weak_exact", "weak_bounds_not_exact", "static_bounds_not_exact"]],
    "oracles": [], "rule": "", "custom": _c16.custom,
    "technique": "Lean 4 proof by decide over tables regenerated from the Rust sources (translator) + model-vs-rustc probe table",
    "level_text": "Machine-checked proof (Lean 4) that, under the transcribed auto-trait rules, each sync Node/Edge/Graph (and WeakNode) is Send resp. Sync exactly when K, N and E are all Send+Sync, and each plain type never is - for every instantiation, since a payload enters only through its capability bits (Send, Sync, and whether it meets any additional bound an explicit impl asks beyond the struct's own, e.g. 'static) and all 8^3 assignments are decided; an impl that asks more than Send + Sync of the payloads breaks the proof just like one that asks less. The definition tables (struct bodies, type aliases, every explicit impl Send/Sync with its bounds) are regenerated from /repo's sources by a translator on every run, so weakening a bound or changing a field type breaks the proof itself. The transcription of std's rules is validated against rustc: a probe binary reads the real trait solver's verdict for 4 flavours x 3 types x 64 payload witnesses x 2 traits and is compared row by row with the model, and a second program with borrowed (non-'static) Send + Sync payloads must compile for every sync type; the rustc table is also judged directly against the statement. The 'consequently no data race' clause rests on Rust's meaning of Send/Sync and is not modelled.",
    "level_note": "Trusted: Lean kernel (+ propext, Classical.choice, Quot.sound), the translator (fails loudly on constructs it does not know), the transcription of std's auto-trait rules (checked against rustc by the probe), rustc itself for the probe rows.",
    "design_ref": "DESIGN.md section 7, C16"}

PROPS["C19"] = {"theorems": [("GdslModel.Props.C19", "G.Own." + t) for t in ["inv_step", "inv_run", "released_once", "no_premature_release", "all_released_at_end", "edges_do_not_own", "held_alive"]], "oracles": ["c19"],
    "rule": "seeded histories over the four flavours with drop-counting node values: build/use phase (nodes, clones, containers, edges, bfs/dfs paths and cycles, search results, pre/postorderings, found neighbours held in slots; connect, try_connect (accepted and refused), disconnect, isolate, queries from both ends; unconnected nodes come and go; duplicate-key inserts, a second container sharing members), traversals whose closure takes a member out of the container that is its only owner, isolates it and drops it (own.walk), caterpillars of 130-160 nodes with every spine node once as the target of a search that stops early, hand-off phase (the original handles are dropped first, so results/containers/clones alone keep nodes alive), tear-down in random order; after every request the set of released values is compared with the model and with the handles actually held. distinct_nontrivial = number of histories.",
    "exhaustive": False,
    "level_text": "Machine-checked proof (Lean 4) about the ownership-accounting model (strong handles held by program slots: node handles, edges, paths, search results, containers; adjacency entries weak): after every history a node value is released exactly when no slot mentions its key - at most once, never while a handle is held, always once the last handle is gone - for any graph shape (cycles, self-loops, still-connected nodes) and drop order; results of traversals (bfs/dfs paths and cycles, searches, pre/postorder, find_*) only ever hold alive nodes (uses the BFS/DFS/ordering soundness theorems); connect, try_connect, disconnect, isolate and every query create and drop no handle, whatever they do to the adjacency lists (the theorems quantify over an arbitrary effect function mutF). That Rc/Arc/Weak implement this accounting is trusted std semantics; the tie to the four flavours is the correspondence with drop-counting node values (released sets compared after every request of seeded histories with build, hand-off and tear-down phases) and a direct oracle on the handles actually held.",
    "level_note": CORR_NOTE, "technique": "Lean 4 invariant proof over the ownership-accounting model + model/implementation correspondence with drop-counting payloads + held-handle oracle", "design_ref": "DESIGN.md section 7, C19"}

PROPS["C17"] = {"theorems": [("GdslModel.Props.C17", "G.Conc." + t) for t in ["deadlock_free_di", "deadlock_free_un", "deadlock_free_wf", "serialisable_di", "serialisable_un", "quiescent_mirror_di", "quiescent_mirror_un", "unlocked_not_serialisable"]], "oracles": ["c17"],
    "rule": "scenario = initial two-node graph + per-thread call lists (mutators, queries, whole iterations, bfs/dfs/preorder traversals, and node lifetime: a thread makes, connects, disconnects and drops a node of its own); every schedule (choice of the thread that proceeds at each lock request of a node lock or the mutation mutex) is explored depth-first with real threads under the lock hook; each explored schedule is one case, replayed on the Lean thread model with the same decisions; distinct_nontrivial = number of schedules explored.",
    "exhaustive": True, "timeout": {"quick": 1800, "thorough": 7200},
    "level_text": "Machine-checked proof (Lean 4) about the thread model of the sync flavours (lock programs of Model/Sync.lean, one atomic lock event per step, reader-writer admission; any number of threads, any schedule): no reachable configuration with an unfinished thread is stuck (deadlock freedom, also with readers and iterator steps, from 'node locks never nest, the mutex is requested only while holding nothing'); when all threads are done, the store and every mutator's return value are those of a sequential order of the same calls that respects each thread's order (the order of mutex acquisitions), hence no panic and the mirror/symmetry invariant at quiescence; the same with any number of reader threads in the mix (queries, iterations, and traversals - bfs/dfs search and preorder are lock programs of the model, proved write-free and well-formed): no deadlock, and the store and the mutators' results are still those of a sequential order of the mutator calls (projection simulation onto the mutator threads); without the mutation mutex the model admits a non-serialisable outcome (negative control by decide). The model's acquisition points are tied to the real code by the deterministic scheduler: real threads park at every lock request (node locks and the mutex go through the cfg-guarded hook), every schedule of every small scenario is enumerated, replayed on the model decision by decision, and every outcome is checked against the set of sequential outcomes computed on the real code. Named limits: the OS scheduler's own choices and fairness are replaced by 'all interleavings of lock events'; std's RwLock writer preference enters only as 'a second read guard behind a waiting writer is a deadlock'; panics raised by user payload code inside a locked region are outside the model.",
    "level_note": CORR_NOTE + " Deterministic scheduler (harness/src/sched.rs) and lock hook (src/verif_hook.rs, cfg gdsl_verif) are part of the trusted correspondence machinery.",
    "technique": "Lean 4 proof over all interleavings (progress invariant; serialisation by a ghost commit log) + exhaustive deterministic-scheduler correspondence on real threads + sequential-outcome oracle",
    "design_ref": "DESIGN.md section 7, C17"}

PROPS["C15"] = {"theorems": [("GdslModel.Props.C15", "G.Sync." + t) for t in ["di_single_refines", "un_single_refines", "di_run_eq_plain", "un_run_eq_plain", "query_refines", "iter_next_refines"]],
    "oracles": ["c15"],
    "rule": "every generated single-threaded program (edge histories with random handle provenance, all search/cycle/ordering configurations with callbacks and filters, container histories, scc, DOT, serde round trips, comparisons) is run on digraph and sync_digraph resp. ungraph and sync_ungraph; the two implementation streams are compared line by line (container-order-dependent results as sets), and each stream is compared with the model; histories with two live node objects of one key and ownership histories (the executor holds exactly the handles the program names; traversals whose closure drops the last owner) priority-first traversals over node values the closure changes, and edge loops whose body mutates next to a suspended second iterator are compared between the two implementations only; distinct_nontrivial = number of programs.",
    "exhaustive": False,
    "level_text": "Machine-checked proof (Lean 4) that every lock program of the sync flavours (the four mutators with the mutation mutex, queries, the iterator step), run alone from any store, never blocks on a lock it holds itself and computes exactly the plain flavour's function (same final store, same return value), lifted to whole call sequences; the iterator step holds no lock when it returns. Traversals of the sync flavours written as lock programs (bfs/dfs search, preorder: one iterator step after the other) are proved to return, run alone, exactly what the static traversal of the plain model returns on the same lists, without blocking and without touching the store; the serialised document depends on the container's iteration order only through a permutation of its two lists. Everything else above the edge operations and the iterator step (containers, scc, serde, macros) is one model for both members of a pair. The tie to the code is a direct differential of the two implementations on every generated program (no model involved) plus the model correspondence of each; API present in only one member of a pair (Graph::with_capacity, to_dot_with_attr / sizeof of one flavour) is outside 'calls common to both'.",
    "level_note": CORR_NOTE + " The lock programs' acquisition points are validated against the real code by the C17 scheduler correspondence.",
    "technique": "Lean 4 refinement proof (lock programs run alone = plain functions) + direct plain-vs-sync differential of the implementations + model correspondence",
    "design_ref": "DESIGN.md section 7, C15"}

PROPS["C20"] = {"theorems": [("GdslModel.Props.C20", "G.Live." + t) for t in ["iter_yield_exists", "search_yield_exists", "order_yield_exists", "iter_terminates", "search_eq_static", "order_eq_static", "sync_iter_holds_nothing"]], "oracles": ["c20", "mirror"],
    "rule": "one case = a fresh small graph (all nodes also in a container), one loop (edge iterator out/in/adj; bfs, dfs, pfs-min, pfs-max, preorder, postorder; plain and transposed) whose body / closure runs a script: one operation (connect, try_connect, disconnect, isolate, is_connected, nested bfs, container insert/remove) at one step of the loop - every combination on 2-node graphs (every 6th in the quick tier), scripts that add edges for a bounded number of steps, and random scripts on graphs up to 7 nodes; rewiring closures on 3-node graphs; mutations the closure hands to another thread and waits for (sync flavours); plain loops driven by a for statement and by Iterator::for_each, each next to a second iterator over the same list that is stepped once (or sent past the end with nth) before the loop and drained after it; ownership histories in which a traversal's closure takes a member out of the container that is its only owner, isolates it and drops it; all four flavours with the lock hook on. distinct_nontrivial = number of cases.",
    "exhaustive": False,
    "level_text": "Machine-checked proof (Lean 4) about the live-loop model (iterators keep only a position and re-read the live list on every step; traversal loops thread an arbitrary program state through every call of the closure, which may connect, disconnect, isolate, touch containers or run nested searches): every edge handed out by an iterator or to a traversal closure is an entry of its source's list in the state at that moment; an edge loop ends within len - pos + 1 steps once the body stops lengthening the list; a closure that does not touch the graph sees exactly the static traversal of C04-C10 (simulation); an iterator step of the sync flavours returns holding no lock, so the closure can take any lock (no self-deadlock), and the plain model has no borrow state between steps. Traversals under mutation terminate as well: with a finite node universe, once the closure stops lengthening lists every search and ordering ends within an explicit fuel bound (search_terminates, *_terminates_from, *_terminates_eventually). Tied to the four flavours by exact correspondence of yielded edges, script results and final graphs: every (graph, loop kind, root, step, operation) combination on 2-node graphs (sampled in quick), bounded edge-adding scripts, random scripts; an oracle re-checks on the real lists that each yielded edge exists when yielded; panics and re-entrant lock requests (lock hook) are failures.",
    "level_note": CORR_NOTE + " Runtime behaviour outside the model: user Clone/Drop/Display impls of payloads that themselves touch the graph while a guard is alive.",
    "technique": "Lean 4 proof on the state-threading loop model (yield soundness, iterator termination, simulation to the static traversals) + model/implementation correspondence with scripted callbacks + live-existence oracle",
    "design_ref": "DESIGN.md section 7, C20"}


# ---- the proof obligations of a property are ALL theorems of its Props file (derived, so that the list cannot go stale)
import os as _os, re as _re
def _theorems_of(pid):
    f = _os.path.join(_os.path.dirname(_os.path.dirname(_os.path.abspath(__file__))), "lean", "GdslModel", "Props", pid + ".lean")
    if not _os.path.exists(f):
        return []
    src = open(f).read()
    src = _re.sub(r"/-.*?-/", "", src, flags=_re.S)
    ns, out = [], []
    for line in src.split("\n"):
        m = _re.match(r"\s*namespace\s+(\S+)", line)
        if m:
            ns.append(m.group(1)); continue
        m = _re.match(r"\s*end\s+(\S+)", line)
        if m and ns and ns[-1] == m.group(1):
            ns.pop(); continue
        m = _re.match(r"\s*theorem\s+(\S+)", line)
        if m:
            out.append(("GdslModel.Props." + pid, ".".join(ns + [m.group(1)])))
    return out
for _pid in list(PROPS):
    _t = _theorems_of(_pid)
    if _t:
        PROPS[_pid]["theorems"] = _t

"""C14: construction macros. Programs are the inputs: a seeded generator writes macro invocations
(one function per invocation, one binary per flavour) into /verif/macros, compiled against /repo's
working tree; each function prints the observation stream of its result bound to the flavour's own
Graph type. The same invocations, as `macro` requests, go through the Lean driver (macroBuild)."""
import os, random, json, time, shutil, subprocess, re

FL = {"di": ("digraph", True), "sdi": ("sync_digraph", True), "un": ("ungraph", False), "sun": ("sync_ungraph", False)}


def gen_invocation(rng, form, small, large=False):
    """returns listed = [((k, v), [(t, e), ...] or None)], possibly naming an unlisted key"""
    if large:
        # long invocations (30-70 edges) in which a few nodes are the target of many listed edges
        n = rng.randint(8, 14)
        keys = list(range(n))
        rng.shuffle(keys)
        hot = keys[:3]
        listed = []
        for k in keys:
            v = rng.randint(-2, 3) if form in (2, 4) else 0
            edges = []
            for _ in range(rng.randint(2, 6)):
                t = rng.choice(hot) if rng.random() < 0.5 else rng.choice(keys)
                edges.append((t, rng.randint(0, 99) if form in (3, 4) else 0))
            listed.append(((k, v), edges))
        return listed, None
    n = rng.choice([0, 1, 1, 2, 3, 3, 4]) if small else rng.randint(0, 7)
    keys = list(range(n))
    rng.shuffle(keys)
    if n and rng.random() < 0.1:
        keys.append(keys[0])  # a key listed twice: the first listing's value is kept, edges of both count
    listed = []
    for k in keys:
        v = rng.randint(-2, 3) if form in (2, 4) else 0
        r = rng.random()
        if r < 0.15 or not keys:
            edges = None           # `(k) =>` with no list at all
        elif r < 0.3:
            edges = []             # empty list
        else:
            edges = []
            for _ in range(rng.randint(1, 3)):
                t = k if rng.random() < 0.15 else rng.choice(keys)   # self-loops, forward references
                e = rng.randint(0, 4) if form in (3, 4) else 0
                edges.append((t, e))
                if rng.random() < 0.15:
                    edges.append((t, e))   # repeated edge
        listed.append(((k, v), edges))
    bad = None
    if listed and rng.random() < 0.12:
        i = rng.randrange(len(listed))
        miss = 90 + rng.randint(0, 5)
        kv, edges = listed[i]
        edges = list(edges or [])
        edges.insert(rng.randint(0, len(edges)), (miss, 1 if form in (3, 4) else 0))
        listed[i] = (kv, edges)
        bad = miss
    return listed, bad


def rust_invocation(flname, form, listed):
    head = {1: "(usize)", 2: "(usize, i64)", 3: "(usize) => [u32]", 4: "(usize, i64) => [u32]"}[form]
    parts = []
    for (k, v), edges in listed:
        node = f"({k})" if form in (1, 3) else f"({k}, {v})"
        if edges is None:
            parts.append(f"{node} =>")
        else:
            if form in (1, 2):
                lst = ", ".join(str(t) for t, _ in edges)
            else:
                lst = ", ".join(f"({t}, {e})" for t, e in edges)
            parts.append(f"{node} => [{lst}]")
    return f"{flname}![ {head} " + " ".join(parts) + " ]"


def model_line(listed):
    ents = []
    for (k, v), edges in listed:
        ents.append(f"{k}:{v}=>" + ",".join(f"{t}:{e}" for t, e in (edges or [])))
    return "macro " + (";".join(ents) if ents else "-")


def expected(directed, listed):
    """independent denotation (oracle): (order, values, out lists) or ('panic', key)"""
    order, vals = [], {}
    for (k, v), _ in listed:
        if k not in vals:
            vals[k] = v
            order.append(k)
    out = {k: [] for k in order}
    inn = {k: [] for k in order}
    for (k, _), edges in listed:
        for t, e in (edges or []):
            if k not in vals:
                return ("panic", k)
            if t not in vals:
                return ("panic", t)
    for (k, _), edges in listed:
        for t, e in (edges or []):
            out[k].append((t, e))
            inn[t].append((k, e))
    return ("ok", order, vals, out, inn)


def expected_dump(directed, exp):
    _, order, vals, out, inn = exp
    f = lambda l: "[" + ",".join(f"{t}:{e}" for t, e in l) + "]"
    if directed:
        return " ".join(f"{k}:{f(out[k])}/{f(inn[k])}" for k in order)
    return " ".join(f"{k}:{f(out[k] + inn[k])}" for k in order)


PRELUDE = '''#![allow(unused, clippy::all)]
use gdsl::*;
use std::panic::{catch_unwind, AssertUnwindSafe};
trait V { fn v(&self) -> i64; }
impl V for () { fn v(&self) -> i64 { 0 } }
impl V for i64 { fn v(&self) -> i64 { *self } }
impl V for u32 { fn v(&self) -> i64 { *self as i64 } }
fn l(v: Vec<(usize, i64)>) -> String { format!("[{}]", v.iter().map(|(k, e)| format!("{k}:{e}")).collect::<Vec<_>>().join(",")) }
fn run(id: &str, req: &str, order: &[usize], f: &dyn Fn(&[usize]) -> (usize, String)) {
    println!("case");
    match catch_unwind(AssertUnwindSafe(|| f(order))) {
        Ok((n, d)) => { println!("ok n={n}"); println!("{d}"); println!("{n}"); }
        Err(e) => { let m = e.downcast_ref::<String>().cloned().unwrap_or_default(); println!("panic {m}"); }
    }
}
'''


def dump_fn(flname, directed, nty, ety):
    g = f"gdsl::{flname}::Graph<usize, {nty}, {ety}>"
    if directed:
        body = 'format!("{k}:{}/{}", l(n.iter_out().map(|Edge(_, v, e)| (*v.key(), e.v())).collect()), l(n.iter_in().map(|Edge(u, _, e)| (*u.key(), e.v())).collect()))'
    else:
        body = 'format!("{k}:{}", l(n.iter().map(|Edge(_, v, e)| (*v.key(), e.v())).collect()))'
    return f'''fn dump_{nty.strip("()") or "u"}_{ety.strip("()") or "u"}(g: &{g}, order: &[usize]) -> (usize, String) {{
    use gdsl::{flname}::*;
    (g.len(), order.iter().map(|k| {{ let n = g.get(k).unwrap(); {body} }}).collect::<Vec<_>>().join(" "))
}}
'''


PLAUSIBLE = ["NODES", "EDGES", "N", "E", "K", "LEN", "COUNT", "CAP", "SIZE"]


def macro_item_names(repo, flname):
    """names of items (const / static / fn / struct / type) defined inside the bodies of a flavour's macros: items are
    not hygienic in macro_rules!, so an invocation whose arguments mention a caller's item of the same name would
    silently get the macro's one"""
    try:
        src = open(os.path.join(repo, "src", flname, "graph_macros.rs")).read()
    except OSError:
        return []
    src = re.sub(r"//[^\n]*", "", src)
    names = []
    for m in re.finditer(r"\b(const|static|fn|struct|type)\s+([A-Za-z_][A-Za-z0-9_]*)", src):
        if m.group(2) not in names and m.group(2) != "_":
            names.append(m.group(2))
    return names


def named_invocations(flname, names):
    """invocations whose keys and values are written with caller constants (named like items of the macro bodies, and a
    few plausible names): [(const declarations, form, listed as written, listed as denoted)]"""
    out = []
    for j, nm in enumerate(names):
        a = 1 + j % 3   # the constant stands for key `a` (an edge target and a listed node) and for edge value / node value 7
        decl = f"const {nm}: usize = {a};"
        written = [((0, 0), [(nm, 0)]), ((nm, 0), []), ((5, 0), [(0, 0), (nm, 0)])]
        denoted = [((0, 0), [(a, 0)]), ((a, 0), []), ((5, 0), [(0, 0), (a, 0)])]
        out.append((decl, 1, written, denoted))
    return out


def rust_invocation_named(flname, form, listed):
    head = {1: "(usize)", 2: "(usize, i64)", 3: "(usize) => [u32]", 4: "(usize, i64) => [u32]"}[form]
    parts = []
    for (k, v), edges in listed:
        lst = ", ".join(str(t) for t, _ in edges)
        parts.append(f"({k}) => [{lst}]")
    return f"{flname}![ {head} " + " ".join(parts) + " ]"


def generate(root, seed, per_form, small=True):
    """writes macros/src/bin/<fl>.rs and returns {fl: [(id, form, listed, bad)]}"""
    rng = random.Random(seed)
    plan = {}
    bind = os.path.join(root, "macros", "src", "bin")
    os.makedirs(bind, exist_ok=True)
    for fl, (flname, directed) in FL.items():
        cases = []
        src = [PRELUDE]
        for nty, ety in [("()", "()"), ("i64", "()"), ("()", "u32"), ("i64", "u32")]:
            src.append(dump_fn(flname, directed, nty, ety))
        main = ["fn main() {", "    std::panic::set_hook(Box::new(|_| {}));"]
        # the empty invocation and the helper macros
        src.append(f'fn empty() -> (usize, String) {{ let g: gdsl::{flname}::Graph<usize, (), ()> = {flname}![]; (g.len(), String::new()) }}\n')
        main.append('    run("empty", "", &[], &|_| empty());')
        cases.append(("empty", 0, [], None))
        src.append(f'''fn helpers() -> (usize, String) {{
    use gdsl::{flname}::*;
    let a: Node<usize, i64, u32> = {flname}_node!(0, 5);
    let b: Node<usize, i64, u32> = {flname}_node!(1, 6);
    let c: Node<usize, (), ()> = {flname}_node!(2);
    let d: Node<usize, (), ()> = {flname}_node!(3);
    {flname}_connect!(&a => &b, 7);
    {flname}_connect!(&a => &a, 8);
    {flname}_connect!(&c => &d);
    let mut g = Graph::<usize, i64, u32>::new();
    g.insert(a.clone()); g.insert(b.clone());
    let mut h = Graph::<usize, (), ()>::new();
    h.insert(c.clone()); h.insert(d.clone());
    let (n1, d1) = dump_i64_u32(&g, &[0, 1]);
    let (n2, d2) = dump_u_u(&h, &[2, 3]);
    assert!(*a.value() == 5 && *b.value() == 6);
    (n1 + n2, format!("{{d1}} {{d2}}"))
}}
''')
        main.append('    run("helpers", "", &[], &|_| helpers());')
        cases.append(("helpers", -1, [((0, 0), [(1, 7), (0, 8)]), ((1, 0), []), ((2, 0), [(3, 0)]), ((3, 0), [])], None))
        i = 0
        for form in (1, 2, 3, 4):
            nty = "i64" if form in (2, 4) else "()"
            ety = "u32" if form in (3, 4) else "()"
            dn = f'dump_{nty.strip("()") or "u"}_{ety.strip("()") or "u"}'
            for j in range(per_form):
                listed, bad = gen_invocation(rng, form, small, large=(j % 8 == 7))
                order = []
                for (k, _), _e in listed:
                    if k not in order:
                        order.append(k)
                fid = f"m{i}"
                src.append(f'fn {fid}(order: &[usize]) -> (usize, String) {{\n    let g: gdsl::{flname}::Graph<usize, {nty}, {ety}> = {rust_invocation(flname, form, listed)};\n    {dn}(&g, order)\n}}\n')
                main.append(f'    run("{fid}", "", &{order!r}, &|o| {fid}(o));')
                cases.append((fid, form, listed, bad))
                i += 1
        # keys written as caller constants: named like the items defined in the macro bodies (none on a hygienic macro)
        # plus a fixed list of plausible names
        repo = os.environ.get("VERIF_REPO", "/repo")
        names = [n for n in macro_item_names(repo, flname)] + PLAUSIBLE
        for j, (decl, form, written, denoted) in enumerate(named_invocations(flname, names)):
            order = []
            for (k, _), _e in denoted:
                if k not in order:
                    order.append(k)
            fid = f"c{j}"
            src.append(f'fn {fid}(order: &[usize]) -> (usize, String) {{\n    {decl}\n    let g: gdsl::{flname}::Graph<usize, (), ()> = {rust_invocation_named(flname, form, written)};\n    dump_u_u(&g, order)\n}}\n')
            main.append(f'    run("{fid}", "", &{order!r}, &|o| {fid}(o));')
            cases.append((fid, form, denoted, None))
        main.append("}")
        with open(os.path.join(bind, fl + ".rs"), "w") as f:
            f.write("\n".join(src) + "\n" + "\n".join(main) + "\n")
        plan[fl] = cases
    return plan


def minimal_program(root, fl):
    flname, directed = FL[fl]
    p = os.path.join(root, "macros", "src", "bin", f"min_{fl}.rs")
    with open(p, "w") as f:
        f.write(f"fn main() {{\n    let g: gdsl::{flname}::Graph<usize, (), ()> = gdsl::{flname}![ (usize) (0) => [1] (1) => ];\n    assert!(g.len() == 2);\n}}\n")
    return p


def custom(C, pid, tier, seed):
    """C = the check module"""
    t0 = time.time()
    spec = C.P.PROPS[pid]
    root = C.ROOT
    per_form = 25 if tier == "quick" else 250
    ev = {"property_id": pid, "tier": tier, "seed": seed, "level": "proof", "coverage": {}, "assumptions": spec.get("assumptions", []), "wall_s": 0.0, "violations": 0}
    cov = ev["coverage"]
    violations, mism_total, fails_total = [], 0, 0
    with C.Lock():
        proofs = C.discharge(pid, spec)
        if not os.path.exists(C.DRIVER) or proofs["failed"]:
            C.sh(["lake", "build", "driver"], cwd=C.LEAN, timeout=3000)
        for f in os.listdir(os.path.join(root, "macros", "src", "bin")) if os.path.isdir(os.path.join(root, "macros", "src", "bin")) else []:
            os.remove(os.path.join(root, "macros", "src", "bin", f))
        plan = generate(root, seed, per_form)
        built = {}
        for fl in FL:
            rc, out, dt = C.sh(["cargo", "build", "--offline", "--bin", fl], cwd=os.path.join(root, "macros"), timeout=1800)
            built[fl] = (rc == 0, out)
    cov["obligations"] = proofs["obligations"]
    cov["discharged"] = proofs["discharged"]
    cov["checker_cmd"] = f"cd lean && lake build GdslModel.Props.{pid} && lake env lean Audit/{pid}.lean"
    cov["trusted_base"] = C.P.TRUSTED_BASE + ["macro_rules! expansion is exercised, not modelled: the model is the arm body as a function of the listed nodes/edges"]
    cov["theorems"] = [t for _, t in spec.get("theorems", [])]
    cov["axioms"] = proofs["axioms"]
    n_cases = n_lines = 0
    samples = []
    outdir = os.path.join(C.WORK, pid)
    shutil.rmtree(outdir, ignore_errors=True)
    os.makedirs(outdir)
    broken = [("proof", f"theorem {t}: {why}") for t, why in proofs["failed"]]
    dist = {"panic_expected": 0, "ok_expected": 0, "selfloop": 0, "no_list": 0, "empty_list": 0, "repeated_key": 0}
    for fl, cases in plan.items():
        flname, directed = FL[fl]
        ok, out = built[fl]
        if not ok:
            # the generated programs do not compile against the tree: find the smallest one that fails
            mp = minimal_program(root, fl)
            rc, mout, _ = C.sh(["cargo", "build", "--offline", "--bin", f"min_{fl}"], cwd=os.path.join(root, "macros"), timeout=900)
            errs = [l for l in (mout if rc != 0 else out).split("\n") if l.startswith("error")][:3]
            lines = open(mp).read().split("\n") if rc != 0 else [f"-- {fl}.rs (generated, seed {seed}) does not compile"] + errs
            what = f"denotation: a well-formed {flname}! invocation bound to gdsl::{flname}::Graph does not compile: " + " | ".join(errs)
            path = C.write_replay(pid, "oracle", what, lines, {"flavour": fl, "seed": seed, "tier": tier})
            os.replace(path, path[:-5] + ".rs")
            violations.append((path[:-5] + ".rs", ""))
            continue
        rc, implout, _ = C.sh([os.path.join(root, "harness", "target", "macros", "debug", fl)], timeout=300)
        impl = implout.rstrip("\n").split("\n")
        prog = []
        exp_lines = []
        for cid, form, listed, bad in cases:
            prog.append(f"case {fl} {cid}")
            exp_lines.append("case")
            if cid == "empty":
                prog += ["macro -", "dump", "g.len 0"]
                exp_lines += ["ok n=0", "", "0"]
                continue
            prog.append(model_line(listed))
            e = expected(directed, listed)
            if e[0] == "panic":
                dist["panic_expected"] += 1
                exp_lines.append(f'panic Check your macro invocation, "{e[1]}" is not in the graph')
            else:
                dist["ok_expected"] += 1
                prog += ["dump", "g.len 0"]
                exp_lines += [f"ok n={len(e[1])}", expected_dump(directed, e), str(len(e[1]))]
            for (k, v), edges in listed:
                if edges is None:
                    dist["no_list"] += 1
                elif not edges:
                    dist["empty_list"] += 1
                elif any(t == k for t, _ in edges):
                    dist["selfloop"] += 1
            if len({k for (k, _), _ in listed}) < len(listed):
                dist["repeated_key"] += 1
            if len(samples) < 4 and form > 0:
                samples.append(rust_invocation(flname, form, listed))
        pf = os.path.join(outdir, f"{fl}.prog")
        open(pf, "w").write("\n".join(prog) + "\n")
        model, mrc, merr = C.run_driver(pf)
        ml = open(model).read().rstrip("\n").split("\n")
        # the model prints `panic <k>`; canonicalise the implementation's message to the same form
        canon = lambda s: re.sub(r'^panic Check your macro invocation[,:] "(\d+)" is not in the graph$', r"panic \1", s)
        impl_c = [canon(x) for x in impl]
        exp_c = [canon(x) for x in exp_lines]
        n_lines += len(prog)
        n_cases += len(cases)
        # oracle (denotation) vs implementation, then model vs implementation
        idx = 0
        for cid, form, listed, bad in cases:
            k = 4 if cid == "empty" else (2 if expected(directed, listed)[0] == "panic" else 4)
            seg_i, seg_e, seg_m = impl_c[idx:idx + k], exp_c[idx:idx + k], ml[idx:idx + k]
            if seg_i != seg_e:
                fails_total += 1
                if len([v for v in violations if v[1] == ""]) < 3:
                    inv = rust_invocation(flname, form, listed) if form > 0 else cid
                    path = C.write_replay(pid, "oracle", f"denotation: `{inv}` yields {seg_i[1:]} but denotes {seg_e[1:]}", [f"case {fl} {cid}", model_line(listed), "-- " + inv], {"flavour": fl, "seed": seed, "tier": tier})
                    violations.append((path, ""))
            if seg_i != seg_m:
                mism_total += 1
                if not broken or broken[-1][0] != "correspondence":
                    broken.append(("correspondence", f"invocation {cid} of {flname}!: impl={seg_i} model={seg_m}"))
            idx += k
    if broken and not violations:
        path = C.write_replay(pid, broken[0][0], "; ".join(w for _, w in broken), ["-- " + broken[0][1][:300]], {"seed": seed, "tier": tier})
        violations.append((path, " no-failing-input-found"))
    cov.update({"evaluations": n_lines, "distinct_nontrivial": n_cases, "rule": "seeded generator: 4 macros x 4 signature forms x N invocations (random node lists incl. repeated keys, every 8th invocation long (8-14 nodes, 30-70 edges, a few nodes the target of many), `=>` without list, empty lists, self-loops, repeated edges, forward references, one unlisted key in ~12%), plus the empty invocation and the *_node!/*_connect! helpers; compiled against the working tree, one function per invocation; distinct by (flavour, index).",
                "samples": samples or ["(none)"], "traces_validated_against_impl": n_cases, "distribution": dist,
                "correspondence_mismatches": mism_total, "oracle_failures": fails_total, "broken_obligations": [w for _, w in broken]})
    ev["violations"] = len(violations)
    ev["wall_s"] = round(time.time() - t0, 1)
    os.makedirs(C.EVID, exist_ok=True)
    json.dump(ev, open(os.path.join(C.EVID, f"{pid}.json"), "w"), indent=1)
    for path, suffix in violations:
        print(f"VIOLATION property={pid} replay={path}{suffix}")
    C.log(f"{pid} {tier}: obligations {cov['discharged']}/{cov['obligations']}, {n_cases} invocations, {mism_total} model mismatches, {fails_total} denotation failures, {ev['wall_s']} s")
    return 1 if violations else 0

import GdslModel.Model.Store

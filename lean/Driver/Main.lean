import GdslModel.Model.Store
/-!
Line-protocol driver: reads an annotated program on stdin, prints the model's observation
stream (one line per request). The harness runs the same program on the real code.
-/
open G

abbrev S := Store Nat Nat

structure St where
  directed : Bool := true
  keys : List Nat := []            -- creation order
  nvals : List (Nat × Int) := []   -- node values
  s : S := {}
  dead : Bool := false             -- the case was cut after a panic of the model

def showList (l : List (Nat × Nat)) : String :=
  "[" ++ ",".intercalate (l.map fun (k, e) => s!"{k}:{e}") ++ "]"

def showRes : Res Nat → String
  | .unit => "ok" | .val e => s!"ok {e}" | .notFound => "err notfound"
  | .exists_ => "err exists" | .panic => "panic"

def b01 (b : Bool) : String := if b then "1" else "0"
def showOpt : Option Nat → String
  | none => "None" | some k => s!"Some({k})"

def dump (st : St) : String :=
  " ".intercalate (st.keys.map fun k =>
    let a := st.s.get k
    if st.directed then s!"{k}:{showList a.out}/{showList a.inn}" else s!"{k}:{showList (a.out ++ a.inn)}")

def findKey (l : List (Nat × Nat)) (k : Nat) : Option Nat := (l.find? (fun p => p.1 = k)).map (·.1)

def obs (st : St) (u : Nat) : String :=
  let a := st.s.get u
  if st.directed then
    s!"od={a.out.length} id={a.inn.length} root={b01 a.inn.isEmpty} leaf={b01 a.out.isEmpty} orphan={b01 (a.inn.isEmpty && a.out.isEmpty)}"
  else
    s!"deg={a.out.length + a.inn.length} orphan={b01 (a.out.isEmpty && a.inn.isEmpty)}"

def query (st : St) (u v : Nat) : String :=
  let a := st.s.get u
  if st.directed then
    s!"conn={b01 (Di.isConnected st.s u v)} fo={showOpt (findKey a.out v)} fi={showOpt (findKey a.inn v)}"
  else
    s!"conn={b01 (Un.isConnected st.s u v)} fa={showOpt (findKey (a.out ++ a.inn) v)}"

def stripVia (line : String) : String :=
  match line.splitOn " #" with
  | h :: _ => h
  | [] => line

def edgeRes (st : St) (r : S × Res Nat) : St × String :=
  ({ st with s := r.1 }, showRes r.2)

def step (st : St) (line : String) : St × String :=
  match (stripVia line.trimAscii.toString).splitOn " " with
  | "case" :: fl :: _ => ({ directed := fl == "di" || fl == "sdi" }, "case")
  | ["new", k, v] => match k.toNat?, v.toInt? with
    | some k, some v => ({ st with keys := st.keys ++ [k], nvals := st.nvals ++ [(k, v)] }, "ok")
    | _, _ => (st, "bad-op")
  | ["connect", u, v, e] => match u.toNat?, v.toNat?, e.toNat? with
    | some u, some v, some e => ({ st with s := connect st.s u v e }, "ok")
    | _, _, _ => (st, "bad-op")
  | ["try_connect", u, v, e] => match u.toNat?, v.toNat?, e.toNat? with
    | some u, some v, some e =>
      edgeRes st (if st.directed then Di.tryConnect st.s u v e else Un.tryConnect st.s u v e)
    | _, _, _ => (st, "bad-op")
  | ["disconnect", u, v] => match u.toNat?, v.toNat? with
    | some u, some v =>
      edgeRes st (if st.directed then Di.disconnect st.s u v else Un.disconnect st.s u v)
    | _, _ => (st, "bad-op")
  | ["isolate", u] => match u.toNat? with
    | some u => edgeRes st (if st.directed then Di.isolate st.s u else Un.isolate st.s u)
    | none => (st, "bad-op")
  | ["dump"] => (st, dump st)
  | ["obs", u] => match u.toNat? with
    | some u => (st, obs st u)
    | none => (st, "bad-op")
  | ["q", u, v] => match u.toNat?, v.toNat? with
    | some u, some v => (st, query st u v)
    | _, _ => (st, "bad-op")
  | _ => (st, "bad-op")

partial def loop (h : IO.FS.Stream) (out : IO.FS.Stream) (st : St) : IO Unit := do
  let line ← h.getLine
  if line.isEmpty then return ()
  let (st', o) := step st line
  out.putStrLn o
  loop h out st'

def main : IO Unit := do
  let out ← IO.getStdout
  loop (← IO.getStdin) out {}

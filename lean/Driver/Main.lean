import GdslModel.Model.Store
import GdslModel.Model.Spec
import GdslModel.Model.Search
import GdslModel.Model.Container
import GdslModel.Model.Json
import GdslModel.Model.Cbor
import GdslModel.Model.Own
import GdslModel.Model.Sync
import GdslModel.Model.Live
import GdslModel.Model.Builder
/-!
Line-protocol driver: reads an annotated program on stdin, prints the model's observation
stream (one line per request). The harness runs the same program on the real code.
-/
open G

abbrev S := Store Nat Nat

structure St where
  directed : Bool := true
  fl : String := "di"
  keys : List Nat := []            -- creation order
  nvals : List (Nat × Int) := []   -- node values
  s : S := {}
  dead : Bool := false             -- the case was cut after a panic of the model
  graphs : List (Nat × Cont Nat) := []   -- container slots
  own : OwnSt Nat Nat := {}              -- ownership accounting (C19)
  sres : List String := []               -- results of script operations run from callbacks (C20)
  lastLt : String := ""                  -- lock trace of the last edge operation (sync flavours)

def showList (l : List (Nat × Nat)) : String :=
  "[" ++ ",".intercalate (l.map fun (k, e) => s!"{k}:{e}") ++ "]"

def showRes : Res Nat → String
  | .unit => "ok" | .val e => s!"ok {e}" | .notFound => "err notfound"
  | .exists_ => "err exists" | .panic => "panic"

def b01 (b : Bool) : String := if b then "1" else "0"
def showOpt : Option Nat → String
  | none => "None" | some k => s!"Some({k})"

def dump (st : St) : String :=
  " ".intercalate (st.keys.map fun k =>
    let a := st.s.get k
    if st.directed then s!"{k}:{showList a.out}/{showList a.inn}" else s!"{k}:{showList (a.out ++ a.inn)}")

def findKey (l : List (Nat × Nat)) (k : Nat) : Option Nat := (l.find? (fun p => p.1 = k)).map (·.1)

def obs (st : St) (u : Nat) : String :=
  let a := st.s.get u
  if st.directed then
    s!"od={a.out.length} id={a.inn.length} root={b01 a.inn.isEmpty} leaf={b01 a.out.isEmpty} orphan={b01 (a.inn.isEmpty && a.out.isEmpty)}"
  else
    s!"deg={a.out.length + a.inn.length} orphan={b01 (a.out.isEmpty && a.inn.isEmpty)}"

def query (st : St) (u v : Nat) : String :=
  let a := st.s.get u
  if st.directed then
    s!"conn={b01 (Di.isConnected st.s u v)} fo={showOpt (findKey a.out v)} fi={showOpt (findKey a.inn v)}"
  else
    s!"conn={b01 (Un.isConnected st.s u v)} fa={showOpt (findKey (a.out ++ a.inn) v)}"

def showEdges (l : List (Edge Nat Nat)) : String :=
  "[" ++ ",".intercalate (l.map fun (u, v, e) => s!"{u}>{v}:{e}") ++ "]"
def showKeys (l : List Nat) : String := "[" ++ ",".intercalate (l.map toString) ++ "]"

def showKeyOpt : Option Nat → String
  | none => "None" | some k => toString k
/-- everything a `Path` shows (`to_vec_edges`, `to_vec_nodes`, first/last accessors; `iter_edges`, `iter_nodes`
    and `Index` are the same lists: `views=ok`) -/
def showPath (p : List (Edge Nat Nat)) : String :=
  s!"path={showEdges p} nodes={showKeys (pathNodes p)} first={showKeyOpt (pathFirstNode p)} last={showKeyOpt (pathLastNode p)} fe={showEdges (pathFirstEdge p).toList} le={showEdges (pathLastEdge p).toList} views=ok"

/-- `u>v:e,u>v:e` or `-` -/
def parseRej (s : String) : Option (List (Nat × Nat × Nat)) :=
  if s == "-" || s == "" then some [] else
  (s.splitOn ",").mapM fun x =>
    match x.splitOn ">" with
    | [u, r] => match r.splitOn ":" with
      | [v, e] => match u.toNat?, v.toNat?, e.toNat? with
        | some u, some v, some e => some (u, v, e)
        | _, _, _ => none
      | _ => none
    | _ => none

/-- method token: `none` | `each` | `filter:REJ`; returns (acceptance predicate, is the trace observable) -/
def parseMethod (m : String) : Option ((Nat → Nat → Nat → Bool) × Bool) :=
  if m == "none" then some (fun _ _ _ => true, false)
  else if m == "each" then some (fun _ _ _ => true, true)
  else if m.startsWith "filter:" then
    (parseRej (m.drop 7).toString).map fun rej => (fun u v e => !(rej.contains (u, v, e)), true)
  else none

def nodeVal (st : St) (k : Nat) : Int :=
  match st.nvals.find? (fun p => p.1 = k) with
  | some p => p.2
  | none => 0

/-- the list a traversal iterates: `fwd`/`default` = outgoing, `tr` = incoming (directed); `out ++ inn` (undirected) -/
def adjOf (st : St) (dir : String) : Option (Nat → List (Nat × Nat)) :=
  if !st.directed then (if dir == "fwd" then some (unAdj st.s) else none)
  else if dir == "fwd" || dir == "default" then some (outAdj st.s)
  else if dir == "tr" then some (inAdj st.s)
  else none

/-- `kind~n` names the n-th order of the builder's configuration calls in the harness; the model has no builder -/
def parseKind (k : String) : Option Kind :=
  match (k.splitOn "~").headD "" with
  | "bfs" => some .bfs | "dfs" => some .dfs | "pfs-min" => some .pfsMin | "pfs-max" => some .pfsMax
  | _ => none

def traceStr (obs : Bool) (tr : List (Edge Nat Nat)) : String :=
  if obs then s!" trace={showEdges tr}" else ""

def doSearch (st : St) (kind dir root target method mode : String) : String :=
  match parseKind kind, adjOf st dir, root.toNat?, parseMethod method with
  | some k, some adj, some r, some (acc, obs) =>
    let tgt : Option Nat := target.toNat?
    if target != "-" && tgt.isNone then "bad-op" else
    let fuel := st.keys.length + 2
    if mode == "node" then
      match searchNode adj acc (nodeVal st) k r tgt fuel with
      | none => "out-of-fuel"
      | some (res, run) => s!"node={showOpt res}{traceStr obs run.st.trace}"
    else if mode == "path" || mode == "cycle" then
      match searchPath adj acc (nodeVal st) k r tgt (mode == "cycle") fuel with
      | none => "out-of-fuel"
      | some (none, run) => s!"path=None{traceStr obs run.st.trace}"
      | some (some p, run) => s!"{showPath p}{traceStr obs run.st.trace}"
    else "bad-op"
  | _, _, _, _ => "bad-op"

def doOrder (st : St) (kind dir root method mode : String) : String :=
  match adjOf st dir, root.toNat?, parseMethod method with
  | some adj, some r, some (acc, obs) =>
    if kind != "pre" && kind != "post" then "bad-op" else
    let fuel := st.keys.length + 2
    if mode == "nodes" then
      match orderNodes adj acc (kind == "post") r fuel with
      | none => "out-of-fuel"
      | some (ns, t) => s!"nodes={showKeys ns}{traceStr obs t.trace}"
    else if mode == "edges" then
      match orderEdges adj acc (kind == "post") r fuel with
      | none => "out-of-fuel"
      | some t => s!"edges={showEdges t.tree}{traceStr obs t.trace}"
    else "bad-op"
  | _, _, _ => "bad-op"

/-- `kind~n`: the configuration calls are made in the n-th order (tables as in the harness: T = transpose,
    P = min/max, G = target); the builder model turns them into a configuration, from which the effective
    kind, direction and target of the request are read back -/
def viaBuilder (directed : Bool) (kindTok dir target : String) : String × String × String :=
  match kindTok.splitOn "~" with
  | [kind, v] =>
    let n := (v.toNat?).getD 0
    let pfs := kind == "pfs-min" || kind == "pfs-max"
    let order : List String :=
      if pfs then
        (if directed then
          [["P", "T", "G"], ["T", "P", "G"], ["G", "T", "P"], ["P", "G", "T"], ["T", "G", "P"], ["G", "P", "T"]].getD (n % 6) []
        else [["P", "G"], ["G", "P"]].getD (n % 2) [])
      else if directed then [["T", "G"], ["G", "T"]].getD (n % 2) [] else ["G"]
    -- variants 12..23: the opposite priority is set first (the last call wins)
    let twice := n / 12 % 2 == 1
    let steps : List (BStep Nat) := order.flatMap fun s =>
      -- variants with bit 24: `transpose()` is called twice (it sets the direction, it does not toggle it);
      -- with bit 48: another target is set first (the last call wins)
      if s == "T" then (if dir == "tr" then (if n / 24 % 2 == 1 then [.transpose, .transpose] else [.transpose]) else [])
      else if s == "P" then
        (if kind == "pfs-max" then (if twice then [.min, .max] else [.max]) else (if twice then [.max, .min] else [.min]))
      else match target.toNat? with
        | some t => if n / 48 % 2 == 1 then [.target (t + 1), .target t] else [.target t]
        | none => []
    let c := BCfg.build steps
    let kind' := if pfs then (if c.max then "pfs-max" else "pfs-min") else kind
    let dir' := if c.tr then "tr" else (if dir == "tr" then "fwd" else dir)
    let target' := match c.target with | some k => toString k | none => (if target.toNat?.isSome then "-" else target)
    (kind', dir', target')
  | _ => (kindTok, dir, target)

/-- builder reuse (`mode1+mode2+...`, a stage may retarget: `path:5`): the model keeps no state between the
    calls of one builder, so every stage is the ordinary request with the target then in force -/
def doSearchStages (st : St) (kind dir root target method : String) (stages : List String) : St × String :=
  let rec go : St → List String → String → St × List String
    | st, [], _ => (st, [])
    | st, s :: rest, tg =>
      -- a graph mutation between two calls on the same builder: `c.U.V.E`, `d.U.V`, `x.U`
      let mutated : Option St := match s.splitOn "." with
        | ["c", u, v, e] => match u.toNat?, v.toNat?, e.toNat? with
          | some u, some v, some e => some { st with s := connect st.s u v e }
          | _, _, _ => none
        | ["d", u, v] => match u.toNat?, v.toNat? with
          | some u, some v => some { st with s := (if st.directed then Di.disconnect st.s u v else Un.disconnect st.s u v).1 }
          | _, _ => none
        | ["x", u] => match u.toNat? with
          | some u => some { st with s := (if st.directed then Di.isolate st.s u else Un.isolate st.s u).1 }
          | none => none
        | _ => none
      match mutated with
      | some st' => let (st'', out) := go st' rest tg; (st'', "ok" :: out)
      | none =>
        let (m, tg') := match s.splitOn ":" with
          | [m, k] => (m, k)
          | _ => (s, tg)
        let (st'', out) := go st rest tg'
        (st'', doSearch st kind dir root tg' method m :: out)
  let (st', outs) := go st stages target
  (st', " ## ".intercalate outs)

def doOrderStages (st : St) (kind dir root method : String) (stages : List String) : String :=
  " ## ".intercalate (stages.map fun m => doOrder st kind dir root method m)

def showOrd (a b : Int) : String := if a < b then "Less" else if a = b then "Equal" else "Greater"
def tf (b : Bool) : String := if b then "true" else "false"

/-- `Node` comparison: `==` compares keys, `<`, `cmp`, `partial_cmp` compare values -/
def doCmp (k1 : Nat) (v1 : Int) (k2 : Nat) (v2 : Int) : String :=
  s!"eq={tf (k1 == k2)} ne={tf (k1 != k2)} lt={tf (v1 < v2)} le={tf (v1 ≤ v2)} gt={tf (v1 > v2)} ge={tf (v1 ≥ v2)} cmp={showOrd v1 v2} pcmp=Some({showOrd v1 v2})"

def showOrdering : Ordering → String
  | .lt => "Less" | .eq => "Equal" | .gt => "Greater"
/-- `Edge` comparison through the model's `edgeEq` / `edgeCmp` -/
def doEcmp (directed : Bool) (a b : Nat × Nat × Nat) : String :=
  let a' : Nat × Nat × Int := (a.1, a.2.1, (a.2.2 : Int))
  let b' : Nat × Nat × Int := (b.1, b.2.1, (b.2.2 : Int))
  let c := edgeCmp a' b'
  s!"eq={tf (edgeEq directed a' b')} ne={tf (!edgeEq directed a' b')} lt={tf (c == .lt)} le={tf (c != .gt)} gt={tf (c == .gt)} ge={tf (c != .lt)} cmp={showOrdering c} pcmp=Some({showOrdering c})"

/-! ### containers -/

def getG (st : St) (i : Nat) : Cont Nat :=
  match st.graphs.find? (fun p => p.1 = i) with
  | some p => p.2
  | none => {}
def setG (st : St) (i : Nat) (g : Cont Nat) : St :=
  { st with graphs := (st.graphs.filter (fun p => p.1 != i)) ++ [(i, g)] }

/-- `@szc=c0,c1,ck` -/
def szAnnot (toks : List String) : Option (Nat × Nat × Nat) :=
  match toks.find? (fun t => t.startsWith "@szc=") with
  | none => none
  | some t => match ((t.drop 5).toString.splitOn ",").map String.toNat? with
    | [some a, some b, some c] => some (a, b, c)
    | _ => none

/-- the `@order=k1,k2,...` annotation of a request line (iteration order of the real hash map) -/
def orderAnnot (toks : List String) : Option (List Nat) :=
  match toks.find? (fun t => t.startsWith "@order=") with
  | none => none
  | some t =>
    let body := (t.drop 7).toString
    if body == "" then some [] else (body.splitOn ",").mapM (·.toNat?)

def withOrder (st : St) (i : Nat) (toks : List String) (f : List Nat → String) : String :=
  match orderAnnot toks with
  | none => "bad-order"
  | some π => if isOrderOf π (getG st i) then f π else "bad-order"

def fmtAttr (a : List (String × String)) : String := String.join (a.map fun (k, v) => s!"[{k}=\"{v}\"]")

def attrG : Nat → Option (List (String × String))
  | 1 => some [("rankdir", "LR"), ("label", "g")]
  | 2 => some []
  | _ => none
def attrN (t k : Nat) (v : Int) : Option (List (String × String)) :=
  match t with
  | 1 => some [("label", s!"n{v}")]
  | 2 => if k % 2 == 0 then some [("shape", "box")] else none
  | _ => none
def attrE (t : Nat) (e : Nat) : Option (List (String × String)) :=
  match t with
  | 1 => some [("label", s!"{e}"), ("color", "red")]
  | 2 => if e % 2 == 1 then some [("w", s!"{e}")] else none
  | _ => none

def iterAdj (st : St) : Nat → List (Nat × Nat) := if st.directed then outAdj st.s else unAdj st.s

def toDot (st : St) (π : List Nat) : String :=
  let body := String.join ((dotPlain (iterAdj st) π).map fun (k, ts) =>
    s!"    {k}" ++ String.join (ts.map fun v => s!"|    {k} -> {v}") ++ "|")
  "digraph {|" ++ body ++ "}"

/-- table 3: callbacks with a state of their own - the i-th invocation answers `i`; one invocation per statement, in order -/
def toDotAttrCounting (st : St) (π : List Nat) : String :=
  let ns := String.join (π.zipIdx.map fun (k, i) => s!"\\t{k} " ++ fmtAttr [("i", toString (i + 1))] ++ "|")
  let es := String.join ((dotEdges (iterAdj st) π).zipIdx.map fun ((u, v, _), j) =>
    s!"\\t{u} -> {v} " ++ fmtAttr [("j", toString (j + 1))] ++ "|")
  "digraph {|" ++ ns ++ es ++ "}"

def toDotAttr (st : St) (t : Nat) (π : List Nat) : String :=
  if t == 3 then toDotAttrCounting st π else
  let g := match attrG t with
    | some l => String.join (l.map fun (k, v) => s!"\\t{k}=\"{v}\"|")
    | none => ""
  let ns := String.join (π.map fun k =>
    s!"\\t{k}" ++ (match attrN t k (nodeVal st k) with | some a => " " ++ fmtAttr a | none => "") ++ "|")
  let es := String.join ((dotEdges (iterAdj st) π).map fun (u, v, e) =>
    s!"\\t{u} -> {v}" ++ (match attrE t e with | some a => " " ++ fmtAttr a | none => "") ++ "|")
  "digraph {|" ++ g ++ ns ++ es ++ "}"

def showDoc (d : List (Nat × Int) × List (Nat × Nat × Nat)) : String :=
  "[[" ++ ",".intercalate (d.1.map fun (k, v) => s!"[{k},{v}]") ++ "],[" ++
    ",".intercalate (d.2.map fun (u, v, e) => s!"[{u},{v},{e}]") ++ "]]"

def hexVal (c : Char) : Nat :=
  if '0' ≤ c && c ≤ '9' then c.toNat - 48 else if 'a' ≤ c && c ≤ 'f' then c.toNat - 87 else 0
/-- `x5b5d` -> `[0x5b, 0x5d]` -/
def unhex (h : String) : List Nat :=
  let rec go : List Char → List Nat
    | a :: b :: rest => (hexVal a * 16 + hexVal b) :: go rest
    | _ => []
  go (h.toList.drop 1)

def hexDigit (n : Nat) : Char := if n < 10 then Char.ofNat (48 + n) else Char.ofNat (87 + n)
def hexOf (bs : List Nat) : String := String.ofList ('x' :: bs.flatMap fun b => [hexDigit (b / 16 % 16), hexDigit (b % 16)])

/-- replace the world of the case by a rebuilt graph (slot 0) -/
def newWorld (st : St) (ns : List (Nat × Int)) (s : S) : St :=
  { st with keys := ns.map (·.1), nvals := ns, s := s, graphs := [(0, { members := ns.map (·.1) })] }

/-- `@abs=notseq | any | seq;k:v,...;u>v:e,...` -/
def parseAbs (toks : List String) : Option (Option (List (Nat × Int) × List (Nat × Nat × Nat))) :=
  match toks.find? (fun t => t.startsWith "@abs=") with
  | none => none
  | some t =>
    let body := (t.drop 5).toString
    if body == "notseq" || body == "any" then some none else
    match body.splitOn ";" with
    | ["seq", ns, es] =>
      let nodes := if ns == "" then some [] else (ns.splitOn ",").mapM fun x =>
        match x.splitOn ":" with
        | [k, v] => match k.toNat?, v.toInt? with
          | some k, some v => some (k, v)
          | _, _ => none
        | _ => none
      match nodes, parseRej (if es == "" then "-" else es) with
      | some n, some e => some (some (n, e))
      | _, _ => none
    | _ => none

def contReq (st : St) (toks : List String) : St × String :=
  let args := toks.filter (fun t => !(t.startsWith "@"))
  match args with
  | ["g.new", i] => match i.toNat? with
    | some i => (setG st i {}, "ok")
    | none => (st, "bad-op")
  | "g.sz" :: i :: _ => match i.toNat?, szAnnot toks with
    | some i, some (c0, c1, ck) => if st.fl == "sun" then (st, "unsupported") else (st, s!"sz={graphSizeof st.s c0 c1 ck (getG st i).members}")
    | _, _ => (st, "bad-op")
  | ["g.newcap", i, _n] => match i.toNat? with
    | some i => (setG st i {}, "ok")
    | none => (st, "bad-op")
  | ["g.insert", i, k] => match i.toNat?, k.toNat? with
    | some i, some k => let (g, r) := (getG st i).insert k; (setG st i g, tf r)
    | _, _ => (st, "bad-op")
  | ["g.insert_dup", i, k, _v] => match i.toNat?, k.toNat? with
    | some i, some k =>
      if (getG st i).contains k then (st, s!"false get=Some({nodeVal st k})") else (st, "skip")
    | _, _ => (st, "bad-op")
  | ["g.remove", i, k] => match i.toNat?, k.toNat? with
    | some i, some k => let (g, r) := (getG st i).remove k; (setG st i g, if r then s!"Some({k})" else "None")
    | _, _ => (st, "bad-op")
  | ["g.get", i, k] => match i.toNat?, k.toNat? with
    | some i, some k => (st, if (getG st i).contains k then s!"Some({k}:{nodeVal st k})" else "None")
    | _, _ => (st, "bad-op")
  | ["g.index", i, k] => match i.toNat?, k.toNat? with
    | some i, some k => (st, if (getG st i).contains k then s!"{k}:{nodeVal st k}" else "panic")
    | _, _ => (st, "bad-op")
  | ["g.contains", i, k] => match i.toNat?, k.toNat? with
    | some i, some k => (st, tf ((getG st i).contains k))
    | _, _ => (st, "bad-op")
  | ["g.len", i] => match i.toNat? with
    | some i => (st, toString (getG st i).len)
    | none => (st, "bad-op")
  | ["g.is_empty", i] => match i.toNat? with
    | some i => (st, tf ((getG st i).len == 0))
    | none => (st, "bad-op")
  | ["g.connect", i, u, v, e] => match i.toNat?, u.toNat?, v.toNat?, e.toNat? with
    | some i, some u, some v, some e =>
      if (getG st i).contains u && (getG st i).contains v then ({ st with s := connect st.s u v e }, "ok") else (st, "panic")
    | _, _, _, _ => (st, "bad-op")
  | ["g.to_vec", i] => match i.toNat? with
    | some i => (st, withOrder st i toks showKeys)
    | none => (st, "bad-op")
  | ["g.iter", i] => match i.toNat? with
    | some i => (st, withOrder st i toks fun π => "[" ++ ",".intercalate (π.map fun k => s!"{k}:{nodeVal st k}") ++ "]")
    | none => (st, "bad-op")
  | ["g.roots", i] => match i.toNat? with
    | some i => (st, withOrder st i toks fun π => showKeys (rootsOf st.s π))
    | none => (st, "bad-op")
  | ["g.leaves", i] => match i.toNat? with
    | some i => (st, withOrder st i toks fun π => showKeys (leavesOf st.s π))
    | none => (st, "bad-op")
  | ["g.orphans", i] => match i.toNat? with
    | some i => (st, withOrder st i toks fun π => showKeys (orphansOf st.s π))
    | none => (st, "bad-op")
  | ["g.scc", i] => match i.toNat? with
    | some i =>
      if !st.directed then (st, "unsupported") else
      (st, withOrder st i toks fun π =>
        match scc (outAdj st.s) (inAdj st.s) π (st.keys.length + 2) with
        | none => "out-of-fuel"
        | some cs => "[" ++ ",".intercalate (cs.map showKeys) ++ "]")
    | none => (st, "bad-op")
  | ["g.to_dot", i] => match i.toNat? with
    | some i => (st, withOrder st i toks (toDot st))
    | none => (st, "bad-op")
  | ["g.to_dot_attr", i, t] => match i.toNat?, t.toNat? with
    | some i, some t => if st.fl == "sun" then (st, "unsupported") else (st, withOrder st i toks (toDotAttr st t))
    | _, _ => (st, "bad-op")
  | ["g.ser", i, _fmt] => match i.toNat? with
    | some i => (st, withOrder st i toks fun π => showDoc (decompose st.s (nodeVal st) π))
    | none => (st, "bad-op")
  | ["g.serraw", i, "json"] => match i.toNat? with
    -- the bytes `serde_json::to_vec` writes, from the byte-level model
    | some i => (st, withOrder st i toks fun π => String.ofList ((Json.serJson st.s (nodeVal st) π).map Char.ofNat))
    | none => (st, "bad-op")
  | ["g.serraw", i, "cbor"] => match i.toNat? with
    | some i => (st, withOrder st i toks fun π => hexOf (Cbor.serCbor st.s (nodeVal st) π))
    | none => (st, "bad-op")
  | ["g.roundtrip", i, _fmt] => match i.toNat? with
    | some i =>
      match orderAnnot toks with
      | none => (st, "bad-order")
      | some π =>
        if !(isOrderOf π (getG st i)) then (st, "bad-order") else
        let d := decompose st.s (nodeVal st) π
        match rebuild d.1 d.2 with
        | none => (st, "err")
        | some (ns, s) => (newWorld st ns s, "ok")
    | none => (st, "bad-op")
  | ["g.deraw", _i, "json", hex] =>
    -- raw bytes through the byte-level JSON model
    match Json.deJson (unhex hex) with
    | none => (st, "err")
    | some (ns, s) => (newWorld st ns s, s!"ok n={ns.length}")
  | ["g.deraw", _i, "cbor", hex] =>
    -- raw bytes through the byte-level CBOR model
    match Cbor.deCbor (unhex hex) with
    | none => (st, "err")
    | some (ns, s) => (newWorld st ns s, s!"ok n={ns.length}")
  | ["g.deraw", _i, _fmt, _hex] => (st, "any")
  -- round trips over a key type the model does not have (Display text and hashes collide): judged by the harness
  | ["g.rtlossy", _i, _seed] => (st, "robust")
  | ["g.rtcell", _i, _seed] => (st, "robust")
  | ["g.denest", _i, _seed] => (st, "robust")
  -- the container with text keys: a document that could be typed arrives with its keys renamed injectively to
  -- numbers (`@abs=`) and goes through the abstract deserialiser (generic in the key type); the world is not replaced
  | ["g.destr", _i, _fmt, _hex] =>
    match parseAbs toks with
    | some (some (nodes, edges)) =>
      match rebuild nodes edges with
      | none => (st, "err")
      | some (ns, s) =>
        let w := newWorld st ns s
        (st, s!"ok n={ns.length} {dump w} vals={",".intercalate (ns.map fun x => s!"{x.1}:{x.2}")}")
    | _ => (st, "robust")
  | "g.de" :: _i :: _fmt :: _doc =>
    match parseAbs toks with
    | none => (st, "bad-abs")
    | some none =>
      if toks.any (· == "@abs=notseq") then (st, "err") else (st, "any")
    | some (some (nodes, edges)) =>
      match rebuild nodes edges with
      | none => (st, "err")
      | some (ns, s) => (newWorld st ns s, s!"ok n={ns.length}")
  | _ => (st, "bad-op")

/-- `k:v=>t:e,t:e;k:v=>;...` or `-` -/
def parseListed (s : String) : Option (List ((Nat × Int) × List (Nat × Nat))) :=
  if s == "-" then some [] else
  (s.splitOn ";").mapM fun ent =>
    match ent.splitOn "=>" with
    | [kv, es] =>
      match kv.splitOn ":" with
      | [k, v] =>
        match k.toNat?, v.toInt? with
        | some k, some v =>
          let edges := if es == "" then some [] else (es.splitOn ",").mapM fun x =>
            match x.splitOn ":" with
            | [t, e] => match t.toNat?, e.toNat? with
              | some t, some e => some (t, e)
              | _, _ => none
            | _ => none
          edges.map fun l => ((k, v), l)
        | _, _ => none
      | _ => none
    | _ => none

def doMacro (st : St) (arg : String) : St × String :=
  match parseListed arg with
  | none => (st, "bad-op")
  | some listed =>
    match (macroBuild listed : MacroRes Nat Int Nat) with
    | .panic k => (st, s!"panic {k}")
    | .ok ns s => (newWorld st ns s, s!"ok n={ns.length}")

/-! ### ownership (C19) -/
def sortNat (l : List Nat) : List Nat := l.mergeSort (fun a b => a ≤ b)

/-- what `try_connect` / `disconnect` / `isolate` / a query do to the adjacency lists of the flavour -/
def ownMut (directed : Bool) (s : S) (u v : Nat) : StoreOp Nat → S
  | .tryConnect e => (if directed then Di.tryConnect s u v e else Un.tryConnect s u v e).1
  | .disconnect => (if directed then Di.disconnect s u v else Un.disconnect s u v).1
  | .isolate => (if directed then Di.isolate s u else Un.isolate s u).1
  | .query => s

def ownReq (st : St) (args : List String) : St × String :=
  let n := fun (x : String) => x.toNat?
  let op : Option (OwnOp Nat Nat) := match args with
    | ["own.new", i, k] => (n i).bind fun i => (n k).map fun k => .new i k
    | ["own.clone", a, b] => (n a).bind fun a => (n b).map fun b => .clone a b
    | ["own.drop", i] => (n i).map fun i => .drop i
    | ["own.connect", a, b, e] => (n a).bind fun a => (n b).bind fun b => (n e).map fun e => .connect a b e
    | ["own.insert", g, a] => (n g).bind fun g => (n a).map fun a => .insert g a
    | ["own.remove", g, k] => (n g).bind fun g => (n k).map fun k => .remove g k
    | ["own.get", g, k, d] => (n g).bind fun g => (n k).bind fun k => (n d).map fun d => .get g k d
    | ["own.edge", a, d] => (n a).bind fun a => (n d).map fun d => .edgeOf a d
    | ["own.path", a, t, d] => (n a).bind fun a => (n t).bind fun t => (n d).map fun d => .pathTo a t d
    | ["own.search", a, t, d] => (n a).bind fun a => (n t).bind fun t => (n d).map fun d => .searchTo a t d
    | ["own.order", a, d] => (n a).bind fun a => (n d).map fun d => .orderOf a d
    | ["own.post", a, d] => (n a).bind fun a => (n d).map fun d => .orderPost a d
    | ["own.try", a, b, e] => (n a).bind fun a => (n b).bind fun b => (n e).map fun e => .storeOp a b (.tryConnect e)
    | ["own.disc", a, b] => (n a).bind fun a => (n b).map fun b => .storeOp a b .disconnect
    | ["own.iso", a] => (n a).map fun a => .storeOp a a .isolate
    | ["own.q", a, b] => (n a).bind fun a => (n b).map fun b => .storeOp a b .query
    | ["own.find", a, k, d] => (n a).bind fun a => (n k).bind fun k => (n d).map fun d => .find a k d
    | ["own.pathk", kind, mode, a, t, d] =>
      let kd : Option Kind := if kind == "bfs" then some .bfs else if kind == "dfs" then some .dfs else none
      kd.bind fun kd => (n a).bind fun a => (n t).bind fun t => (n d).map fun d => .pathOf kd (mode == "cycle") a t d
    | _ => none
  match args, op with
  | ["own.graph", g], _ => match n g with
    | some g => let o := (st.own.setSlot g []).settle; ({ st with own := o }, s!"rel={showKeys (sortNat o.released)}")
    | none => (st, "bad-op")
  | ["own.dup", g, k, tmp, id], _ => match n g, n k, n tmp, n id with
    -- a second node with a present key is refused: the original stays, the refused node is released at once
    | some g, some k, some tmp, some id =>
      if !((st.own.slot g).contains k) then (st, "skip") else
      let sel : S → Nat → List (Nat × Nat) := if st.directed then outAdj else unAdj
      match st.own.step sel (ownMut st.directed) (.new tmp id) with
      | none => (st, "refused")
      | some o1 =>
        match o1.step sel (ownMut st.directed) (.drop tmp) with
        | none => (st, "refused")
        | some o2 => ({ st with own := o2 }, s!"rel={showKeys (sortNat o2.released)}")
    | _, _, _, _ => (st, "bad-op")
  | ["own.walk", _kind, a, _nth, g, x], _ => match n a, n g, n x with
    -- a traversal whose closure takes member `x` out of container `g`, isolates it and drops the handle: the
    -- traversal itself owns nothing once it has returned, so the history is get; remove; isolate; drop
    | some a, some g, some x =>
      let sel : S → Nat → List (Nat × Nat) := if st.directed then outAdj else unAdj
      if (st.own.slot a).length != 1 || !st.own.noDangling then (st, "refused") else
      if !((st.own.slot g).contains x) then (st, s!"rel={showKeys (sortNat st.own.released)}") else
      let tmp := 9999
      let r := [OwnOp.get g x tmp, .remove g x, .storeOp tmp tmp .isolate, .drop tmp].foldl
        (fun (o : Option (OwnSt Nat Nat)) op => o.bind fun o => o.step sel (ownMut st.directed) op) (some st.own)
      match r with
      | none => (st, "refused")
      | some o => ({ st with own := o }, s!"rel={showKeys (sortNat o.released)}")
    | _, _, _ => (st, "bad-op")
  | ["own.take", g, k, d], _ => match n g, n k, n d with
    -- `Graph::remove` hands back the node: the handle moves from the container to slot `d` (get, then remove)
    | some g, some k, some d =>
      let sel : S → Nat → List (Nat × Nat) := if st.directed then outAdj else unAdj
      match st.own.step sel (ownMut st.directed) (.get g k d) with
      | none => (st, "refused")
      | some o1 =>
        match o1.step sel (ownMut st.directed) (.remove g k) with
        | none => (st, "refused")
        | some o2 => ({ st with own := o2 }, s!"rel={showKeys (sortNat o2.released)}")
    | _, _, _ => (st, "bad-op")
  | ["own.deg", i], _ => match n i with
    | some i =>
      match st.own.slot i with
      | [k] =>
        let a := st.own.s.get k
        (st, if st.directed then s!"deg={a.out.length}/{a.inn.length}" else s!"deg={a.out.length + a.inn.length}")
      | _ => (st, "deg=-")
    | none => (st, "bad-op")
  | ["own.held", i], _ => match n i with
    | some i => (st, s!"held={showKeys (sortNat (st.own.slot i).eraseDups)}")
    | none => (st, "bad-op")
  | _, none => (st, "bad-op")
  | _, some op =>
    let sel : S → Nat → List (Nat × Nat) := if st.directed then outAdj else unAdj
    match st.own.step sel (ownMut st.directed) op with
    | none => (st, "refused")
    | some o => ({ st with own := o }, s!"rel={showKeys (sortNat o.released)}")

/-! ### concurrent scenarios (C17): follow the schedule the real scheduler took -/

def iterAll (u : Nat) (sel : Adj Nat Nat → List (Nat × Nat)) : Nat → Nat → List (Nat × Nat) → Prog Nat Nat (List (Nat × Nat))
  | 0, _, acc => .done acc
  | fuel + 1, pos, acc => (Sync.iterNext u sel pos).bind fun x =>
      match x with
      | none => .done acc
      | some p => iterAll u sel fuel (pos + 1) (acc ++ [p])

def resStr : Res Nat → String
  | .unit => "ok" | .val e => s!"ok_{e}" | .notFound => "err_notfound" | .exists_ => "err_exists" | .panic => "PANIC"

/-- the lock program of one call `kind.a.b.e` with its result rendered as text -/
def callProg (directed : Bool) (c : String) : Option (Prog Nat Nat String) :=
  let p := c.splitOn "."
  let n := fun (i : Nat) => ((p.getD i "0").toNat?).getD 0
  let m := fun (q : Prog Nat Nat (Res Nat)) => q.bind fun r => .done (resStr r)
  match p.head? with
  | some "c" => some (m (Sync.connect true (n 1) (n 2) (n 3)))
  | some "t" => some (m (if directed then Sync.Di.tryConnect true (n 1) (n 2) (n 3) else Sync.Un.tryConnect true (n 1) (n 2) (n 3)))
  | some "d" => some (m (if directed then Sync.Di.disconnect true (n 1) (n 2) else Sync.Un.disconnect true (n 1) (n 2)))
  | some "x" => some (m (if directed then Sync.Di.isolate true (n 1) else Sync.Un.isolate true (n 1)))
  | some "q" => some ((if directed then Sync.Di.isConnected (n 1) (n 2) else Sync.Un.isConnected (n 1) (n 2)).bind fun b => .done (b01 b))
  | some "g" => some ((if directed then Sync.Di.outDegree (n 1) else Sync.Un.degree (n 1)).bind fun d => .done (toString d))
  | some "o" => some ((if directed then Sync.Di.isOrphan (n 1) else Sync.Un.isOrphan (n 1)).bind fun b => .done (b01 b))
  | some "n" => some ((Sync.Di.inDegree (n 1)).bind fun d => .done (toString d))
  | some "r" => some ((Sync.query (n 1) (fun a => a.inn.isEmpty)).bind fun b => .done (b01 b))
  | some "l" => some ((Sync.query (n 1) (fun a => a.out.isEmpty)).bind fun b => .done (b01 b))
  | some "f" => some ((Sync.query (n 1) (fun a => hasKey a.inn (n 2))).bind fun b => .done (b01 b))
  | some "F" => some ((Sync.query (n 1) (fun a => if directed then hasKey a.out (n 2) else hasKey a.out (n 2) || hasKey a.inn (n 2))).bind fun b => .done (b01 b))
  | some "i" => some ((iterAll (n 1) (if directed then (·.out) else fun a => a.out ++ a.inn) 64 0 []).bind fun l => .done (showList l))
  -- traversals running concurrently with mutators: B/D = bfs/dfs search for key b from a, T = the same transposed, P = preorder
  -- a node that exists only in the calling thread is made / its only handle dropped: no lock event, no store change
  | some "m" => some (.done "ok")
  | some "k" => some (.done "ok")
  | some "B" => some ((Sync.bfsProg (if directed then (·.out) else fun a => a.out ++ a.inn) (some (n 2)) 4096 none [n 1] [n 1]).bind fun r => .done (showOpt r))
  | some "D" => some ((Sync.dfsProg (if directed then (·.out) else fun a => a.out ++ a.inn) (some (n 2)) 4096 [(n 1, 0)] [n 1]).bind fun r => .done (showOpt r))
  | some "T" => some ((Sync.bfsProg (·.inn) (some (n 2)) 4096 none [n 1] [n 1]).bind fun r => .done (showOpt r))
  | some "P" => some ((Sync.preProg (if directed then (·.out) else fun a => a.out ++ a.inn) 4096 [(n 1, 0)] [n 1] [n 1]).bind fun l => .done (showKeys l))
  | _ => none

def atRequest {R : Type} (p : Prog Nat Nat R) : Bool := match p with | .acq _ _ _ => true | _ => false
def isDone {R : Type} (p : Prog Nat Nat R) : Bool := match p with | .done _ => true | _ => false

/-- run thread `t` until it is about to request a lock or is finished -/
def runToRequest {R : Type} : Nat → Conf Nat Nat R → Nat → Conf Nat Nat R
  | 0, c, _ => c
  | fuel + 1, c, t =>
    match c.threads[t]? with
    | none => c
    | some th =>
      if atRequest th.prog || isDone th.prog then c else
      match c.step t with
      | none => c
      | some c' => runToRequest fuel c' t

/-- one scheduling decision: the chosen thread starts (up to its first request), or takes the lock it
    waits for and runs on to its next request. `none` = the model cannot follow this decision. -/
def decision {R : Type} (c : Conf Nat Nat R) (started : List Nat) (t : Nat) : Option (Conf Nat Nat R × List Nat) :=
  if !(started.contains t) then some (runToRequest 4096 c t, t :: started) else
  match c.threads[t]? with
  | none => none
  | some th =>
    if isDone th.prog then none else
    match c.step t with
    | none => none
    | some c' => some (runToRequest 4096 c' t, started)

def followSched {R : Type} : List Nat → Conf Nat Nat R → List Nat → Option (Conf Nat Nat R)
  | [], c, _ => some c
  | t :: rest, c, started =>
    match decision c started t with
    | none => none
    | some (c', st') => followSched rest c' st'

def doConc (st : St) (toks : List String) : St × String :=
  let args := toks.filter (fun t => !(t.startsWith "@"))
  let sched : Option (List Nat) := match toks.find? (fun t => t.startsWith "@sched=") with
    | none => none
    | some t => let b := (t.drop 7).toString; if b == "" then some [] else (b.splitOn ",").mapM (·.toNat?)
  match args, sched with
  | ["conc", spec], some sched =>
    let threads := (spec.splitOn "|").map fun t => ((t.splitOn "/").filter (· != "")).mapM (callProg st.directed)
    match threads.mapM id with
    | none => (st, "bad-op")
    | some ths =>
      let c0 : Conf Nat Nat (List String) := { store := st.s, threads := ths.map fun ps => { prog := seqProg ps } }
      match followSched sched c0 [] with
      | none => (st, "model-cannot-follow")
      | some c =>
        if c.threads.all (fun t => isDone t.prog) then
          let res := ";".intercalate (c.threads.map fun t => match t.prog with | .done rs => "+".intercalate rs | _ => "?")
          let st' := { st with s := c.store }
          (st', s!"res={res} dump={dump st'}")
        else (st, "model-unfinished")
  | _, _ => (st, "bad-op")

/-! ### live loops (C20): scripts run from inside iterators and callbacks -/

structure ScriptEnt where
  at_ : Option Nat
  below : Nat
  ops : List (String × Nat × Nat × Nat)

def parseScript (s : String) : List ScriptEnt :=
  if s == "-" || s == "" then [] else
  (s.splitOn ";").filterMap fun ent =>
    match ent.splitOn "=" with
    | [w, ops] =>
      let ol := ((ops.splitOn "/").filter (· != "")).map fun c =>
        let p := c.splitOn "."
        let n := fun (i : Nat) => ((p.getD i "0").toNat?).getD 0
        (p.headD "", n 1, n 2, n 3)
      if w.startsWith "*" then some { at_ := none, below := ((w.drop 1).toString.toNat?).getD 0, ops := ol }
      else some { at_ := some ((w.toNat?).getD 0), below := 0, ops := ol }
    | _ => none

def opsAt (sc : List ScriptEnt) (i : Nat) : List (String × Nat × Nat × Nat) :=
  (sc.filter fun e => e.at_ == some i || (e.at_.isNone && i < e.below)).flatMap (·.ops)

/-- one script operation against the live state; its result is appended to `sres` -/
def scriptOp (st : St) (op : String × Nat × Nat × Nat) : St :=
  let (k, a, b, e) := op
  let push := fun (st : St) (r : String) => { st with sres := st.sres ++ [r] }
  let edge := fun (r : S × Res Nat) => push { st with s := r.1 } (resStr r.2)
  match k with
  -- `hc` / `hd` / `hx`: the same mutation handed to another thread by the closure, which waits for it (sync flavours):
  -- nothing of the running loop is held while the closure runs, so it is the plain mutation
  | "c" | "hc" => push { st with s := connect st.s a b e } "ok"
  | "t" => edge (if st.directed then Di.tryConnect st.s a b e else Un.tryConnect st.s a b e)
  | "d" | "hd" => edge (if st.directed then Di.disconnect st.s a b else Un.disconnect st.s a b)
  | "x" | "hx" => edge (if st.directed then Di.isolate st.s a else Un.isolate st.s a)
  | "q" => push st (b01 (if st.directed then Di.isConnected st.s a b else Un.isConnected st.s a b))
  | "s" =>
    match searchPath (if st.directed then outAdj st.s else unAdj st.s) (fun _ _ _ => true) (nodeVal st) .bfs a (some b) false (st.keys.length + 2) with
    | some (some p, _) => push st s!"len={p.length}"
    | some (none, _) => push st "none"
    | none => push st "out-of-fuel"
  | "sd" | "sp" | "st" =>
    -- another traversal started from inside a running one: dfs, pfs-min, transposed dfs (undirected: plain dfs)
    let adj := if !st.directed then unAdj st.s else if k == "st" then inAdj st.s else outAdj st.s
    let kd : Kind := if k == "sp" then .pfsMin else .dfs
    match searchPath adj (fun _ _ _ => true) (nodeVal st) kd a (some b) false (st.keys.length + 2) with
    | some (some p, _) => push st s!"len={p.length}"
    | some (none, _) => push st "none"
    | none => push st "out-of-fuel"
  | "so" =>
    match orderNodes (if st.directed then outAdj st.s else unAdj st.s) (fun _ _ _ => true) false a (st.keys.length + 2) with
    | some (ns, _) => push st s!"len={ns.length}"
    | none => push st "out-of-fuel"
  | "gi" => let (g, r) := (getG st 0).insert a; push (setG st 0 g) (tf r)
  | "gr" => let (g, r) := (getG st 0).remove a; push (setG st 0 g) (if r then s!"Some({a})" else "None")
  | _ => push st "bad"

def liveFuel : Nat := 4000

def doIter (st : St) (which u script : String) (over : Bool := false) : St × String :=
  match u.toNat? with
  | none => (st, "bad-op")
  | some u =>
    let sc := parseScript script
    let sel : St → Nat → List (Nat × Nat) := fun st k =>
      if !st.directed then unAdj st.s k else if which == "in" then inAdj st.s k else outAdj st.s k
    let cbf : Nat → Edge Nat Nat → St → St × Bool := fun i _ st => ((opsAt sc i).foldl scriptOp st, true)
    let c : LCfg St Nat Nat := ⟨sel, cbf, none⟩
    match iterLoop c u 301 0 { st with sres := [] } [] with
    | none => (st, "hang")
    | some (st', log) =>
      let ys := log.map fun x => if st.directed && which == "in" then (x.1.2.1, x.1.1, x.1.2.2) else x.1
      -- a second iterator over the same list was stepped once before the loop (or sent past the end with `nth`: `over`)
      -- and is drained now: an iterator is a position, it goes on from there in the list as it is now
      let l0 := sel st u
      let p := if over then l0.length else (if l0.isEmpty then 0 else 1)
      let rest := ((sel st' u).drop p).map fun (k, e) => if st.directed && which == "in" then (k, u, e) else (u, k, e)
      ({ st' with sres := [] }, s!"yield={showEdges ys} res=[{",".intercalate st'.sres}] it2={showEdges rest}")

/-- a search / ordering whose closure runs a script (C20) -/
def doLiveSearch (st : St) (isOrder : Bool) (kind dir root target method mode : String) : St × String :=
  match method.splitOn "@" with
  | [m, script] =>
    match root.toNat?, parseMethod m with
    | some r, some (acc, _) =>
      let sc := parseScript script
      let sel : Option (St → Nat → List (Nat × Nat)) :=
        if !st.directed then (if dir == "fwd" then some (fun st k => unAdj st.s k) else none)
        else if dir == "fwd" || dir == "default" then some (fun st k => outAdj st.s k)
        else if dir == "tr" then some (fun st k => inAdj st.s k) else none
      match sel with
      | none => (st, "bad-op")
      | some adj =>
        let cb : Nat → Edge Nat Nat → St → St × Bool := fun i e st => ((opsAt sc i).foldl scriptOp st, acc e.1 e.2.1 e.2.2)
        let st0 := { st with sres := [] }
        let fin := fun (st' : St) (body : String) (log : Log St Nat Nat) =>
          ({ st' with sres := [] }, s!"{body} trace={showEdges (log.map (·.1))} res=[{",".intercalate st'.sres}]")
        if isOrder then
          match orderEdgesL adj cb (kind == "post") r liveFuel st0 with
          | none => (st, "out-of-fuel")
          | some (ts, st') =>
            let tgs := ts.tree.map (fun x => x.2.1)
            if mode == "nodes" then fin st' s!"nodes={showKeys (if kind == "post" then tgs ++ [r] else r :: tgs)}" ts.log
            else fin st' s!"edges={showEdges ts.tree}" ts.log
        else
          match parseKind kind with
          | none => (st, "bad-op")
          | some k =>
            let tgt : Option Nat := target.toNat?
            match runLoopL adj cb (nodeVal st) k r tgt (mode == "cycle") liveFuel st0 with
            | none => (st, "out-of-fuel")
            | some (found, ts, st') =>
              if mode == "node" then
                let res : Option Nat := if !found then none else
                  match k with
                  | .bfs | .dfs => tgt
                  | _ => ((backtrack ts.tree).getLast?).map (·.2.1)
                fin st' s!"node={showOpt res}" ts.log
              else if found then
                let p := backtrack ts.tree
                fin st' (showPath p) ts.log
              else fin st' "path=None" ts.log
    | _, _ => (st, "bad-op")
  | _ => (st, "bad-op")

def stripVia (line : String) : String :=
  match line.splitOn " #" with
  | h :: _ => h
  | [] => line

def edgeRes (st : St) (r : S × Res Nat) : St × String :=
  ({ st with s := r.1 }, showRes r.2)

def showTok (t : Tok Nat) : String :=
  let m := match t.2.1 with | .r => "R" | .w => "W"
  let l := match t.1 with | .node k => toString k | .mutex => "m"
  s!"{m}{l}@{t.2.2}"

/-- the lock requests the sync flavour makes for this call, from the lock program run alone on the current store -/
def lockTrace (st : St) (op : Op Nat Nat) (line : String) : String :=
  if st.fl != "sdi" && st.fl != "sun" then "" else
  if (line.splitOn " #via=").length > 1 && !((line.splitOn " #via=").getD 1 "").startsWith "clone" then "" else
  let p := if st.directed then Sync.Di.prog true op else Sync.Un.prog true op
  match runSingle 100000 p st.s [] [] with
  | some (_, _, tr) => ",".intercalate (tr.map showTok)
  | none => "blocked"

def step (st : St) (line : String) : St × String :=
  match (stripVia line.trimAscii.toString).splitOn " " with
  | "case" :: fl :: _ =>
    -- `w…` / `z…` flavours: the same code instantiated with a key type whose hashes collide resp. with zero-sized
    -- node and edge values (programs of the latter only use the value 0); the model has neither hashes nor sizes
    let fl' := if fl.startsWith "w" || fl.startsWith "z" || fl.startsWith "f" then (fl.drop 1).toString else fl
    ({ directed := fl' == "di" || fl' == "sdi", fl := fl' }, "case")
  | ["new", k, v] => match k.toNat?, v.toInt? with
    | some k, some v => ({ st with keys := st.keys ++ [k], nvals := st.nvals ++ [(k, v)] }, "ok")
    | _, _ => (st, "bad-op")
  | ["connect", u, v, e] => match u.toNat?, v.toNat?, e.toNat? with
    | some u, some v, some e => ({ st with s := connect st.s u v e, lastLt := lockTrace st (.connect u v e) line }, "ok")
    | _, _, _ => (st, "bad-op")
  | ["try_connect", u, v, e] => match u.toNat?, v.toNat?, e.toNat? with
    | some u, some v, some e =>
      edgeRes { st with lastLt := lockTrace st (.tryConnect u v e) line } (if st.directed then Di.tryConnect st.s u v e else Un.tryConnect st.s u v e)
    | _, _, _ => (st, "bad-op")
  | ["disconnect", u, v] => match u.toNat?, v.toNat? with
    | some u, some v =>
      edgeRes { st with lastLt := lockTrace st (.disconnect u v) line } (if st.directed then Di.disconnect st.s u v else Un.disconnect st.s u v)
    | _, _ => (st, "bad-op")
  | ["isolate", u] => match u.toNat? with
    | some u => edgeRes { st with lastLt := lockTrace st (.isolate u) line } (if st.directed then Di.isolate st.s u else Un.isolate st.s u)
    | none => (st, "bad-op")
  | ["lt"] => (st, s!"lt={st.lastLt}")
  -- priority-first traversals over node values that the closure changes: the heap's behaviour is unspecified, the request
  -- is judged by the harness (C07 oracle, C15 differential) and skipped by the line comparison
  | "pfsmut" :: _ => (st, "unmodelled")
  | ["dump"] => (st, dump st)
  | ["obs", u] => match u.toNat? with
    | some u => (st, obs st u)
    | none => (st, "bad-op")
  | ["q", u, v] => match u.toNat?, v.toNat? with
    | some u, some v => (st, query st u v)
    | _, _ => (st, "bad-op")
  | ["search", kind0, dir0, root, target0, method, mode] =>
    let (kind, dir, target) := viaBuilder st.directed kind0 dir0 target0
    if method.contains '@' then doLiveSearch st false kind dir root target method mode
    else if mode.contains '+' then doSearchStages st kind dir root target method (mode.splitOn "+")
    else (st, doSearch st kind dir root target method mode)
  | ["order", kind, dir, root, method, mode] =>
    if method.contains '@' then doLiveSearch st true kind dir root "-" method mode
    else if mode.contains '+' then (st, doOrderStages st kind dir root method (mode.splitOn "+"))
    else (st, doOrder st kind dir root method mode)
  -- `fold`: the loop is driven by the iterator's internal iteration (`for_each`): the same sequence of `next` calls;
  -- `over`: the second, suspended iterator was sent past the end of the list with `nth` first
  | "iter" :: which :: u :: script :: flags => doIter st which u script (flags.contains "over")
  | ["macro", arg] => doMacro st arg
  | ["cmp", k1, v1, k2, v2] => match k1.toNat?, v1.toInt?, k2.toNat?, v2.toInt? with
    | some k1, some v1, some k2, some v2 => (st, doCmp k1 v1 k2 v2)
    | _, _, _, _ => (st, "bad-op")
  | ["ecmp", u, i, v, j] => match u.toNat?, i.toNat?, v.toNat?, j.toNat? with
    | some u, some i, some v, some j =>
      match (iterAdj st u)[i]?, (iterAdj st v)[j]? with
      | some (t1, e1), some (t2, e2) => if st.fl == "sdi" then (st, "unsupported") else (st, doEcmp st.directed (u, t1, e1) (v, t2, e2))
      | _, _ => (st, "none")
    | _, _, _, _ => (st, "bad-op")
  | "sz" :: u :: rest => match u.toNat?, szAnnot rest with
    | some u, some (c0, c1, _) => (st, s!"sz={nodeSizeof st.s c0 c1 u}")
    | _, _ => (st, "bad-op")
  | ["nv", u] => match u.toNat? with
    | some u => (st, s!"key={u} val={nodeVal st u} deref={nodeVal st u}")
    | none => (st, "bad-op")
  | "conc" :: rest => doConc st ("conc" :: rest)
  | t :: rest => if t.startsWith "g." then contReq st (t :: rest) else if t.startsWith "own." then ownReq st (t :: rest) else (st, "bad-op")
  | _ => (st, "bad-op")

partial def loop (h : IO.FS.Stream) (out : IO.FS.Stream) (st : St) : IO Unit := do
  let line ← h.getLine
  if line.isEmpty then return ()
  let (st', o) := step st line
  out.putStrLn o
  loop h out st'

def main : IO Unit := do
  let out ← IO.getStdout
  loop (← IO.getStdin) out {}

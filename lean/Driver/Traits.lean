import GdslModel.Gen.Traits
/-! Line-protocol driver for C16: `<flavour> <Type> <k> <n> <e>` → `send=<0|1> sync=<0|1>`
    (capabilities: both | send | sync | none), evaluated on the tables regenerated from the sources. -/
open G.Traits

def caps : String → Option Caps
  | "both" => some ⟨true, true, true⟩ | "send" => some ⟨true, false, true⟩
  | "sync" => some ⟨false, true, true⟩ | "none" => some ⟨false, false, true⟩
  | "borrowed" => some ⟨true, true, false⟩   -- Send + Sync but not 'static (a reference)
  | _ => none
def table : String → Option (List Def)
  | "digraph" => some Gen.digraph | "sync_digraph" => some Gen.sync_digraph
  | "ungraph" => some Gen.ungraph | "sync_ungraph" => some Gen.sync_ungraph | _ => none
def tyIdx : String → Option Nat
  | "Node" => some iNode | "Edge" => some iEdge | "Graph" => some iGraph | "WeakNode" => some iWeakNode | _ => none
def b01 (b : Bool) : String := if b then "1" else "0"

def answer (line : String) : String :=
  match line.trimAscii.toString.splitOn " " with
  | [fl, ty, k, n, e] =>
    match table fl, tyIdx ty, caps k, caps n, caps e with
    | some d, some i, some k, some n, some e =>
      s!"{fl} {ty} {line.trimAscii.toString.splitOn " " |>.drop 2 |> " ".intercalate} send={b01 (verdict d i .send k n e)} sync={b01 (verdict d i .sync k n e)}"
    | _, _, _, _, _ => "bad-op"
  | _ => "bad-op"

partial def loop (h : IO.FS.Stream) (out : IO.FS.Stream) : IO Unit := do
  let line ← h.getLine
  if line.isEmpty then return ()
  out.putStrLn (answer line)
  loop h out

def main : IO Unit := do loop (← IO.getStdin) (← IO.getStdout)

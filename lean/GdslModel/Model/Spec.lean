import GdslModel.Model.Store
/-!
# Specification vocabulary shared by the property theorems (core Lean only)
-/
namespace G
variable {K E : Type} [DecidableEq K]

/-- C01/C02: for every ordered pair `(a, b)` the values `a` stores towards `b` (in list order)
    are the values `b` stores as coming from `a`. One equation gives multiplicity *and*
    relative order per pair and per value. For the undirected flavours this is the symmetry
    invariant: the half-edge `a` created towards `b` is `b`'s inbound half from `a`. -/
def Mirror (s : Store K E) : Prop := ∀ a b, vals (s.get a).out b = vals (s.get b).inn a

/-- outgoing adjacency of the directed flavours -/
def outAdj (s : Store K E) : K → List (K × E) := fun u => (s.get u).out
/-- incoming adjacency (what `transpose()` walks) -/
def inAdj (s : Store K E) : K → List (K × E) := fun u => (s.get u).inn
/-- what an undirected node iterates: outbound halves, then inbound halves -/
def unAdj (s : Store K E) : K → List (K × E) := fun u => (s.get u).out ++ (s.get u).inn

/-- remove the first entry with key `k`, as a pure list function (specification side) -/
def eraseKey (l : List (K × E)) (k : K) : List (K × E) := l.eraseP (fun p => p.1 = k)
/-- drop every entry with key `k` -/
def dropKey (l : List (K × E)) (k : K) : List (K × E) := l.filter (fun p => ¬ (p.1 = k))

end G

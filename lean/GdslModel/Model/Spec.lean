import GdslModel.Model.Store
import GdslModel.Model.Search
/-!
# Specification vocabulary shared by the property theorems (core Lean only)
-/
namespace G
variable {K E : Type} [DecidableEq K]

/-- C01/C02: for every ordered pair `(a, b)` the values `a` stores towards `b` (in list order)
    are the values `b` stores as coming from `a`. One equation gives multiplicity *and*
    relative order per pair and per value. For the undirected flavours this is the symmetry
    invariant: the half-edge `a` created towards `b` is `b`'s inbound half from `a`. -/
def Mirror (s : Store K E) : Prop := ∀ a b, vals (s.get a).out b = vals (s.get b).inn a

/-- outgoing adjacency of the directed flavours -/
def outAdj (s : Store K E) : K → List (K × E) := fun u => (s.get u).out
/-- incoming adjacency (what `transpose()` walks) -/
def inAdj (s : Store K E) : K → List (K × E) := fun u => (s.get u).inn
/-- what an undirected node iterates: outbound halves, then inbound halves -/
def unAdj (s : Store K E) : K → List (K × E) := fun u => (s.get u).out ++ (s.get u).inn

/-- remove the first entry with key `k`, as a pure list function (specification side) -/
def eraseKey (l : List (K × E)) (k : K) : List (K × E) := l.eraseP (fun p => p.1 = k)
/-- drop every entry with key `k` -/
def dropKey (l : List (K × E)) (k : K) : List (K × E) := l.filter (fun p => ¬ (p.1 = k))

end G

/-! ## Graph-theoretic vocabulary for the traversal properties -/
namespace G
variable {K E : Type} [DecidableEq K]

/-- the graph of accepted edges: what a pure filter leaves of the iterated lists -/
def accAdj (adj : K → List (K × E)) (acc : K → K → E → Bool) : K → List (K × E) :=
  fun u => (adj u).filter (fun p => acc u p.1 p.2)

/-- the edges a node's iterator yields, as `(node, peer, value)` -/
def edgesOf (adj : K → List (K × E)) (u : K) : List (Edge K E) := (adj u).map (fun p => (u, p.1, p.2))

inductive Reach (adj : K → List (K × E)) : K → K → Prop where
  | refl (a : K) : Reach adj a a
  | step {a b c : K} {e : E} : Reach adj a b → (c, e) ∈ adj b → Reach adj a c

/-- a walk: every edge `(b, c, e)` is an element (with its value) of `b`'s list, edges are joined end to start -/
inductive Walk (adj : K → List (K × E)) : K → K → List (Edge K E) → Prop where
  | nil (a : K) : Walk adj a a []
  | snoc {a b c : K} {e : E} {p : List (Edge K E)} :
      Walk adj a b p → (c, e) ∈ adj b → Walk adj a c (p ++ [(b, c, e)])

/-- a path of one or more existing edges from `r` to `t` -/
def IsPath (adj : K → List (K × E)) (r t : K) (p : List (Edge K E)) : Prop := p ≠ [] ∧ Walk adj r t p

/-- a finite universe closed under the edges (needed for termination only) -/
def Closed (adj : K → List (K × E)) (nodes : List K) : Prop := ∀ u ∈ nodes, ∀ p ∈ adj u, p.1 ∈ nodes

/-- consecutive edges are joined end to start, from `a` to `b` (no graph involved) -/
inductive Chain : K → K → List (Edge K E) → Prop where
  | nil (a : K) : Chain a a []
  | snoc {a b c : K} {e : E} {p : List (Edge K E)} : Chain a b p → Chain a c (p ++ [(b, c, e)])

/-- `a` occurs strictly before `b` in `l` -/
def Before (l : List K) (a b : K) : Prop := ∃ l1 l2, l = l1 ++ a :: l2 ∧ b ∈ l2

end G

namespace G
variable {K E : Type} [DecidableEq K]

/-- the target a run looks for: the root itself for `search_cycle`, the configured target otherwise -/
def goal (root : K) (target : Option K) (cycle : Bool) : Option K := if cycle then some root else target

/-- discovery trees: every edge's source is the root or the target of an earlier edge -/
inductive DTree (r : K) : List (Edge K E) → Prop where
  | nil : DTree r []
  | snoc {t : List (Edge K E)} {u v : K} {e : E} :
      DTree r t → (u = r ∨ ∃ x ∈ t, x.2.1 = u) → DTree r (t ++ [(u, v, e)])

/-- A depth-first traversal of graph `A`, non-deterministic in the order in which a node's edges
    are tried: `Dfs A vis u disc fin vis'` = continuing at `u` (already visited) with visited set
    `vis`, the traversal discovers `disc` (in this order) and finishes `fin` (in this order, `u`
    last), ending with visited set `vis'`. -/
inductive Dfs (A : K → List (K × E)) : List K → K → List K → List K → List K → Prop where
  | finish {vis : List K} {u : K} : (∀ p ∈ A u, p.1 ∈ vis) → Dfs A vis u [] [u] vis
  | descend {vis vis1 vis2 : List K} {u v : K} {e : E} {d1 f1 d2 f2 : List K} :
      (v, e) ∈ A u → v ∉ vis → Dfs A (v :: vis) v d1 f1 vis1 → Dfs A vis1 u d2 f2 vis2 →
      Dfs A vis u (v :: d1 ++ d2) (f1 ++ f2) vis2

/-- binary max-heap order on a list (children of `i` are `2i+1`, `2i+2`) -/
def IsHeap {α : Type} (key : α → Int) (d : List α) : Prop :=
  ∀ i, 0 < i → ∀ (h : i < d.length), key d[i] ≤ key (d[(i - 1) / 2]'(by omega))

/-- `pfsLoop` instrumented with a ghost log: for every expansion, the popped element and the
    heap contents that stayed pending at that moment. Erases to `pfsLoop` (`Pfs.log_erases`). -/
def pfsLoopLog (c : Cfg K E) (prio : K → Int) :
    Nat → List (K × Int) → TSt K E → List ((K × Int) × List (K × Int)) →
    Option (Bool × TSt K E × List ((K × Int) × List (K × Int)))
  | 0, _, _, _ => none
  | fuel + 1, h, st, log =>
    match heapPop (·.2) h with
    | none => some (false, st, log)
    | some ((u, pu), h') =>
      match pfsScan c prio u (c.adj u) st h' with
      | (true, st', _) => some (true, st', log ++ [((u, pu), h')])
      | (false, st', h'') => pfsLoopLog c prio fuel h'' st' (log ++ [((u, pu), h')])

/-- exchange the two lists of every node: the edge-reversed store -/
def swapStore (s : Store K E) : Store K E :=
  ⟨s.cells.map (fun p => (p.1, { out := p.2.inn, inn := p.2.out }))⟩

/-- `Edge` comparison as the code has it. digraph: `==` compares the two endpoints (node equality is key equality)
    and ignores the value; ungraph / sync_ungraph: `==` compares the values and ignores the endpoints; in all
    three `cmp`, `partial_cmp`, `<` compare the values. (sync_digraph has no `Edge` comparison. In digraph `==`
    is therefore not the equivalence of the order - recorded in DESIGN.md as an observation, no property covers it.) -/
def edgeEq (directed : Bool) (a b : K × K × Int) : Bool :=
  if directed then a.1 = b.1 && a.2.1 = b.2.1 else a.2.2 = b.2.2
def edgeCmp (a b : K × K × Int) : Ordering := compare a.2.2 b.2.2

/-- `Node::sizeof` as the code computes it: a fixed part, plus the *number* of incoming entries, plus the number of
    outgoing entries times the size of one entry (`inbound.len() + outbound.len() * entry + fixed`; the incoming
    length is not multiplied - that is what the code says) -/
def nodeSizeof (s : Store K E) (c0 c1 : Nat) (k : K) : Nat :=
  (s.get k).inn.length + (s.get k).out.length * c1 + c0
/-- `Graph::sizeof`: the members' sizes plus one key each -/
def graphSizeof (s : Store K E) (c0 c1 ck : Nat) (members : List K) : Nat :=
  (members.map fun k => nodeSizeof s c0 c1 k + ck).sum

end G

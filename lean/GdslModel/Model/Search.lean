import GdslModel.Model.Store
/-!
# Model of the traversals (`src/*/node/algo/{bfs,dfs,pfs,order,path,method}.rs`)

Core Lean only. A traversal sees the graph through `adj : K → List (K × E)`, the list the
node iterator yields for a node: the outgoing list (`iter_out`), the incoming list with the
edge reversed (`iter_in` + `Edge::reverse`, i.e. `transpose()`), or `out ++ inn` (undirected
`iter`). In all three cases the edge handed to the closure and recorded in the edge tree is
`(node, peer, value)`.

`acc u v e` is the result of `Method::exec` on that edge (`true` for `Empty` and `ForEach`,
the predicate for `Filter`); every edge handed to `exec` is appended to `trace`, in order.
The control flow (when `exec` is called, when a node is marked visited, when the edge is
pushed, when the target test happens, what is pushed on the frontier) follows the Rust loops
statement by statement. Loops that are `while`/recursive in Rust take a fuel argument;
`none` means the fuel ran out (never with fuel > number of nodes, see `Lemmas`).
-/
namespace G
variable {K E : Type} [DecidableEq K]

structure Cfg (K E : Type) where
  adj : K → List (K × E)
  acc : K → K → E → Bool
  target : Option K

/-- traversal state: visited keys, edge tree (discovery order), callback trace -/
structure TSt (K E : Type) where
  vis : List K := []
  tree : List (Edge K E) := []
  trace : List (Edge K E) := []

/-! ## `backtrack_edge_tree` (after the repair of F3) and `Path` -/

/-- the `for edge in edge_tree.iter().rev().skip(1)` loop; `cur` is `path[i]`, `acc` the path so far
    (kept in forward order: the code pushes and reverses at the end) -/
def backLoop : List (Edge K E) → Edge K E → List (Edge K E) → List (Edge K E)
  | [], _, acc => acc
  | e :: rest, cur, acc => if cur.1 = e.2.1 then backLoop rest e (e :: acc) else backLoop rest cur acc

/-- `Path::from_edge_tree`. The Rust code `unwrap`s the last edge; it is only called on a non-empty tree. -/
def backtrack (tree : List (Edge K E)) : List (Edge K E) :=
  match tree.reverse with
  | [] => []
  | w :: rest => backLoop rest w [w]

/-- `Path::to_vec_nodes` / `iter_nodes`: source of the first edge, then every target -/
def pathNodes : List (Edge K E) → List K
  | [] => []
  | (u, v, e) :: rest => u :: (((u, v, e) :: rest).map (fun x => x.2.1))

/-- `Path::first_node`: the root end of the path (after repair F15: it used to hand out the *target* of the first edge) -/
def pathFirstNode (p : List (Edge K E)) : Option K := p.head?.map (·.1)
/-- `Path::last_node`: the target of the last edge -/
def pathLastNode (p : List (Edge K E)) : Option K := p.getLast?.map (·.2.1)
/-- `Path::first_edge` / `last_edge` -/
def pathFirstEdge (p : List (Edge K E)) : Option (Edge K E) := p.head?
def pathLastEdge (p : List (Edge K E)) : Option (Edge K E) := p.getLast?

/-! ## Breadth-first search (`loop_outbound` / `loop_inbound` / `loop_adjacent`) -/

/-- the `for edge in node.iter_*()` loop for the popped node `u`; `true` = target reached -/
def bfsScan (c : Cfg K E) (u : K) : List (K × E) → TSt K E → List K → Bool × TSt K E × List K
  | [], st, q => (false, st, q)
  | (v, e) :: rest, st, q =>
    let st := { st with trace := st.trace ++ [(u, v, e)] }
    if c.acc u v e then
      if v ∈ st.vis then bfsScan c u rest st q
      else
        let st := { st with vis := v :: st.vis, tree := st.tree ++ [(u, v, e)] }
        if c.target = some v then (true, st, q)
        else bfsScan c u rest st (q ++ [v])
    else bfsScan c u rest st q

/-- `while let Some(node) = queue.pop_front()` -/
def bfsLoop (c : Cfg K E) : Nat → List K → TSt K E → Option (Bool × TSt K E)
  | 0, _, _ => none
  | _ + 1, [], st => some (false, st)
  | fuel + 1, u :: q, st =>
    match bfsScan c u (c.adj u) st q with
    | (true, st', _) => some (true, st')
    | (false, st', q') => bfsLoop c fuel q' st'

/-! ## Depth-first search (`recurse_outbound` / `recurse_inbound` / `recurse_adjacent`) -/

/-- the `for` loop of one recursive call for node `u` over its remaining edges -/
def dfsEdges (c : Cfg K E) : Nat → K → List (K × E) → TSt K E → Option (Bool × TSt K E)
  | _, _, [], st => some (false, st)
  | 0, _, _ :: _, _ => none
  | fuel + 1, u, (v, e) :: rest, st =>
    let st := { st with trace := st.trace ++ [(u, v, e)] }
    if c.acc u v e then
      if v ∈ st.vis then dfsEdges c (fuel + 1) u rest st
      else
        let st := { st with vis := v :: st.vis, tree := st.tree ++ [(u, v, e)] }
        if c.target = some v then some (true, st)
        else
          match dfsEdges c fuel v (c.adj v) st with
          | none => none
          | some (true, st') => some (true, st')
          | some (false, st') => dfsEdges c (fuel + 1) u rest st'
    else dfsEdges c (fuel + 1) u rest st
termination_by fuel _ l => (fuel, l.length)

/-! ## Priority-first search: `std::collections::BinaryHeap` transcribed (swap formulation) -/

def swap {α : Type} (d : List α) (i j : Nat) : List α :=
  match d[i]?, d[j]? with
  | some a, some b => (d.set i b).set j a
  | _, _ => d

theorem swap_length {α : Type} (d : List α) (i j : Nat) : (swap d i j).length = d.length := by
  unfold swap; split <;> simp

/-- `sift_up(0, pos)`: move the element at `pos` up while it is strictly greater than its parent -/
def siftUp {α : Type} (key : α → Int) : Nat → List α → List α
  | 0, d => d
  | pos + 1, d =>
    let parent := pos / 2
    match d[pos + 1]?, d[parent]? with
    | some x, some p => if key x ≤ key p then d else siftUp key parent (swap d (pos + 1) parent)
    | _, _ => d
termination_by pos => pos
decreasing_by omega

/-- `sift_down_to_bottom`: descend to the bottom, always promoting the greater child
    (the right child on ties); returns the final position -/
def siftDown {α : Type} (key : α → Int) (pos : Nat) (d : List α) : Nat × List α :=
  let child := 2 * pos + 1
  if h : child + 1 < d.length then
    let c := if key d[child] ≤ key d[child + 1] then child + 1 else child
    siftDown key c (swap d pos c)
  else if child + 1 = d.length then (child, swap d pos child)
  else (pos, d)
termination_by d.length - pos
decreasing_by
  all_goals simp only [swap_length]
  all_goals split <;> omega

/-- `BinaryHeap::push` -/
def heapPush {α : Type} (key : α → Int) (d : List α) (x : α) : List α :=
  siftUp key d.length (d ++ [x])

/-- `BinaryHeap::pop`: take the last element; if the heap is not empty afterwards swap it with the
    root, `sift_down_to_bottom(0)`, then `sift_up` from where it ended -/
def heapPop {α : Type} (key : α → Int) (d : List α) : Option (α × List α) :=
  match d.reverse with
  | [] => none
  | last :: revInit =>
    let init := revInit.reverse
    match init with
    | [] => some (last, [])
    | top :: rest =>
      let d1 := last :: rest
      let (pos, d2) := siftDown key 0 d1
      some (top, siftUp key pos d2)

/-- heap elements are `(key of the node, node value)`; `prio` turns the node value into the
    heap's order: identity for `max()`, negation for `min()` (`Reverse`) -/
def pfsScan (c : Cfg K E) (prio : K → Int) (u : K) :
    List (K × E) → TSt K E → List (K × Int) → Bool × TSt K E × List (K × Int)
  | [], st, h => (false, st, h)
  | (v, e) :: rest, st, h =>
    let st := { st with trace := st.trace ++ [(u, v, e)] }
    if c.acc u v e then
      if v ∈ st.vis then pfsScan c prio u rest st h
      else
        let st := { st with vis := v :: st.vis, tree := st.tree ++ [(u, v, e)] }
        if c.target = some v then (true, st, h)
        else pfsScan c prio u rest st (heapPush (·.2) h (v, prio v))
    else pfsScan c prio u rest st h

/-- `while let Some(node) = queue.pop()`; `order` records the nodes in the order they are expanded -/
def pfsLoop (c : Cfg K E) (prio : K → Int) : Nat → List (K × Int) → TSt K E → List K → Option (Bool × TSt K E × List K)
  | 0, _, _, _ => none
  | fuel + 1, h, st, order =>
    match heapPop (·.2) h with
    | none => some (false, st, order)
    | some ((u, _), h') =>
      match pfsScan c prio u (c.adj u) st h' with
      | (true, st', _) => some (true, st', order ++ [u])
      | (false, st', h'') => pfsLoop c prio fuel h'' st' (order ++ [u])

/-! ## Orderings (`preorder_*`, `postorder_*`, `recurse_preorder`, `recurse_postorder`) -/

/-- preorder: the entering edge is recorded before the recursive call -/
def preEdges (c : Cfg K E) : Nat → K → List (K × E) → TSt K E → Option (TSt K E)
  | _, _, [], st => some st
  | 0, _, _ :: _, _ => none
  | fuel + 1, u, (v, e) :: rest, st =>
    let st := { st with trace := st.trace ++ [(u, v, e)] }
    if c.acc u v e then
      if v ∈ st.vis then preEdges c (fuel + 1) u rest st
      else
        let st := { st with vis := v :: st.vis, tree := st.tree ++ [(u, v, e)] }
        match preEdges c fuel v (c.adj v) st with
        | none => none
        | some st' => preEdges c (fuel + 1) u rest st'
    else preEdges c (fuel + 1) u rest st
termination_by fuel _ l => (fuel, l.length)

/-- postorder (after the repair of F6): the entering edge is recorded when the recursive call returns -/
def postEdges (c : Cfg K E) : Nat → K → List (K × E) → TSt K E → Option (TSt K E)
  | _, _, [], st => some st
  | 0, _, _ :: _, _ => none
  | fuel + 1, u, (v, e) :: rest, st =>
    let st := { st with trace := st.trace ++ [(u, v, e)] }
    if c.acc u v e then
      if v ∈ st.vis then postEdges c (fuel + 1) u rest st
      else
        let st := { st with vis := v :: st.vis }
        match postEdges c fuel v (c.adj v) st with
        | none => none
        | some st' => postEdges c (fuel + 1) u rest { st' with tree := st'.tree ++ [(u, v, e)] }
    else postEdges c (fuel + 1) u rest st
termination_by fuel _ l => (fuel, l.length)

/-! ## The public entry points -/

inductive Kind where
  | bfs | dfs | pfsMin | pfsMax
  deriving DecidableEq, Repr

/-- result of a path-producing run: `none` = fuel exhausted (reported as such, never expected) -/
structure Run (K E : Type) where
  found : Bool
  st : TSt K E
  order : List K := []   -- expansion order (priority-first only)

/-- the common loop of `search_path` (`cycle = false`: root pre-visited) and `search_cycle`
    (`cycle = true`: target := root, root not visited) -/
def runLoop (adj : K → List (K × E)) (acc : K → K → E → Bool) (nval : K → Int) (kind : Kind)
    (root : K) (target : Option K) (cycle : Bool) (fuel : Nat) : Option (Run K E) :=
  let c : Cfg K E := { adj := adj, acc := acc, target := if cycle then some root else target }
  let st0 : TSt K E := { vis := if cycle then [] else [root] }
  match kind with
  | .bfs => (bfsLoop c fuel [root] st0).map fun (f, st) => { found := f, st := st }
  | .dfs => (dfsEdges c fuel root (adj root) st0).map fun (f, st) => { found := f, st := st }
  | .pfsMin =>
    let prio : K → Int := fun k => - nval k
    (pfsLoop c prio fuel [(root, prio root)] st0 []).map fun (f, st, o) => { found := f, st := st, order := o }
  | .pfsMax =>
    (pfsLoop c nval fuel [(root, nval root)] st0 []).map fun (f, st, o) => { found := f, st := st, order := o }

/-- `search_path()` / `search_cycle()`: the path, if the loop reported success -/
def searchPath (adj : K → List (K × E)) (acc : K → K → E → Bool) (nval : K → Int) (kind : Kind)
    (root : K) (target : Option K) (cycle : Bool) (fuel : Nat) : Option (Option (List (Edge K E)) × Run K E) :=
  (runLoop adj acc nval kind root target cycle fuel).map fun r =>
    (if r.found then some (backtrack r.st.tree) else none, r)

/-- `search()`: bfs/dfs use the `_find` twins of the loops (same control flow, no edge tree) and return
    the target node; pfs returns the last node of `search_path` -/
def searchNode (adj : K → List (K × E)) (acc : K → K → E → Bool) (nval : K → Int) (kind : Kind)
    (root : K) (target : Option K) (fuel : Nat) : Option (Option K × Run K E) :=
  (runLoop adj acc nval kind root target false fuel).map fun r =>
    match kind with
    | .bfs | .dfs => (if r.found then target else none, r)
    | _ => (if r.found then ((backtrack r.st.tree).getLast?).map (·.2.1) else none, r)

/-- `Order::search_edges` -/
def orderEdges (adj : K → List (K × E)) (acc : K → K → E → Bool) (post : Bool) (root : K) (fuel : Nat) :
    Option (TSt K E) :=
  let c : Cfg K E := { adj := adj, acc := acc, target := none }
  let st0 : TSt K E := { vis := [root] }
  if post then postEdges c fuel root (adj root) st0 else preEdges c fuel root (adj root) st0

/-- `Order::search_nodes`: root first (pre) resp. last (post) around the targets of the edge tree -/
def orderNodes (adj : K → List (K × E)) (acc : K → K → E → Bool) (post : Bool) (root : K) (fuel : Nat) :
    Option (List K × TSt K E) :=
  (orderEdges adj acc post root fuel).map fun st =>
    let ts := st.tree.map (fun x => x.2.1)
    (if post then ts ++ [root] else root :: ts, st)

end G

import GdslModel.Model.Search
/-!
# The search builders (`Bfs`, `Dfs`, `Pfs`) as configuration records

Core Lean only. `node.pfs().max().transpose().target(&k)` builds a configuration by a sequence of calls, each of
which consumes the builder and returns it with one field set; the search methods then run the loops of
`Model/Search.lean` on that configuration. A builder has no other state: nothing is kept from one search to the
next (the staged requests of the correspondence check exactly this on the real code), and the order of the
configuration calls does not matter as long as no field is set twice with different values
(`Props/C08.lean`, `Builder.order_irrelevant`).
-/
namespace G
variable {K E : Type} [DecidableEq K]

structure BCfg (K : Type) where
  tr : Bool := false          -- `transpose()`
  max : Bool := false         -- `max()` (priority-first only; `min()` is the default)
  target : Option K := none   -- `target(&k)`
  deriving DecidableEq, Repr

inductive BStep (K : Type) where
  | transpose | min | max | target (k : K)
  deriving DecidableEq, Repr

def BCfg.apply (c : BCfg K) : BStep K → BCfg K
  | .transpose => { c with tr := true }
  | .min => { c with max := false }
  | .max => { c with max := true }
  | .target k => { c with target := some k }

/-- the configuration after a sequence of builder calls on a fresh builder -/
def BCfg.build (steps : List (BStep K)) : BCfg K := steps.foldl BCfg.apply {}

/-- two calls are compatible if they are the same call or set different fields -/
def BStep.compatible : BStep K → BStep K → Bool
  | .transpose, .transpose => true
  | .min, .min => true
  | .max, .max => true
  | .target a, .target b => a = b
  | .min, .max | .max, .min => false
  | .transpose, _ | _, .transpose => true
  | .target _, _ | _, .target _ => true

/-- the search a configured builder runs: which list it follows, which kind of loop, which target -/
def BCfg.runPath (out inn : K → List (K × E)) (acc : K → K → E → Bool) (nval : K → Int) (pfs : Bool) (dfs : Bool)
    (c : BCfg K) (root : K) (cycle : Bool) (fuel : Nat) : Option (Option (List (Edge K E)) × Run K E) :=
  let kind : Kind := if pfs then (if c.max then .pfsMax else .pfsMin) else if dfs then .dfs else .bfs
  searchPath (if c.tr then inn else out) acc nval kind root c.target cycle fuel

end G

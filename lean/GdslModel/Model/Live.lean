import GdslModel.Model.Search
/-!
# Loops over a *live* graph (C20): mutation from inside edge loops and traversal callbacks

Core Lean only. `Model/Search.lean` describes traversals of a graph that does not change while
they run. Here the loops thread a program state `σ` (the store, the containers, … whatever the
callback can touch) through every call of the user closure: the node iterators keep nothing
but a position, and re-read the live adjacency list of their node at that position on every
`next()`; the traversal loops are the same control flow as in `Search.lean`, statement by
statement, with `for edge in node.iter_*()` spelled out as that positional loop.

`cb i edge st` is the user closure called with the `i`-th edge handed out (`i` counts from 0):
it may do anything to the state and returns the new state and whether the edge is accepted
(`true` for `for_each`). A plain `for … in node.iter_out() { body }` is `iterLoop` with the loop
body as `cb`. Every loop logs the edges it hands out together with the state *at that moment*.
-/
namespace G
variable {K E σ : Type} [DecidableEq K]

structure LCfg (σ K E : Type) where
  /-- the list the iterator of node `u` reads in state `st` -/
  adj : σ → K → List (K × E)
  cb : Nat → Edge K E → σ → σ × Bool
  target : Option K

/-- what a loop has handed out so far: the edge and the state in which it was read -/
abbrev Log (σ K E : Type) := List (Edge K E × σ)

/-- `for edge in node.iter_*() { cb }` : `Iterator::next` reads position `pos` of the live list -/
def iterLoop (c : LCfg σ K E) (u : K) : Nat → Nat → σ → Log σ K E → Option (σ × Log σ K E)
  | 0, _, _, _ => none
  | fuel + 1, pos, st, log =>
    match (c.adj st u)[pos]? with
    | none => some (st, log)
    | some (v, e) =>
      let st' := (c.cb log.length (u, v, e) st).1
      iterLoop c u fuel (pos + 1) st' (log ++ [((u, v, e), st)])

/-- traversal state of the live loops: visited, tree, the log (its edges are the callback trace) -/
structure LSt (σ K E : Type) where
  vis : List K := []
  tree : List (Edge K E) := []
  log : Log σ K E := []

/-! ## breadth-first -/

def bfsScanL (c : LCfg σ K E) (u : K) : Nat → Nat → LSt σ K E → List K → σ → Option (Bool × LSt σ K E × List K × σ)
  | 0, _, _, _, _ => none
  | fuel + 1, pos, ts, q, st =>
    match (c.adj st u)[pos]? with
    | none => some (false, ts, q, st)
    | some (v, e) =>
      let r := c.cb ts.log.length (u, v, e) st
      let ts := { ts with log := ts.log ++ [((u, v, e), st)] }
      if r.2 then
        if v ∈ ts.vis then bfsScanL c u fuel (pos + 1) ts q r.1
        else
          let ts := { ts with vis := v :: ts.vis, tree := ts.tree ++ [(u, v, e)] }
          if c.target = some v then some (true, ts, q, r.1)
          else bfsScanL c u fuel (pos + 1) ts (q ++ [v]) r.1
      else bfsScanL c u fuel (pos + 1) ts q r.1

def bfsLoopL (c : LCfg σ K E) : Nat → List K → LSt σ K E → σ → Option (Bool × LSt σ K E × σ)
  | 0, _, _, _ => none
  | _ + 1, [], ts, st => some (false, ts, st)
  | fuel + 1, u :: q, ts, st =>
    match bfsScanL c u fuel 0 ts q st with
    | none => none
    | some (true, ts', _, st') => some (true, ts', st')
    | some (false, ts', q', st') => bfsLoopL c fuel q' ts' st'

/-! ## depth-first (one fuel for descending and for advancing the position) -/

def dfsEdgesL (c : LCfg σ K E) : Nat → K → Nat → LSt σ K E → σ → Option (Bool × LSt σ K E × σ)
  | 0, _, _, _, _ => none
  | fuel + 1, u, pos, ts, st =>
    match (c.adj st u)[pos]? with
    | none => some (false, ts, st)
    | some (v, e) =>
      let r := c.cb ts.log.length (u, v, e) st
      let ts := { ts with log := ts.log ++ [((u, v, e), st)] }
      if r.2 then
        if v ∈ ts.vis then dfsEdgesL c fuel u (pos + 1) ts r.1
        else
          let ts := { ts with vis := v :: ts.vis, tree := ts.tree ++ [(u, v, e)] }
          if c.target = some v then some (true, ts, r.1)
          else
            match dfsEdgesL c fuel v 0 ts r.1 with
            | none => none
            | some (true, ts', st') => some (true, ts', st')
            | some (false, ts', st') => dfsEdgesL c fuel u (pos + 1) ts' st'
      else dfsEdgesL c fuel u (pos + 1) ts r.1

/-! ## priority-first -/

def pfsScanL (c : LCfg σ K E) (prio : K → Int) (u : K) :
    Nat → Nat → LSt σ K E → List (K × Int) → σ → Option (Bool × LSt σ K E × List (K × Int) × σ)
  | 0, _, _, _, _ => none
  | fuel + 1, pos, ts, h, st =>
    match (c.adj st u)[pos]? with
    | none => some (false, ts, h, st)
    | some (v, e) =>
      let r := c.cb ts.log.length (u, v, e) st
      let ts := { ts with log := ts.log ++ [((u, v, e), st)] }
      if r.2 then
        if v ∈ ts.vis then pfsScanL c prio u fuel (pos + 1) ts h r.1
        else
          let ts := { ts with vis := v :: ts.vis, tree := ts.tree ++ [(u, v, e)] }
          if c.target = some v then some (true, ts, h, r.1)
          else pfsScanL c prio u fuel (pos + 1) ts (heapPush (·.2) h (v, prio v)) r.1
      else pfsScanL c prio u fuel (pos + 1) ts h r.1

def pfsLoopL (c : LCfg σ K E) (prio : K → Int) : Nat → List (K × Int) → LSt σ K E → σ → Option (Bool × LSt σ K E × σ)
  | 0, _, _, _ => none
  | fuel + 1, h, ts, st =>
    match heapPop (·.2) h with
    | none => some (false, ts, st)
    | some ((u, _), h') =>
      match pfsScanL c prio u fuel 0 ts h' st with
      | none => none
      | some (true, ts', _, st') => some (true, ts', st')
      | some (false, ts', h'', st') => pfsLoopL c prio fuel h'' ts' st'

/-! ## orderings -/

def ordEdgesL (c : LCfg σ K E) (post : Bool) : Nat → K → Nat → LSt σ K E → σ → Option (LSt σ K E × σ)
  | 0, _, _, _, _ => none
  | fuel + 1, u, pos, ts, st =>
    match (c.adj st u)[pos]? with
    | none => some (ts, st)
    | some (v, e) =>
      let r := c.cb ts.log.length (u, v, e) st
      let ts := { ts with log := ts.log ++ [((u, v, e), st)] }
      if r.2 then
        if v ∈ ts.vis then ordEdgesL c post fuel u (pos + 1) ts r.1
        else
          let ts := { ts with vis := v :: ts.vis, tree := if post then ts.tree else ts.tree ++ [(u, v, e)] }
          match ordEdgesL c post fuel v 0 ts r.1 with
          | none => none
          | some (ts', st') =>
            ordEdgesL c post fuel u (pos + 1) { ts' with tree := if post then ts'.tree ++ [(u, v, e)] else ts'.tree } st'
      else ordEdgesL c post fuel u (pos + 1) ts r.1

/-! ## entry points (same shapes as `runLoop` / `orderEdges` of `Search.lean`) -/

def runLoopL (adj : σ → K → List (K × E)) (cb : Nat → Edge K E → σ → σ × Bool) (nval : K → Int) (kind : Kind)
    (root : K) (target : Option K) (cycle : Bool) (fuel : Nat) (st : σ) : Option (Bool × LSt σ K E × σ) :=
  let c : LCfg σ K E := { adj := adj, cb := cb, target := if cycle then some root else target }
  let ts0 : LSt σ K E := { vis := if cycle then [] else [root] }
  match kind with
  | .bfs => bfsLoopL c fuel [root] ts0 st
  | .dfs => dfsEdgesL c fuel root 0 ts0 st
  | .pfsMin => pfsLoopL c (fun k => - nval k) fuel [(root, - nval root)] ts0 st
  | .pfsMax => pfsLoopL c nval fuel [(root, nval root)] ts0 st

def orderEdgesL (adj : σ → K → List (K × E)) (cb : Nat → Edge K E → σ → σ × Bool) (post : Bool) (root : K)
    (fuel : Nat) (st : σ) : Option (LSt σ K E × σ) :=
  ordEdgesL { adj := adj, cb := cb, target := none } post fuel root 0 { vis := [root] } st

end G

import GdslModel.Model.Container
/-!
# Byte-level model of the JSON form of a graph document (C12, C13)

Core Lean only. `Serialize for Graph` writes the 2-tuple `(nodes, edges)`; through `serde_json`
this is the text `[[[k,n],...],[[u,v,e],...]]`. `Deserialize for Graph` asks for a sequence and
reads at most two elements from it (`visit_seq`), so `[]` and `[nodes]` are accepted as well.

The model is specialised to the payload types the harness instantiates: `K = usize`, `N = i64`,
`E = u32`. For these types serde_json's streaming, type-directed parser accepts exactly the byte
strings of the grammar below (everything else is `Err`):

```
doc    := ws '[' ws ( ']' | nodes ws ( ']' | ',' ws edges ws ']' ) ) ws
nodes  := '[' ws ( ']' | node ws ( ',' ws node ws )* ']' )        node := '[' ws uint64 ws ',' ws int64 ws ']'
edges  := '[' ws ( ']' | edge ws ( ',' ws edge ws )* ']' )        edge := '[' ws uint64 ws ',' ws uint64 ws ',' ws uint32 ws ']'
uint   := '0' | [1-9][0-9]*   (value within the type's range)     int  := uint | '-' uint  (not "-0": serde_json reads it as a float)
ws     := (' ' | '\t' | '\n' | '\r')*
```

A fraction, an exponent, a leading zero, a literal out of range, `true`/`false`/`null`, strings,
objects, a trailing comma, a third element and trailing non-whitespace are all errors. That the
real `serde_json::from_slice::<Graph<usize, i64, u32>>` accepts exactly this language (and yields
the same document) is what the C13 correspondence checks on mutated and random byte strings.

Bytes are `Nat`s (< 256 in everything the driver feeds in; the functions are total on all `Nat`s).
-/
namespace G.Json

/-- the document as the visitor sees it: `(Vec<(K, N)>, Vec<(K, K, E)>)` -/
abbrev Doc := List (Nat × Int) × List (Nat × Nat × Nat)

inductive Tok where
  | lb | rb | comma
  /-- a number literal: sign and decimal digits (most significant first, each `< 10`) -/
  | num (neg : Bool) (digits : List Nat)
  deriving DecidableEq, Repr

def isWs (b : Nat) : Bool := b = 32 || b = 9 || b = 10 || b = 13
def isDigit (b : Nat) : Bool := 48 ≤ b && b ≤ 57

/-- a number literal ends: `-` alone and a leading zero are invalid numbers -/
def closeNum : Option (Bool × List Nat) → Option (List Tok)
  | none => some []
  | some (_, []) => none
  | some (_, 0 :: _ :: _) => none
  | some (neg, ds) => some [.num neg ds]

/-- the lexer: `cur` is the number literal in progress. `none` = a byte that cannot occur in an accepted
    document (letters, quotes, braces, `.`, `e`, `+`, ...), or an invalid number. -/
def lex : Option (Bool × List Nat) → List Nat → Option (List Tok)
  | cur, [] => closeNum cur
  | cur, b :: rest =>
    if isDigit b then
      match cur with
      | none => lex (some (false, [b - 48])) rest
      | some (neg, ds) => lex (some (neg, ds ++ [b - 48])) rest
    else if b = 45 then
      match cur with
      | none => lex (some (true, [])) rest
      | some _ => none
    else
      match closeNum cur with
      | none => none
      | some pre =>
        if isWs b then (lex none rest).map (pre ++ ·)
        else if b = 91 then (lex none rest).map (fun t => pre ++ .lb :: t)
        else if b = 93 then (lex none rest).map (fun t => pre ++ .rb :: t)
        else if b = 44 then (lex none rest).map (fun t => pre ++ .comma :: t)
        else none

/-- value of a digit string -/
def digitsVal (ds : List Nat) : Nat := ds.foldl (fun a d => a * 10 + d) 0

/-- an unsigned literal within `bound` (exclusive): `u64`/`usize` keys, `u32` edge values -/
def asUInt (bound : Nat) (neg : Bool) (ds : List Nat) : Option Nat :=
  if neg then none else if digitsVal ds < bound then some (digitsVal ds) else none

/-- an `i64` literal. `-0` is a float for serde_json (`ParserNumber::F64(-0.0)`) and hence a type error. -/
def asI64 (neg : Bool) (ds : List Nat) : Option Int :=
  let v := digitsVal ds
  if neg then (if 0 < v && v ≤ 2 ^ 63 then some (- (v : Int)) else none)
  else (if v < 2 ^ 63 then some (v : Int) else none)

def U64 : Nat := 2 ^ 64
def U32 : Nat := 2 ^ 32

/-- the elements of a non-empty node list, after its opening bracket -/
def nodeItems : List Tok → Option (List (Nat × Int) × List Tok)
  | .lb :: .num nk dk :: .comma :: .num nv dv :: .rb :: rest =>
    match asUInt U64 nk dk, asI64 nv dv with
    | some k, some v =>
      match rest with
      | .rb :: rest' => some ([(k, v)], rest')
      | .comma :: rest' => (nodeItems rest').map fun (l, r) => ((k, v) :: l, r)
      | _ => none
    | _, _ => none
  | _ => none

def nodeList : List Tok → Option (List (Nat × Int) × List Tok)
  | .lb :: .rb :: rest => some ([], rest)
  | .lb :: rest => nodeItems rest
  | _ => none

def edgeItems : List Tok → Option (List (Nat × Nat × Nat) × List Tok)
  | .lb :: .num nu du :: .comma :: .num nv dv :: .comma :: .num ne de :: .rb :: rest =>
    match asUInt U64 nu du, asUInt U64 nv dv, asUInt U32 ne de with
    | some u, some v, some e =>
      match rest with
      | .rb :: rest' => some ([(u, v, e)], rest')
      | .comma :: rest' => (edgeItems rest').map fun (l, r) => ((u, v, e) :: l, r)
      | _ => none
    | _, _, _ => none
  | _ => none

def edgeList : List Tok → Option (List (Nat × Nat × Nat) × List Tok)
  | .lb :: .rb :: rest => some ([], rest)
  | .lb :: rest => edgeItems rest
  | _ => none

/-- `deserialize_seq` + `visit_seq` (at most two elements are read; a third is "trailing characters") -/
def parseToks : List Tok → Option Doc
  | [.lb, .rb] => some ([], [])
  | .lb :: rest =>
    match nodeList rest with
    | some (ns, [.rb]) => some (ns, [])
    | some (ns, .comma :: rest') =>
      match edgeList rest' with
      | some (es, [.rb]) => some (ns, es)
      | _ => none
    | _ => none
  | _ => none

/-- `serde_json::from_slice::<(Vec<(usize, i64)>, Vec<(usize, usize, u32)>)>` as far as `Graph`'s visitor uses it -/
def parse (bs : List Nat) : Option Doc := (lex none bs).bind parseToks

/-! ## the printer: what `serde_json::to_vec` writes (compact form) -/

/-- decimal digits of `n`, most significant first -/
def digits (n : Nat) : List Nat :=
  if _h : n < 10 then [n] else digits (n / 10) ++ [n % 10]
termination_by n
decreasing_by omega

def pNat (n : Nat) : List Nat := (digits n).map (· + 48)
def pInt : Int → List Nat
  | .ofNat n => pNat n
  | .negSucc n => 45 :: pNat (n + 1)

/-- items separated by commas -/
def commaSep : List (List Nat) → List Nat
  | [] => []
  | [x] => x
  | x :: y :: rest => x ++ 44 :: commaSep (y :: rest)

def pNode (p : Nat × Int) : List Nat := 91 :: pNat p.1 ++ 44 :: pInt p.2 ++ [93]
def pEdge (p : Nat × Nat × Nat) : List Nat := 91 :: pNat p.1 ++ 44 :: pNat p.2.1 ++ 44 :: pNat p.2.2 ++ [93]

def print (d : Doc) : List Nat :=
  91 :: (91 :: commaSep (d.1.map pNode) ++ [93]) ++ 44 :: (91 :: commaSep (d.2.map pEdge) ++ [93]) ++ [93]

/-- the payloads fit their Rust types -/
def InRange (d : Doc) : Prop :=
  (∀ p ∈ d.1, p.1 < U64 ∧ -(2 ^ 63 : Int) ≤ p.2 ∧ p.2 < 2 ^ 63) ∧
  (∀ p ∈ d.2, p.1 < U64 ∧ p.2.1 < U64 ∧ p.2.2 < U32)

/-! ## deserialisation from bytes: parser, then the visitor of `Model/Container.lean` -/

/-- `serde_json::from_slice::<Graph<usize, i64, u32>>`: `none` = `Err` -/
def deJson (bs : List Nat) : Option (List (Nat × Int) × Store Nat Nat) :=
  (parse bs).bind fun d => rebuild d.1 d.2

/-- `serde_json::to_vec(&graph)` for a container iterating in order `π` -/
def serJson (s : Store Nat Nat) (nval : Nat → Int) (π : List Nat) : List Nat :=
  print (decompose s nval π)

end G.Json

import GdslModel.Model.Search
/-!
# Ownership accounting (C19): edges never own nodes

Core Lean only. A *slot* is a place where the program keeps something that owns node handles:
a node handle (one key), an `Edge` (two), a `Path` / search result / node list (the endpoints
of its edges resp. its nodes), a `Graph` container (its members). Adjacency entries of the
store are weak and are not counted. The value of a node is released exactly when the last slot
mentioning its key lets go (`settle`), which is what `Rc`/`Arc` do (trusted std semantics).

Operations that follow adjacency entries (`edgeOf`, `pathTo`, `searchTo`, `orderOf`) refuse to run
(`none`) when they would have to upgrade an entry of a released node — the real code panics there
("live nodes" is the property's precondition).
-/
namespace G
variable {K E : Type} [DecidableEq K]

structure OwnSt (K E : Type) where
  s : Store K E := {}
  created : List K := []
  released : List K := []
  slots : List (Nat × List K) := []

def OwnSt.held (st : OwnSt K E) : List K := (st.slots.map (·.2)).flatten
/-- number of strong handles to `k` -/
def OwnSt.count (st : OwnSt K E) (k : K) : Nat := st.held.count k
def OwnSt.alive (st : OwnSt K E) (k : K) : Bool := st.created.contains k && !st.released.contains k

/-- release every created, not yet released node that no slot mentions any more -/
def OwnSt.settle (st : OwnSt K E) : OwnSt K E :=
  { st with released := st.released ++ (st.created.filter fun k => !st.released.contains k && st.count k == 0) }

def OwnSt.slot (st : OwnSt K E) (i : Nat) : List K :=
  match st.slots.find? (fun p => p.1 = i) with
  | some p => p.2
  | none => []
/-- overwrite slot `i` (whatever it held is dropped) -/
def OwnSt.setSlot (st : OwnSt K E) (i : Nat) (ks : List K) : OwnSt K E :=
  { st with slots := (st.slots.filter fun p => p.1 ≠ i) ++ [(i, ks)] }

/-- every adjacency entry reachable in one step from `k` names an alive node -/
def OwnSt.neighboursAlive (st : OwnSt K E) (k : K) : Bool :=
  ((st.s.get k).out ++ (st.s.get k).inn).all fun p => st.alive p.1
/-- every alive node only has alive neighbours: what traversals need -/
def OwnSt.noDangling (st : OwnSt K E) : Bool :=
  st.created.all fun k => !st.alive k || st.neighboursAlive k

/-- edge operations and queries made through node handles: none of them creates or drops a handle -/
inductive StoreOp (E : Type) where
  | tryConnect (e : E) | disconnect | isolate | query
  deriving Repr

inductive OwnOp (K E : Type) where
  | new (slot : Nat) (k : K)                 -- `Node::new`
  | clone (src dst : Nat)                    -- clone whatever `src` holds into `dst`
  | drop (slot : Nat)
  | connect (a b : Nat) (e : E)              -- edges are weak: no handle is created
  | insert (g a : Nat)                       -- container `g` gets a clone of the node in `a`
  | remove (g : Nat) (k : K)
  | get (g : Nat) (k : K) (dst : Nat)
  | edgeOf (a dst : Nat)                     -- the first edge the node's iterator yields
  | pathTo (a : Nat) (t : K) (dst : Nat)     -- `bfs().target(t).search_path()`
  | searchTo (a : Nat) (t : K) (dst : Nat)   -- `dfs().target(t).search()`
  | orderOf (a dst : Nat)                    -- `preorder().search_nodes()`
  | storeOp (a b : Nat) (m : StoreOp E)      -- `try_connect` / `disconnect` / `isolate` / `is_connected` through handles
  | find (a : Nat) (k : K) (dst : Nat)       -- `find_outbound(k)` / `find_adjacent(k)`: a handle to a neighbour
  | pathOf (kind : Kind) (cyc : Bool) (a : Nat) (t : K) (dst : Nat)  -- `search_path()` / `search_cycle()` of bfs and dfs
  | orderPost (a dst : Nat)                  -- `postorder().search_nodes()`

/-- `adjSel` selects the list a node iterates (outgoing for directed, `out ++ inn` for undirected) -/
def OwnSt.step (adjSel : Store K E → K → List (K × E)) (mutF : Store K E → K → K → StoreOp E → Store K E)
    (st : OwnSt K E) : OwnOp K E → Option (OwnSt K E)
  | .new i k => if st.created.contains k then none else
      some ({ st with created := st.created ++ [k] }.setSlot i [k]).settle
  | .clone a b => some (st.setSlot b (st.slot a)).settle
  | .drop i => some (st.setSlot i []).settle
  | .connect a b e =>
    match st.slot a, st.slot b with
    | [u], [v] => some { st with s := connect st.s u v e }
    | _, _ => none
  | .insert g a =>
    match st.slot a with
    | [u] => if (st.slot g).contains u then some st else some (st.setSlot g (st.slot g ++ [u])).settle
    | _ => none
  | .remove g k => some (st.setSlot g ((st.slot g).filter fun x => x ≠ k)).settle
  | .get g k d => some (st.setSlot d (if (st.slot g).contains k then [k] else [])).settle
  | .edgeOf a d =>
    match st.slot a with
    | [u] =>
      if !st.neighboursAlive u then none else
      match adjSel st.s u with
      | [] => some (st.setSlot d []).settle
      | (v, _) :: _ => some (st.setSlot d [u, v]).settle
    | _ => none
  | .pathTo a t d =>
    match st.slot a with
    | [u] =>
      if !st.noDangling then none else
      match searchPath (adjSel st.s) (fun _ _ _ => true) (fun _ => 0) .bfs u (some t) false (st.created.length + 2) with
      | some (some p, _) => some (st.setSlot d (p.flatMap fun x => [x.1, x.2.1])).settle
      | some (none, _) => some (st.setSlot d []).settle
      | none => none
    | _ => none
  | .searchTo a t d =>
    match st.slot a with
    | [u] =>
      if !st.noDangling then none else
      match searchNode (adjSel st.s) (fun _ _ _ => true) (fun _ => 0) .dfs u (some t) (st.created.length + 2) with
      | some (some x, _) => some (st.setSlot d [x]).settle
      | some (none, _) => some (st.setSlot d []).settle
      | none => none
    | _ => none
  | .orderOf a d =>
    match st.slot a with
    | [u] =>
      if !st.noDangling then none else
      match orderNodes (adjSel st.s) (fun _ _ _ => true) false u (st.created.length + 2) with
      | some (ns, _) => some (st.setSlot d ns).settle
      | none => none
    | _ => none

  | .storeOp a b m =>
    -- whatever the operation does to the adjacency lists (`mutF`), no slot changes and nothing is released
    match st.slot a, st.slot b with
    | [u], [v] => if !(st.neighboursAlive u && st.neighboursAlive v) then none else some { st with s := mutF st.s u v m }
    | _, _ => none
  | .find a k d =>
    match st.slot a with
    | [u] =>
      if !st.neighboursAlive u then none else
      some (st.setSlot d (if (adjSel st.s u).any (fun p => p.1 = k) then [k] else [])).settle
    | _ => none
  | .pathOf kind cyc a t d =>
    match st.slot a with
    | [u] =>
      if !st.noDangling then none else
      if kind = .pfsMin || kind = .pfsMax then none else
      match searchPath (adjSel st.s) (fun _ _ _ => true) (fun _ => 0) kind u (if cyc then none else some t) cyc (st.created.length + 2) with
      | some (some p, _) => some (st.setSlot d (p.flatMap fun x => [x.1, x.2.1])).settle
      | some (none, _) => some (st.setSlot d []).settle
      | none => none
    | _ => none
  | .orderPost a d =>
    match st.slot a with
    | [u] =>
      if !st.noDangling then none else
      match orderNodes (adjSel st.s) (fun _ _ _ => true) true u (st.created.length + 2) with
      | some (ns, _) => some (st.setSlot d ns).settle
      | none => none
    | _ => none

/-- run a history; an operation that is refused leaves the state unchanged -/
def OwnSt.run (adjSel : Store K E → K → List (K × E)) (mutF : Store K E → K → K → StoreOp E → Store K E)
    (ops : List (OwnOp K E)) : OwnSt K E :=
  ops.foldl (fun st op => (st.step adjSel mutF op).getD st) {}

end G

import GdslModel.Model.Search
/-!
# Model of the `Graph` containers (`src/*/mod.rs`, `graph_serde.rs`, `graph_macros.rs`)

Core Lean only. A container is a finite map from key to node; nodes are identified with
their keys (live nodes have distinct keys), so the map is its key set `members`. The hash
map's iteration order is *not* modelled: every order-dependent function takes the order
`π` in which the real map iterated as an explicit argument (`isOrderOf` checks it is a
permutation of the members, so it cannot be used to smuggle in anything else).
-/
namespace G
variable {K E : Type} [DecidableEq K]

structure Cont (K : Type) where
  members : List K := []

def Cont.contains (g : Cont K) (k : K) : Bool := g.members.contains k
/-- `Graph::insert`: adds the key unless present; `false` and unchanged otherwise -/
def Cont.insert (g : Cont K) (k : K) : Cont K × Bool :=
  if g.contains k then (g, false) else ({ members := g.members ++ [k] }, true)
/-- `Graph::remove` -/
def Cont.remove (g : Cont K) (k : K) : Cont K × Bool :=
  if g.contains k then ({ members := g.members.filter (fun x => ¬ (x = k)) }, true) else (g, false)
def Cont.len (g : Cont K) : Nat := g.members.length

/-- `π` lists every member exactly once and nothing else -/
def isOrderOf (π : List K) (g : Cont K) : Bool :=
  π.length == g.members.length && g.members.all (fun k => π.contains k) && π.all (fun k => g.members.contains k)
  && π.eraseDups.length == π.length

/-! ## roots / leaves / orphans -/
def rootsOf (s : Store K E) (π : List K) : List K := π.filter (fun k => (s.get k).inn.isEmpty)
def leavesOf (s : Store K E) (π : List K) : List K := π.filter (fun k => (s.get k).out.isEmpty)
def orphansOf (s : Store K E) (π : List K) : List K :=
  π.filter (fun k => (s.get k).inn.isEmpty && (s.get k).out.isEmpty)

/-! ## `scc()` (after the repair of F9): Kosaraju -/

/-- `scc_ordering`: for every member in iteration order that is not yet visited, the postorder
    from it restricted to edges whose target is not yet visited; `visited` is updated after each tree -/
def sccOrdering (adj : K → List (K × E)) (fuel : Nat) : List K → List K → List K → Option (List K)
  | [], _, ordering => some ordering
  | k :: rest, visited, ordering =>
    if k ∈ visited then sccOrdering adj fuel rest visited ordering
    else
      match orderNodes adj (fun _ v _ => !(visited.contains v)) true k fuel with
      | none => none
      | some (part, _) => sccOrdering adj fuel rest (visited ++ part) (ordering ++ part)

/-- second pass: `while let Some(node) = ordering.pop()`: for every node not yet assigned, the
    transposed preorder restricted to unassigned targets is its component -/
def sccCollect (radj : K → List (K × E)) (fuel : Nat) : List K → List K → List (List K) → Option (List (List K))
  | [], _, comps => some comps
  | k :: rest, assigned, comps =>
    if k ∈ assigned then sccCollect radj fuel rest assigned comps
    else
      match orderNodes radj (fun _ v _ => !(assigned.contains v)) false k fuel with
      | none => none
      | some (comp, _) => sccCollect radj fuel rest (assigned ++ comp) (comps ++ [comp])

/-- `Graph::scc` for iteration order `π`; `adj` = outgoing lists, `radj` = incoming lists -/
def scc (adj radj : K → List (K × E)) (π : List K) (fuel : Nat) : Option (List (List K)) :=
  match sccOrdering adj fuel π [] [] with
  | none => none
  | some ordering => sccCollect radj fuel ordering.reverse [] []

/-! ## serde: decomposition and reconstruction -/

/-- `graph_serde_decompose`: node list in iteration order; edge list = for every member in that
    order its outgoing edges (directed) resp. its outbound half-edges (undirected, after the repair
    of F10) in list order -/
def decompose {N : Type} (s : Store K E) (nval : K → N) (π : List K) : List (K × N) × List (K × K × E) :=
  (π.map (fun k => (k, nval k)), π.flatMap (fun k => (s.get k).out.map (fun p => (k, p.1, p.2))))

/-- the visitor of `Deserialize`: insert the nodes (first declaration of a key wins), then connect
    every edge; an edge naming an undeclared key is an error -/
def rebuildNodes {N : Type} : List (K × N) → List (K × N) → List (K × N)
  | [], acc => acc
  | (k, v) :: rest, acc => if acc.any (fun p => p.1 = k) then rebuildNodes rest acc else rebuildNodes rest (acc ++ [(k, v)])

def rebuildEdges (declared : List K) : List (K × K × E) → Store K E → Option (Store K E)
  | [], s => some s
  | (u, v, e) :: rest, s =>
    if declared.contains u && declared.contains v then rebuildEdges declared rest (connect s u v e) else none

/-- `none` = `Err` (an edge names an undeclared key) -/
def rebuild {N : Type} (nodes : List (K × N)) (edges : List (K × K × E)) : Option (List (K × N) × Store K E) :=
  let ns := rebuildNodes nodes []
  (rebuildEdges (ns.map (·.1)) edges {}).map fun s => (ns, s)

/-! ## construction macros: the body of a `*graph!` arm -/

/-- result of a macro invocation: the graph, or the key named in the panic message -/
inductive MacroRes (K N E : Type) where
  | ok (nodes : List (K × N)) (s : Store K E)
  | panic (k : K)

/-- `listed` = the `(NODE, NPARAM) => [ (EDGE, EPARAM), ... ]` entries in source order. The arm
    collects all edge tuples in listed order, inserts the nodes (a repeated key keeps the first),
    then for each tuple checks source then target membership (panic naming the first missing key)
    and connects. -/
def macroConnect (declared : List K) : List (K × K × E) → Store K E → Sum K (Store K E)
  | [], s => .inr s
  | (u, v, e) :: rest, s =>
    if !declared.contains u then .inl u
    else if !declared.contains v then .inl v
    else macroConnect declared rest (connect s u v e)

def macroBuild {N : Type} (listed : List ((K × N) × List (K × E))) : MacroRes K N E :=
  let ns := rebuildNodes (listed.map (·.1)) []
  let edges := listed.flatMap (fun x => x.2.map (fun p => (x.1.1, p.1, p.2)))
  match macroConnect (ns.map (·.1)) edges {} with
  | .inl k => .panic k
  | .inr s => .ok ns s

/-! ## DOT export (text is assembled in the driver from these line lists) -/

/-- `to_dot`: per member in iteration order its key and the targets of what its iterator yields -/
def dotPlain (adj : K → List (K × E)) (π : List K) : List (K × List K) :=
  π.map (fun k => (k, (adj k).map (·.1)))

/-- the edge statements of `to_dot_with_attr`: all iterated edges of all members in iteration order -/
def dotEdges (adj : K → List (K × E)) (π : List K) : List (Edge K E) :=
  π.flatMap (fun k => (adj k).map (fun p => (k, p.1, p.2)))

end G

/-!
# Model of Rust's auto-trait rules (`Send` / `Sync`) over the type grammar gdsl uses (C16)

Core Lean only. A payload type enters only through its capability bits (`Send`, `Sync`, and `extra`: whether it satisfies the
additional bounds an explicit impl may ask, e.g. `'static`). Named types
(`Node`, `Adjacent`, `WeakNode`, `Edge`, `Graph`) are recursive through
`Adjacent → WeakNode → (K, N, lock<Adjacent>)`, so the auto-trait question is a greatest
fixed point, computed by "assume on revisit". An explicit `unsafe impl` replaces the
structural rule by its `where` bounds. The per-flavour definition tables are *generated from
the Rust sources* by `tools/translate_traits.py` into `GdslModel/Gen/Traits.lean`.

std rules transcribed (trusted, checked against rustc by the probe table):
`Arc<T>`, `sync::Weak<T>`: Send/Sync iff `T: Send + Sync`; `Rc`, `rc::Weak`: never;
`RefCell<T>`: Send iff `T: Send`, never Sync; `RwLock<T>`: Send iff `T: Send`, Sync iff
`T: Send + Sync`; tuples, `Vec`, hash maps: structural.
-/
namespace G.Traits

/-- what is known about a payload type: its two auto-trait bits, and `extra`: whether it also satisfies whatever an
    explicit impl asks beyond the struct's own bounds and `Send`/`Sync` (a lifetime bound such as `'static`, another
    trait). The property quantifies over all payloads, so a verdict may not depend on `extra`. -/
structure Caps where
  send : Bool
  sync : Bool
  extra : Bool := true
  deriving DecidableEq, Repr

inductive Ty where
  | param (i : Nat)                 -- 0 = K, 1 = N, 2 = E
  | tuple (ts : List Ty)
  | vec (t : Ty) | hashmap (k v : Ty)
  | arc (t : Ty) | weak (t : Ty)    -- sync::{Arc, Weak}
  | rc (t : Ty) | rcweak (t : Ty)
  | refcell (t : Ty) | rwlock (t : Ty)
  | named (n : Nat)                 -- index into the definition table
  deriving Repr

inductive Tr | send | sync deriving DecidableEq, Repr
/-- a bound of an explicit impl: an auto trait, or something else the struct itself does not ask (`extra`) -/
inductive Bd | send | sync | extra deriving DecidableEq, Repr

/-- a named type: its body and the bounds of an explicit `unsafe impl`, if any -/
structure Def where
  body : Ty
  explicitSend : Option (List (Nat × Bd)) := none
  explicitSync : Option (List (Nat × Bd)) := none

def capOf (c : Caps) : Tr → Bool | .send => c.send | .sync => c.sync
def bdOf (c : Caps) : Bd → Bool | .send => c.send | .sync => c.sync | .extra => c.extra

/-- does `ty : tr` hold; `asm` = (named type, trait) pairs currently assumed (coinduction) -/
def holds (defs : List Def) (ps : List Caps) : Nat → List (Nat × Tr) → Tr → Ty → Bool
  | 0, _, _, _ => true
  | fuel+1, asm, tr, ty =>
    let both := fun t => holds defs ps fuel asm .send t && holds defs ps fuel asm .sync t
    match ty with
    | .param i => capOf (ps.getD i ⟨false, false, false⟩) tr
    | .tuple ts => ts.attach.all fun ⟨t, _⟩ => holds defs ps fuel asm tr t
    | .vec t => holds defs ps fuel asm tr t
    | .hashmap k v => holds defs ps fuel asm tr k && holds defs ps fuel asm tr v
    | .arc t | .weak t => both t
    | .rc _ | .rcweak _ => false
    | .refcell t => match tr with | .send => holds defs ps fuel asm .send t | .sync => false
    | .rwlock t => match tr with | .send => holds defs ps fuel asm .send t | .sync => both t
    | .named n =>
      if (n, tr) ∈ asm then true else
      match defs[n]? with
      | none => false
      | some d =>
        let ex := match tr with | .send => d.explicitSend | .sync => d.explicitSync
        match ex with
        | some bounds => bounds.all fun (i, t) => bdOf (ps.getD i ⟨false, false, false⟩) t
        | none => holds defs ps fuel ((n, tr) :: asm) tr d.body

/-- indices of the named types in every generated table -/
def iNode : Nat := 0
def iAdjacent : Nat := 1
def iWeakNode : Nat := 2
def iEdge : Nat := 3
def iGraph : Nat := 4

def fuel : Nat := 24

/-- the verdict for type `idx` of a flavour with payload capabilities `k n e` -/
def verdict (defs : List Def) (idx : Nat) (tr : Tr) (k n e : Caps) : Bool :=
  holds defs [k, n, e] fuel [] tr (.named idx)

def allCaps : List Caps :=
  [⟨false, false, false⟩, ⟨false, true, false⟩, ⟨true, false, false⟩, ⟨true, true, false⟩,
   ⟨false, false, true⟩, ⟨false, true, true⟩, ⟨true, false, true⟩, ⟨true, true, true⟩]
def full (c : Caps) : Bool := c.send && c.sync

/-- exactness over the whole (finite) capability domain: shareable iff every payload is Send + Sync -/
def exactFor (defs : List Def) (idx : Nat) : Bool :=
  allCaps.all fun k => allCaps.all fun n => allCaps.all fun e =>
    [Tr.send, Tr.sync].all fun tr => verdict defs idx tr k n e == (full k && full n && full e)

/-- never Send nor Sync, whatever the payloads -/
def neverFor (defs : List Def) (idx : Nat) : Bool :=
  allCaps.all fun k => allCaps.all fun n => allCaps.all fun e =>
    [Tr.send, Tr.sync].all fun tr => verdict defs idx tr k n e == false

theorem mem_allCaps (c : Caps) : c ∈ allCaps := by
  rcases c with ⟨a, b, c⟩; cases a <;> cases b <;> cases c <;> simp [allCaps]

end G.Traits

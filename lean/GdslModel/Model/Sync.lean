import GdslModel.Model.Store
/-!
# Lock programs of the sync flavours (C15, C17, C20)

Core Lean only. Every operation of `sync_digraph` / `sync_ungraph` is written as a *lock
program*: the sequence of lock acquisitions and releases, and of reads / updates of the store
made while the guards are alive, with guard lifetimes where Rust puts them (a temporary guard
lives to the end of its statement; the guard bound by `let edge = self.inner.2.read()` in
`find_outbound` lives to the end of the function). The sequential content of each program is
the corresponding function of `Model/Store.lean` — `Lemmas/Sync.lean` proves that running a
program alone computes exactly that function (C15), and what happens when several threads run
programs concurrently (C17).

`mx = true` is the code after repair F14: the four mutators take one process-wide mutation
mutex around their bodies. `mx = false` is the code before it (kept for the negative control).
-/
namespace G
variable {K E : Type} [DecidableEq K]

inductive Mode where
  | r | w
  deriving DecidableEq, Repr

/-- a node's `RwLock<Adjacent>` or the mutation mutex -/
inductive Lk (K : Type) where
  | node (k : K)
  | mutex
  deriving DecidableEq, Repr

inductive Prog (K E R : Type) where
  | done (res : R)
  | acq (l : Lk K) (m : Mode) (next : Prog K E R)
  | rel (l : Lk K) (next : Prog K E R)
  /-- inspect the store (under some guard) -/
  | read (cont : Store K E → Prog K E R)
  /-- update the store (under a write guard) -/
  | write (upd : Store K E → Store K E) (next : Prog K E R)

def Prog.bind {R S : Type} : Prog K E R → (R → Prog K E S) → Prog K E S
  | .done r, f => f r
  | .acq l m p, f => .acq l m (p.bind f)
  | .rel l p, f => .rel l (p.bind f)
  | .read c, f => .read (fun s => (c s).bind f)
  | .write u p, f => .write u (p.bind f)

/-- `let _guard = mutation_guard();` around a body -/
def withMutex {R : Type} (mx : Bool) (p : Prog K E R) : Prog K E R :=
  if mx then .acq .mutex .w (p.bind fun r => .rel .mutex (.done r)) else p

namespace Sync

/-- `self.inner.2.write().unwrap().push_outbound(..); other.inner.2.write().unwrap().push_inbound(..)` -/
def connectBody (u v : K) (e : E) : Prog K E (Res E) :=
  .acq (.node u) .w (.write (fun s => s.set u { s.get u with out := (s.get u).out ++ [(v, e)] })
    (.rel (.node u) (.acq (.node v) .w (.write (fun s => s.set v { s.get v with inn := (s.get v).inn ++ [(u, e)] })
      (.rel (.node v) (.done .unit))))))

def connect (mx : Bool) (u v : K) (e : E) : Prog K E (Res E) := withMutex mx (connectBody u v e)

/-- a query that holds one read guard on `u` while it looks at `u`'s lists -/
def query {R : Type} (u : K) (f : Adj K E → R) : Prog K E R :=
  .acq (.node u) .r (.read fun s => .rel (.node u) (.done (f (s.get u))))

/-- one step of a node iterator at `pos`: the read guard is a temporary of `next()` -/
def iterNext (u : K) (sel : Adj K E → List (K × E)) (pos : Nat) : Prog K E (Option (K × E)) :=
  query u (fun a => (sel a)[pos]?)

namespace Di
def isConnected (u v : K) : Prog K E Bool := query u (fun a => hasKey a.out v)
def outDegree (u : K) : Prog K E Nat := query u (fun a => a.out.length)
def inDegree (u : K) : Prog K E Nat := query u (fun a => a.inn.length)
/-- `is_root() && is_leaf()`: two separate guards, one after the other -/
def isOrphan (u : K) : Prog K E Bool :=
  (query u (fun a => a.inn.isEmpty)).bind fun r => if r then query u (fun a => a.out.isEmpty) else .done false

def tryConnect (mx : Bool) (u v : K) (e : E) : Prog K E (Res E) :=
  withMutex mx ((isConnected u v).bind fun c => if c then .done .exists_ else connectBody u v e)

def disconnect (mx : Bool) (u v : K) : Prog K E (Res E) :=
  withMutex mx ((isConnected u v).bind fun c =>
    if !c then .done .notFound else
    .acq (.node u) .w (.read fun s =>
      match removeFirst (s.get u).out v with
      | none => .rel (.node u) (.done .notFound)
      | some (e, out') =>
        .write (fun s => s.set u { s.get u with out := out' }) (.rel (.node u)
          (.acq (.node v) .w (.read fun s1 =>
            match removeFirst (s1.get v).inn u with
            | none => .rel (.node v) (.done .notFound)
            | some (_, inn') => .write (fun s => s.set v { s.get v with inn := inn' }) (.rel (.node v) (.done (.val e))))))))

/-- first loop of `isolate`: `next()` (read guard on `u`), then a write guard on the neighbour -/
def isoOut (u : K) : Nat → Nat → Prog K E Bool → Prog K E Bool
  | 0, pos, k => (iterNext u (·.out) pos).bind fun _ => k   -- the `next()` call that returns `None` and ends the loop
  | fuel + 1, pos, k =>
    (iterNext u (·.out) pos).bind fun x =>
      match x with
      | none => k
      | some (v, _) =>
        .acq (.node v) .w (.read fun s =>
          match removeFirst (s.get v).inn u with
          | none => .rel (.node v) (.done true)   -- `unwrap` panics (the guard is dropped by unwinding)
          | some (_, inn') => .write (fun s => s.set v { s.get v with inn := inn' }) (.rel (.node v) (isoOut u fuel (pos + 1) k)))

def isoIn (u : K) : Nat → Nat → Prog K E Bool → Prog K E Bool
  | 0, pos, k => (iterNext u (·.inn) pos).bind fun _ => k
  | fuel + 1, pos, k =>
    (iterNext u (·.inn) pos).bind fun x =>
      match x with
      | none => k
      | some (v, _) =>
        .acq (.node v) .w (.read fun s =>
          match removeFirst (s.get v).out u with
          | none => .rel (.node v) (.done true)
          | some (_, out') => .write (fun s => s.set v { s.get v with out := out' }) (.rel (.node v) (isoIn u fuel (pos + 1) k)))

/-- `clear_outbound()` and `clear_inbound()`: two write guards, one after the other -/
def clearBoth (u : K) : Prog K E Bool :=
  .acq (.node u) .w (.write (fun s => s.set u { s.get u with out := [] }) (.rel (.node u)
    (.acq (.node u) .w (.write (fun s => s.set u { s.get u with inn := [] }) (.rel (.node u) (.done false))))))

/-- `isolate`; the loop bounds are read like the model's fuel: the length of the list at loop entry -/
def isolate (mx : Bool) (u : K) : Prog K E (Res E) :=
  withMutex mx ((Prog.read fun s0 =>
      isoOut u (s0.get u).out.length 0 (.read fun s1 => isoIn u (s1.get u).inn.length 0 (clearBoth u))).bind
    fun panicked => .done (if panicked then .panic else .unit))
end Di

namespace Un
def isConnected (u v : K) : Prog K E Bool := query u (fun a => hasKey a.out v || hasKey a.inn v)
/-- `degree()` after the repair of F13: one guard -/
def degree (u : K) : Prog K E Nat := query u (fun a => a.out.length + a.inn.length)
def isOrphan (u : K) : Prog K E Bool := query u (fun a => a.out.isEmpty && a.inn.isEmpty)

def tryConnect (mx : Bool) (u v : K) (e : E) : Prog K E (Res E) :=
  withMutex mx ((isConnected u v).bind fun c => if c then .done .exists_ else connectBody u v e)

/-- repaired `disconnect`: `find_adjacent`, `remove_inbound(other)` on the caller, then the partner -/
def disconnect (mx : Bool) (u v : K) : Prog K E (Res E) :=
  withMutex mx ((isConnected u v).bind fun c =>
    if !c then .done .notFound else
    .acq (.node u) .w (.read fun s =>
      match removeFirst (s.get u).inn v with
      | some (e, inn') =>
        .write (fun s => s.set u { s.get u with inn := inn' }) (.rel (.node u)
          (.acq (.node v) .w (.read fun s1 =>
            match removeFirst (s1.get v).out u with
            | none => .rel (.node v) (.done .notFound)
            | some (_, out') => .write (fun s => s.set v { s.get v with out := out' }) (.rel (.node v) (.done (.val e))))))
      | none =>
        .rel (.node u) (.acq (.node u) .w (.read fun s =>
          match removeFirst (s.get u).out v with
          | none => .rel (.node u) (.done .notFound)
          | some (e, out') =>
            .write (fun s => s.set u { s.get u with out := out' }) (.rel (.node u)
              (.acq (.node v) .w (.read fun s1 =>
                match removeFirst (s1.get v).inn u with
                | none => .rel (.node v) (.done .notFound)
                | some (_, inn') => .write (fun s => s.set v { s.get v with inn := inn' }) (.rel (.node v) (.done (.val e))))))))))

/-- the single loop of `isolate`: `remove_inbound` under one write guard; if that fails a second write
    guard for `remove_outbound` (the first guard is a temporary of the `if` condition) -/
def isoLoop (u : K) : Nat → Nat → Prog K E Bool → Prog K E Bool
  | 0, pos, k => (iterNext u (fun a => a.out ++ a.inn) pos).bind fun _ => k
  | fuel + 1, pos, k =>
    (iterNext u (fun a => a.out ++ a.inn) pos).bind fun x =>
      match x with
      | none => k
      | some (v, _) =>
        .acq (.node v) .w (.read fun s =>
          match removeFirst (s.get v).inn u with
          | some (_, inn') => .write (fun s => s.set v { s.get v with inn := inn' }) (.rel (.node v) (isoLoop u fuel (pos + 1) k))
          | none =>
            .rel (.node v) (.acq (.node v) .w (.read fun s =>
              match removeFirst (s.get v).out u with
              | none => .rel (.node v) (.done true)
              | some (_, out') => .write (fun s => s.set v { s.get v with out := out' }) (.rel (.node v) (isoLoop u fuel (pos + 1) k)))))

def isolate (mx : Bool) (u : K) : Prog K E (Res E) :=
  withMutex mx ((Prog.read fun s0 =>
      isoLoop u ((s0.get u).out.length + (s0.get u).inn.length) 0 (Di.clearBoth u)).bind
    fun panicked => .done (if panicked then .panic else .unit))
end Un

/-- the lock program of an edge operation -/
def Di.prog (mx : Bool) : Op K E → Prog K E (Res E)
  | .connect u v e => connect mx u v e
  | .tryConnect u v e => Di.tryConnect mx u v e
  | .disconnect u v => Di.disconnect mx u v
  | .isolate u => Di.isolate mx u
def Un.prog (mx : Bool) : Op K E → Prog K E (Res E)
  | .connect u v e => connect mx u v e
  | .tryConnect u v e => Un.tryConnect mx u v e
  | .disconnect u v => Un.disconnect mx u v
  | .isolate u => Un.isolate mx u

/-! ### traversals as lock programs
A traversal of a sync flavour takes no lock of its own: every `for edge in node.iter_*()` step is one `iterNext`
(a read guard that is a temporary of `next()`), and the closure, the visited set, the queue / recursion stack are
thread-local. `sel` is the list the iterator reads (outgoing, incoming for `transpose()`, `out ++ inn` for the
undirected flavours). The control flow is that of the `_find` loops (`search()` without closure). -/

/-- breadth-first `search()`: `cur` is the node being expanded with the iterator position, `q` the queue -/
def bfsProg (sel : Adj K E → List (K × E)) (tgt : Option K) :
    Nat → Option (K × Nat) → List K → List K → Prog K E (Option K)
  | 0, _, _, _ => .done none
  | _ + 1, none, [], _ => .done none
  | fuel + 1, none, u :: q, vis => bfsProg sel tgt fuel (some (u, 0)) q vis
  | fuel + 1, some (u, pos), q, vis =>
    (iterNext u sel pos).bind fun x =>
      match x with
      | none => bfsProg sel tgt fuel none q vis
      | some (v, _) =>
        if vis.contains v then bfsProg sel tgt fuel (some (u, pos + 1)) q vis
        else if tgt = some v then .done (some v)
        else bfsProg sel tgt fuel (some (u, pos + 1)) (q ++ [v]) (v :: vis)

/-- depth-first `search()`: the recursion stack holds (node, iterator position) frames -/
def dfsProg (sel : Adj K E → List (K × E)) (tgt : Option K) :
    Nat → List (K × Nat) → List K → Prog K E (Option K)
  | 0, _, _ => .done none
  | _ + 1, [], _ => .done none
  | fuel + 1, (u, pos) :: stack, vis =>
    (iterNext u sel pos).bind fun x =>
      match x with
      | none => dfsProg sel tgt fuel stack vis
      | some (v, _) =>
        if vis.contains v then dfsProg sel tgt fuel ((u, pos + 1) :: stack) vis
        else if tgt = some v then .done (some v)
        else dfsProg sel tgt fuel ((v, 0) :: (u, pos + 1) :: stack) (v :: vis)

/-- `preorder().search_nodes()` / `order().pre().search_nodes()`: nodes in discovery order -/
def preProg (sel : Adj K E → List (K × E)) :
    Nat → List (K × Nat) → List K → List K → Prog K E (List K)
  | 0, _, _, acc => .done acc
  | _ + 1, [], _, acc => .done acc
  | fuel + 1, (u, pos) :: stack, vis, acc =>
    (iterNext u sel pos).bind fun x =>
      match x with
      | none => preProg sel fuel stack vis acc
      | some (v, _) =>
        if vis.contains v then preProg sel fuel ((u, pos + 1) :: stack) vis acc
        else preProg sel fuel ((v, 0) :: (u, pos + 1) :: stack) (v :: vis) (acc ++ [v])

end Sync

/-! ## Running lock programs -/

abbrev Held (K : Type) := List (Lk K × Mode)

/-- may a thread that holds `mine` while the others hold `others` take `l` in mode `m`?
    (a thread never re-acquires a lock it holds: std's locks are not re-entrant) -/
def canAcquire (l : Lk K) (m : Mode) (mine others : Held K) : Bool :=
  !(mine.any fun h => h.1 = l) &&
  others.all fun h => !(h.1 = l) || (m = .r && h.2 = .r)

/-- one lock event as the hook reports it: the lock, the mode, how many guards the thread holds -/
abbrev Tok (K : Type) := Lk K × Mode × Nat

/-- run one program alone. `none` = it would block on a lock it already holds, or the fuel ran out -/
def runSingle {R : Type} : Nat → Prog K E R → Store K E → Held K → List (Tok K) → Option (Store K E × R × List (Tok K))
  | 0, _, _, _, _ => none
  | _ + 1, .done r, s, _, tr => some (s, r, tr)
  | n + 1, .acq l m p, s, held, tr =>
    if canAcquire l m held [] then runSingle n p s ((l, m) :: held) (tr ++ [(l, m, held.length)]) else none
  | n + 1, .rel l p, s, held, tr => runSingle n p s (held.filter fun h => !(h.1 = l)) tr
  | n + 1, .read c, s, held, tr => runSingle n (c s) s held tr
  | n + 1, .write u p, s, held, tr => runSingle n p (u s) held tr

/-! ## Threads -/

structure Th (K E R : Type) where
  prog : Prog K E R
  held : Held K := []

structure Conf (K E R : Type) where
  store : Store K E
  threads : List (Th K E R)

def Conf.othersHeld {R : Type} (c : Conf K E R) (i : Nat) : Held K :=
  ((c.threads.zipIdx.filter fun p => p.2 ≠ i).map fun p => p.1.held).flatten

/-- one atomic event of thread `i`; `none` = finished, blocked, or no such thread -/
def Conf.step {R : Type} (c : Conf K E R) (i : Nat) : Option (Conf K E R) :=
  match c.threads[i]? with
  | none => none
  | some t =>
    match t.prog with
    | .done _ => none
    | .acq l m p =>
      if canAcquire l m t.held (c.othersHeld i) then
        some { c with threads := c.threads.set i { prog := p, held := (l, m) :: t.held } }
      else none
    | .rel l p => some { c with threads := c.threads.set i { prog := p, held := t.held.filter fun h => !(h.1 = l) } }
    | .read k => some { c with threads := c.threads.set i { t with prog := k c.store } }
    | .write u p => some { store := u c.store, threads := c.threads.set i { t with prog := p } }

def Th.finished {R : Type} (t : Th K E R) : Bool := match t.prog with | .done _ => true | _ => false
def Th.result {R : Type} (t : Th K E R) : Option R := match t.prog with | .done r => some r | _ => none

/-- follow a schedule (a list of thread indices); a step that is not enabled is skipped -/
def Conf.runSched {R : Type} (c : Conf K E R) : List Nat → Conf K E R
  | [] => c
  | i :: rest => ((c.step i).getD c).runSched rest

/-- a thread that performs a list of calls one after the other, collecting their results -/
def seqProg {R : Type} : List (Prog K E R) → Prog K E (List R)
  | [] => .done []
  | p :: ps => p.bind fun r => (seqProg ps).bind fun rs => .done (r :: rs)

/-- the return values of a history run sequentially -/
def Di.results (s : Store K E) : List (Op K E) → List (Res E)
  | [] => []
  | op :: ops => (Di.step s op).2 :: Di.results (Di.step s op).1 ops
def Un.results (s : Store K E) : List (Op K E) → List (Res E)
  | [] => []
  | op :: ops => (Un.step s op).2 :: Un.results (Un.step s op).1 ops

/-- return values of a linearisation `[(thread, call), …]`, tagged with the thread -/
def linResults (step : Store K E → Op K E → Store K E × Res E) (s : Store K E) :
    List (Nat × Op K E) → List (Nat × Res E)
  | [] => []
  | (i, op) :: rest => (i, (step s op).2) :: linResults step (step s op).1 rest

/-- well-formed lock programs: `WF m n p` = `p` is run while holding the mutation mutex iff `m` and
    exactly the node lock `n` (if any). A node lock is requested only while holding no node lock, the
    mutex only while holding nothing, and a program ends holding nothing. -/
inductive WF {R : Type} : Bool → Option K → Prog K E R → Prop where
  | done {r : R} : WF false none (.done r)
  | acqM {p : Prog K E R} : WF true none p → WF false none (.acq .mutex .w p)
  | relM {p : Prog K E R} : WF false none p → WF true none (.rel .mutex p)
  | acqN {m : Bool} {k : K} {md : Mode} {p : Prog K E R} : WF m (some k) p → WF m none (.acq (.node k) md p)
  | relN {m : Bool} {k : K} {p : Prog K E R} : WF m none p → WF m (some k) (.rel (.node k) p)
  | read {m : Bool} {n : Option K} {c : Store K E → Prog K E R} : (∀ s, WF m n (c s)) → WF m n (.read c)
  | write {m : Bool} {n : Option K} {u : Store K E → Store K E} {p : Prog K E R} : WF m n p → WF m n (.write u p)

def WFProg {R : Type} (p : Prog K E R) : Prop := WF false none p

end G

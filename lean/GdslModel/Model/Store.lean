/-!
# Model of gdsl's adjacency store and the four edge operations

Core Lean only (no imports), so that the driver executable links.

One `Store` models the heap of nodes of one flavour: for every key the two adjacency
lists of that node (`Adjacent { outbound, inbound }` in `src/*/node/adjacent.rs`).
Entries are `(key of the peer, edge value)`; the Rust lists hold weak pointers, which the
model replaces by the peer's key ("live nodes with distinct keys").

The operations follow the Rust control flow statement by statement, including the order
of the two list updates, the `?`-propagated error branches and the positional `for` loops
of `isolate` (the iterator re-reads the live list at `position` on every step).
-/
namespace G

structure Adj (K E : Type) where
  out : List (K × E) := []
  inn : List (K × E) := []

structure Store (K E : Type) where
  cells : List (K × Adj K E) := []

variable {K E : Type} [DecidableEq K]

def Store.get (s : Store K E) (k : K) : Adj K E :=
  match s.cells.find? (fun p => p.1 = k) with
  | some p => p.2
  | none => {}

def setCells : List (K × Adj K E) → K → Adj K E → List (K × Adj K E)
  | [], k, a => [(k, a)]
  | (k', a') :: t, k, a => if k' = k then (k, a) :: t else (k', a') :: setCells t k a

def Store.set (s : Store K E) (k : K) (a : Adj K E) : Store K E := ⟨setCells s.cells k a⟩

/-- values of the entries of `l` whose key is `k`, in order -/
def vals (l : List (K × E)) (k : K) : List E := (l.filter (fun p => p.1 = k)).map (·.2)

/-- `Adjacent::remove_outbound` / `remove_inbound`: remove the first entry with key `k`,
    return its value and the remaining list (order kept). -/
def removeFirst : List (K × E) → K → Option (E × List (K × E))
  | [], _ => none
  | (k', e) :: t, k => if k' = k then some (e, t) else
      match removeFirst t k with
      | none => none
      | some (e', t') => some (e', (k', e) :: t')

/-- `Adjacent::find_outbound` / `find_inbound`: is there an entry with key `k` -/
def hasKey (l : List (K × E)) (k : K) : Bool := l.any (fun p => p.1 = k)

/-- an edge as the API reports it: `Edge(source, target, value)` -/
abbrev Edge (K E : Type) := K × K × E

/-- result of an edge operation -/
inductive Res (E : Type) where
  | unit | val (e : E) | notFound | exists_ | panic
  deriving Repr, DecidableEq

/-- `Node::connect` (all four flavours): push on the caller's outbound list, then on the
    callee's inbound list (two separate borrows, also when caller = callee). -/
def connect (s : Store K E) (u v : K) (e : E) : Store K E :=
  let au := s.get u
  let s1 := s.set u { au with out := au.out ++ [(v, e)] }
  let av := s1.get v
  s1.set v { av with inn := av.inn ++ [(u, e)] }

namespace Di

/-- `is_connected` = `find_outbound(..).is_some()` -/
def isConnected (s : Store K E) (u v : K) : Bool := hasKey (s.get u).out v

def tryConnect (s : Store K E) (u v : K) (e : E) : Store K E × Res E :=
  if isConnected s u v then (s, .exists_) else (connect s u v e, .unit)

/-- `disconnect`: `find_outbound` → `remove_outbound` on the caller (`?`) → `remove_inbound`
    on the callee (`?`). The caller's borrow is released before the callee's is taken. -/
def disconnect (s : Store K E) (u v : K) : Store K E × Res E :=
  if isConnected s u v then
    match removeFirst (s.get u).out v with
    | none => (s, .notFound)
    | some (e, out') =>
      let s1 := s.set u { s.get u with out := out' }
      match removeFirst (s1.get v).inn u with
      | none => (s1, .notFound)
      | some (_, inn') => (s1.set v { s1.get v with inn := inn' }, .val e)
  else (s, .notFound)

/-- `for Edge(_, v, _) in self.iter_out() { v.remove_inbound(self.key()).unwrap() }`:
    the iterator re-reads `self`'s outbound list at `pos` on every step. `true` = `unwrap` panicked. -/
def isoOutLoop (u : K) : Nat → Nat → Store K E → Store K E × Bool
  | 0, _, s => (s, false)
  | fuel + 1, pos, s =>
    match (s.get u).out[pos]? with
    | none => (s, false)
    | some (v, _) =>
      match removeFirst (s.get v).inn u with
      | none => (s, true)
      | some (_, inn') => isoOutLoop u fuel (pos + 1) (s.set v { s.get v with inn := inn' })

def isoInLoop (u : K) : Nat → Nat → Store K E → Store K E × Bool
  | 0, _, s => (s, false)
  | fuel + 1, pos, s =>
    match (s.get u).inn[pos]? with
    | none => (s, false)
    | some (v, _) =>
      match removeFirst (s.get v).out u with
      | none => (s, true)
      | some (_, out') => isoInLoop u fuel (pos + 1) (s.set v { s.get v with out := out' })

/-- `isolate`: both loops, then `clear_outbound`, `clear_inbound`. The fuel is the length of
    the iterated list at loop entry; the loops never lengthen that list, so it never runs out. -/
def isolate (s : Store K E) (u : K) : Store K E × Res E :=
  match isoOutLoop u (s.get u).out.length 0 s with
  | (s1, true) => (s1, .panic)
  | (s1, false) =>
    match isoInLoop u (s1.get u).inn.length 0 s1 with
    | (s2, true) => (s2, .panic)
    | (s2, false) => (s2.set u {}, .unit)

end Di

namespace Un

/-- `find_adjacent`: outbound first, then inbound -/
def isConnected (s : Store K E) (u v : K) : Bool := hasKey (s.get u).out v || hasKey (s.get u).inn v

def tryConnect (s : Store K E) (u v : K) (e : E) : Store K E × Res E :=
  if isConnected s u v then (s, .exists_) else (connect s u v e, .unit)

/-- `disconnect` (after the repair of F2): `find_adjacent` (`ok_or(EdgeNotFound)?`), then
    `remove_inbound(other)` on the caller; on success `remove_outbound(self)` on the peer (`?`);
    otherwise `remove_outbound(other)?` on the caller and `remove_inbound(self)?` on the peer. -/
def disconnect (s : Store K E) (u v : K) : Store K E × Res E :=
  if isConnected s u v then
    match removeFirst (s.get u).inn v with
    | some (e, inn') =>
      let s1 := s.set u { s.get u with inn := inn' }
      match removeFirst (s1.get v).out u with
      | none => (s1, .notFound)
      | some (_, out') => (s1.set v { s1.get v with out := out' }, .val e)
    | none =>
      match removeFirst (s.get u).out v with
      | none => (s, .notFound)
      | some (e, out') =>
        let s1 := s.set u { s.get u with out := out' }
        match removeFirst (s1.get v).inn u with
        | none => (s1, .notFound)
        | some (_, inn') => (s1.set v { s1.get v with inn := inn' }, .val e)
  else (s, .notFound)

/-- `for Edge(_, v, _) in self.iter()`: position into `out ++ inn` of the *live* store;
    `remove_inbound(self)` on the peer, else `remove_outbound(self).unwrap()`. -/
def isoLoop (u : K) : Nat → Nat → Store K E → Store K E × Bool
  | 0, _, s => (s, false)
  | fuel + 1, pos, s =>
    let a := s.get u
    match (a.out ++ a.inn)[pos]? with
    | none => (s, false)
    | some (v, _) =>
      match removeFirst (s.get v).inn u with
      | some (_, inn') => isoLoop u fuel (pos + 1) (s.set v { s.get v with inn := inn' })
      | none =>
        match removeFirst (s.get v).out u with
        | none => (s, true)
        | some (_, out') => isoLoop u fuel (pos + 1) (s.set v { s.get v with out := out' })

def isolate (s : Store K E) (u : K) : Store K E × Res E :=
  let a := s.get u
  match isoLoop u (a.out.length + a.inn.length) 0 s with
  | (s1, true) => (s1, .panic)
  | (s1, false) => (s1.set u {}, .unit)

end Un

/-- the edge operations as data (histories are lists of these) -/
inductive Op (K E : Type) where
  | connect (u v : K) (e : E)
  | tryConnect (u v : K) (e : E)
  | disconnect (u v : K)
  | isolate (u : K)
  deriving Repr

def Di.step (s : Store K E) : Op K E → Store K E × Res E
  | .connect u v e => (connect s u v e, .unit)
  | .tryConnect u v e => Di.tryConnect s u v e
  | .disconnect u v => Di.disconnect s u v
  | .isolate u => Di.isolate s u

def Un.step (s : Store K E) : Op K E → Store K E × Res E
  | .connect u v e => (connect s u v e, .unit)
  | .tryConnect u v e => Un.tryConnect s u v e
  | .disconnect u v => Un.disconnect s u v
  | .isolate u => Un.isolate s u

/-- the store after a history, starting from the empty store -/
def Di.run (ops : List (Op K E)) : Store K E := ops.foldl (fun s op => (Di.step s op).1) {}
def Un.run (ops : List (Op K E)) : Store K E := ops.foldl (fun s op => (Un.step s op).1) {}

end G

import GdslModel.Model.Json
/-!
# Byte-level model of the CBOR form of a graph document (C12, C13)

Core Lean only. `Serialize for Graph` writes the 2-tuple `(nodes, edges)`; through `serde_cbor` (0.11, default
features: no `tags`) this is a definite-length array of two definite-length arrays of definite-length arrays of
integers in their shortest encoding (`Cbor.print`). `Deserialize for Graph` asks for a sequence and reads at
most two elements from it; `serde_cbor` hands every typed visitor whatever data item comes next
(`deserialize_any`), so the reader (`Cbor.parse`) is the following grammar, specialised to the payload types
the harness instantiates (`K = usize`, `N = i64`, `E = u32`):

* an integer is a major-0 or major-1 item with its argument inline (`< 24`) or in 1, 2, 4 or 8 following bytes,
  of any width (non-shortest forms are accepted), and must fit the target type; everything else (floats, simple
  values, strings, maps, arrays) is a type error;
* an array is `0x80+n`, `0x98 n`, `0x99 nn`, `0x9a nnnn`, `0x9b nnnnnnnn` followed by exactly the elements the
  visitor consumes (a tuple visitor consumes its arity, a `Vec` visitor consumes all of them, the graph visitor
  at most two; elements left over are "trailing data"), or `0x9f`, elements, `0xff`;
* any item may be preceded by tags (`0xc0..0xdb` with their arguments), which are skipped;
* every array and every tag costs one unit of the recursion budget (128; the item that would bring it to 0 is an error);
* end of input inside an item is an error, and so is any byte after the document.

That the real `serde_cbor::from_slice::<Graph<usize, i64, u32>>` accepts exactly this language (and yields the same
document), and that `serde_cbor::to_vec` writes exactly `Cbor.print`, is what the C12/C13 correspondence checks on
raw bytes. Bytes are `Nat`s (`< 256` in everything the driver feeds in).
-/
namespace G.Cbor

abbrev Doc := Json.Doc

/-- big-endian value of a byte string -/
def beVal (bs : List Nat) : Nat := bs.foldl (fun a b => a * 256 + b) 0

/-- the argument of an item head whose additional information is `ai` (low five bits): inline, or in the next
    1/2/4/8 bytes. `none`: reserved (28..30), indefinite (31: handled by the callers that allow it), or end of input -/
def readArg (ai : Nat) (rest : List Nat) : Option (Nat × List Nat) :=
  if ai < 24 then some (ai, rest)
  else
    let w := if ai = 24 then 1 else if ai = 25 then 2 else if ai = 26 then 4 else if ai = 27 then 8 else 0
    if w = 0 then none
    else if rest.length < w then none
    else some (beVal (rest.take w), rest.drop w)

/-- skip the tags in front of an item; each costs one unit of depth. Returns the remaining depth and input. -/
def skipTags : Nat → Nat → List Nat → Option (Nat × List Nat)
  | 0, _, _ => none
  | _, _, [] => none
  | fuel + 1, d, b :: rest =>
    if 0xc0 ≤ b && b ≤ 0xdb then
      match readArg (b - 0xc0) rest with
      | none => none
      | some (_, rest') => if d ≤ 1 then none else skipTags fuel (d - 1) rest'
    else some (d, b :: rest)

/-- an integer item (after tags): major 0 = the argument, major 1 = `-1 - argument` -/
def readInt (d : Nat) (bs : List Nat) : Option (Int × List Nat) :=
  match skipTags (bs.length + 1) d bs with
  | none => none
  | some (_, []) => none
  | some (_, b :: rest) =>
    if b < 0x20 then (readArg b rest).map fun (v, r) => ((v : Int), r)
    else if b < 0x40 then (readArg (b - 0x20) rest).map fun (v, r) => (-1 - (v : Int), r)
    else none

def inU64 (v : Int) : Option Nat := if 0 ≤ v && v < 2 ^ 64 then some v.toNat else none
def inI64 (v : Int) : Option Int := if -(2 ^ 63) ≤ v && v < 2 ^ 63 then some v else none
def inU32 (v : Int) : Option Nat := if 0 ≤ v && v < 2 ^ 32 then some v.toNat else none

/-- head of an array item (after tags): `some (some n)` definite with `n` elements, `some none` indefinite.
    The array itself costs one unit of depth: the returned depth is the one its elements see. -/
def readArrayHead (d : Nat) (bs : List Nat) : Option (Option Nat × Nat × List Nat) :=
  match skipTags (bs.length + 1) d bs with
  | none => none
  | some (_, []) => none
  | some (d', b :: rest) =>
    if d' ≤ 1 then none
    else if b = 0x9f then some (none, d' - 1, rest)
    else if 0x80 ≤ b && b ≤ 0x9b then (readArg (b - 0x80) rest).map fun (n, r) => (some n, d' - 1, r)
    else none

/-- close an array whose visitor is done: a definite array must have no element left, an indefinite one must end here -/
def closeArray (left : Option Nat) (bs : List Nat) : Option (List Nat) :=
  match left with
  | some 0 => some bs
  | some _ => none
  | none => match bs with
    | 0xff :: rest => some rest
    | _ => none

/-- is there a next element? definite: count left; indefinite: the next byte is not the break. `none` = end of input -/
def hasNext (left : Option Nat) (bs : List Nat) : Option Bool :=
  match left with
  | some n => some (0 < n)
  | none => match bs with
    | [] => none
    | b :: _ => some (b ≠ 0xff)

def decLeft : Option Nat → Option Nat
  | some n => some (n - 1)
  | none => none

/-- a node `(K, N)`: a 2-tuple visitor -/
def readNode (d : Nat) (bs : List Nat) : Option ((Nat × Int) × List Nat) :=
  match readArrayHead d bs with
  | none => none
  | some (left, d', r0) =>
    match hasNext left r0 with
    | some true =>
      match readInt d' r0 with
      | none => none
      | some (k, r1) =>
        match inU64 k, hasNext (decLeft left) r1 with
        | some k, some true =>
          match readInt d' r1 with
          | none => none
          | some (v, r2) =>
            match inI64 v with
            | none => none
            | some v => (closeArray (decLeft (decLeft left)) r2).map fun r => ((k, v), r)
        | _, _ => none
    | _ => none

/-- an edge `(K, K, E)`: a 3-tuple visitor -/
def readEdge (d : Nat) (bs : List Nat) : Option ((Nat × Nat × Nat) × List Nat) :=
  match readArrayHead d bs with
  | none => none
  | some (left, d', r0) =>
    match hasNext left r0 with
    | some true =>
      match readInt d' r0 with
      | none => none
      | some (u, r1) =>
        match inU64 u, hasNext (decLeft left) r1 with
        | some u, some true =>
          match readInt d' r1 with
          | none => none
          | some (v, r2) =>
            match inU64 v, hasNext (decLeft (decLeft left)) r2 with
            | some v, some true =>
              match readInt d' r2 with
              | none => none
              | some (e, r3) =>
                match inU32 e with
                | none => none
                | some e => (closeArray (decLeft (decLeft (decLeft left))) r3).map fun r => ((u, v, e), r)
            | _, _ => none
        | _, _ => none
    | _ => none

/-- the elements of a `Vec<T>`: all of them. `fuel` bounds the loop by the input length (every element consumes a byte) -/
def readItems {α : Type} (item : List Nat → Option (α × List Nat)) : Nat → Option Nat → List Nat → Option (List α × List Nat)
  | 0, _, _ => none
  | fuel + 1, left, bs =>
    match hasNext left bs with
    | none => none
    | some false => (closeArray left bs).map fun r => ([], r)
    | some true =>
      match item bs with
      | none => none
      | some (x, r) => (readItems item fuel (decLeft left) r).map fun (xs, r') => (x :: xs, r')

def readVec {α : Type} (item : Nat → List Nat → Option (α × List Nat)) (d : Nat) (bs : List Nat) : Option (List α × List Nat) :=
  match readArrayHead d bs with
  | none => none
  | some (left, d', r0) => readItems (item d') (r0.length + 1) left r0

/-- `Deserialize for Graph` (`deserialize_seq` + `visit_seq`, at most two elements) followed by `Deserializer::end` -/
def parse (bs : List Nat) : Option Doc :=
  match readArrayHead 128 bs with
  | none => none
  | some (left, d, r0) =>
    match hasNext left r0 with
    | none => none
    | some false => match closeArray left r0 with
      | some [] => some ([], [])
      | _ => none
    | some true =>
      match readVec readNode d r0 with
      | none => none
      | some (ns, r1) =>
        match hasNext (decLeft left) r1 with
        | none => none
        | some false => match closeArray (decLeft left) r1 with
          | some [] => some (ns, [])
          | _ => none
        | some true =>
          match readVec readEdge d r1 with
          | none => none
          | some (es, r2) =>
            match closeArray (decLeft (decLeft left)) r2 with
            | some [] => some (ns, es)
            | _ => none

/-! ## the writer: what `serde_cbor::to_vec` writes -/

/-- big-endian bytes of `n` in exactly `w` bytes -/
def beBytes : Nat → Nat → List Nat
  | 0, _ => []
  | w + 1, n => beBytes w (n / 256) ++ [n % 256]

/-- an item head with major type `m` (already shifted: `0x00`, `0x20`, `0x80`) and argument `n < 2^64`, shortest form -/
def pHead (m n : Nat) : List Nat :=
  if n < 24 then [m + n]
  else if n < 2 ^ 8 then (m + 24) :: beBytes 1 n
  else if n < 2 ^ 16 then (m + 25) :: beBytes 2 n
  else if n < 2 ^ 32 then (m + 26) :: beBytes 4 n
  else (m + 27) :: beBytes 8 n

def pInt : Int → List Nat
  | .ofNat n => pHead 0x00 n
  | .negSucc n => pHead 0x20 n

def pNode (p : Nat × Int) : List Nat := pHead 0x80 2 ++ pHead 0x00 p.1 ++ pInt p.2
def pEdge (p : Nat × Nat × Nat) : List Nat := pHead 0x80 3 ++ pHead 0x00 p.1 ++ pHead 0x00 p.2.1 ++ pHead 0x00 p.2.2

def print (d : Doc) : List Nat :=
  pHead 0x80 2 ++ (pHead 0x80 d.1.length ++ (d.1.map pNode).flatten) ++ (pHead 0x80 d.2.length ++ (d.2.map pEdge).flatten)

/-- `serde_cbor::from_slice::<Graph<usize, i64, u32>>`: `none` = `Err` -/
def deCbor (bs : List Nat) : Option (List (Nat × Int) × Store Nat Nat) :=
  (parse bs).bind fun d => rebuild d.1 d.2

/-- `serde_cbor::to_vec(&graph)` for a container iterating in order `π` -/
def serCbor (s : Store Nat Nat) (nval : Nat → Int) (π : List Nat) : List Nat :=
  print (decompose s nval π)

end G.Cbor

import GdslModel.Lemmas.Path
/-!
# Breadth-first search: invariants and the C04 lemmas

Method: a Hoare-style rule for `bfsScan` / `bfsLoop` (`scan_rule`, `loop_rule`), then a few layered
invariants (structure of the tree, closure modulo the queue, ghost depth function, expansion order).
-/
namespace G
set_option linter.unusedSectionVars false
variable {K E : Type} [DecidableEq K]
namespace Bfs

/-! ## Hoare rules -/

/-- the state in which the scan of `u` stopped with success: the invariant held just before the edge
    `(u, v, e)` was processed, the edge is accepted, `v` is new and is the target -/
def FoundAt (c : Cfg K E) (u : K) (P : List (K × E) → TSt K E → List K → Prop) (st' : TSt K E) : Prop :=
  ∃ v e rest st q, P ((v, e) :: rest) st q ∧ c.acc u v e = true ∧ v ∉ st.vis ∧ c.target = some v ∧
    st' = ⟨v :: st.vis, st.tree ++ [(u, v, e)], st.trace ++ [(u, v, e)]⟩

structure ScanSteps (c : Cfg K E) (u : K) (P : List (K × E) → TSt K E → List K → Prop) : Prop where
  skip : ∀ v e rest st q, P ((v, e) :: rest) st q → (c.acc u v e = false ∨ v ∈ st.vis) →
    P rest ⟨st.vis, st.tree, st.trace ++ [(u, v, e)]⟩ q
  push : ∀ v e rest st q, P ((v, e) :: rest) st q → c.acc u v e = true → v ∉ st.vis → c.target ≠ some v →
    P rest ⟨v :: st.vis, st.tree ++ [(u, v, e)], st.trace ++ [(u, v, e)]⟩ (q ++ [v])

theorem scan_rule {c : Cfg K E} {u : K} {P : List (K × E) → TSt K E → List K → Prop}
    (hs : ScanSteps c u P) (l : List (K × E)) (st : TSt K E) (q : List K) (h : P l st q)
    (f : Bool) (st' : TSt K E) (q' : List K) (hr : bfsScan c u l st q = (f, st', q')) :
    (f = true → FoundAt c u P st') ∧ (f = false → P [] st' q') := by
  induction l generalizing st q with
  | nil =>
    simp only [bfsScan, Prod.mk.injEq] at hr
    obtain ⟨rfl, rfl, rfl⟩ := hr
    exact ⟨nofun, fun _ => h⟩
  | cons p rest ih =>
    obtain ⟨v, e⟩ := p
    simp only [bfsScan] at hr
    by_cases hacc : c.acc u v e = true
    · simp only [hacc, if_true] at hr
      by_cases hv : v ∈ st.vis
      · simp only [hv, if_true] at hr
        exact ih _ _ (hs.skip v e rest st q h (Or.inr hv)) hr
      · simp only [hv, if_false] at hr
        by_cases ht : c.target = some v
        · simp only [ht, if_true, Prod.mk.injEq] at hr
          obtain ⟨rfl, rfl, rfl⟩ := hr
          exact ⟨fun _ => ⟨v, e, rest, st, q, h, hacc, hv, ht, rfl⟩, nofun⟩
        · simp only [ht, if_false] at hr
          exact ih _ _ (hs.push v e rest st q h hacc hv ht) hr
    · have hacc' : c.acc u v e = false := by simpa using hacc
      simp only [hacc', Bool.false_eq_true, if_false] at hr
      exact ih _ _ (hs.skip v e rest st q h (Or.inl hacc')) hr

theorem loop_rule {c : Cfg K E} {I : List K → TSt K E → Prop}
    {P : K → List (K × E) → TSt K E → List K → Prop}
    (pop : ∀ u q st, I (u :: q) st → P u (c.adj u) st q)
    (steps : ∀ u, ScanSteps c u (P u))
    (fin : ∀ u st q, P u [] st q → I q st)
    (fuel : Nat) (q : List K) (st : TSt K E) (f : Bool) (st' : TSt K E) (hI : I q st)
    (h : bfsLoop c fuel q st = some (f, st')) :
    (f = true → ∃ u, FoundAt c u (P u) st') ∧ (f = false → I [] st') := by
  induction fuel generalizing q st with
  | zero => simp [bfsLoop] at h
  | succ fuel ih =>
    cases q with
    | nil =>
      simp only [bfsLoop, Option.some.injEq, Prod.mk.injEq] at h
      obtain ⟨rfl, rfl⟩ := h
      exact ⟨nofun, fun _ => hI⟩
    | cons u q =>
      simp only [bfsLoop] at h
      rcases hsc : bfsScan c u (c.adj u) st q with ⟨f1, st1, q1⟩
      have hr := scan_rule (steps u) (c.adj u) st q (pop u q st hI) f1 st1 q1 hsc
      rw [hsc] at h
      cases f1 with
      | true =>
        simp only [Option.some.injEq, Prod.mk.injEq] at h
        obtain ⟨rfl, rfl⟩ := h
        exact ⟨fun _ => ⟨u, hr.1 rfl⟩, nofun⟩
      | false =>
        exact ih q1 st1 (fin u st1 q1 (hr.2 rfl)) h


/-! ## small list facts -/

theorem forall_mem_snoc {α : Type} {p : α → Prop} {l : List α} {a : α} :
    (∀ x ∈ l ++ [a], p x) ↔ (∀ x ∈ l, p x) ∧ p a := by
  constructor
  · intro h
    exact ⟨fun x hx => h x (List.mem_append_left _ hx), h a (List.mem_append_right _ (List.mem_singleton.mpr rfl))⟩
  · rintro ⟨h1, h2⟩ x hx
    rcases List.mem_append.mp hx with hx | hx
    · exact h1 x hx
    · rw [List.mem_singleton] at hx; subst hx; exact h2

theorem mem_snoc {α : Type} {l : List α} {a x : α} : x ∈ l ++ [a] ↔ x ∈ l ∨ x = a := by
  rw [List.mem_append, List.mem_singleton]

theorem mem_of_split {α : Type} {l done rest : List α} {a : α} (h : l = done ++ a :: rest) : a ∈ l := by
  rw [h]; exact List.mem_append_right _ List.mem_cons_self

theorem split_next {α : Type} {l done rest : List α} {a : α} (h : l = done ++ a :: rest) :
    l = (done ++ [a]) ++ rest := by
  rw [h, List.append_assoc]; rfl

theorem nodup_map_snoc {α β : Type} {f : α → β} {l : List α} {a : α} (h : (l.map f).Nodup)
    (ha : f a ∉ l.map f) : ((l ++ [a]).map f).Nodup := by
  rw [List.map_append, List.nodup_append]
  refine ⟨h, by simp, ?_⟩
  intro x hx y hy hxy
  rw [List.map_cons, List.map_nil, List.mem_singleton] at hy
  exact ha (hy ▸ hxy ▸ hx)

/-- "known" nodes: the root (queued but, in cycle mode, not marked) and the visited ones -/
def S (r : K) (vis : List K) (x : K) : Prop := x = r ∨ x ∈ vis

theorem S.mono {r : K} {vis : List K} {x v : K} (h : S r vis x) : S r (v :: vis) x :=
  h.elim Or.inl fun h => Or.inr (List.mem_cons_of_mem _ h)

/-! ## Layer 1: structure of the tree -/

structure Inv1 (r : K) (c : Cfg K E) (src : List K) (st : TSt K E) : Prop where
  mode : r ∈ st.vis ∨ c.target = some r
  visnd : st.vis.Nodup
  tacc : ∀ x ∈ st.tree, (x.2.1, x.2.2) ∈ accAdj c.adj c.acc x.1
  trc : ∀ x ∈ st.trace, (x.2.1, x.2.2) ∈ c.adj x.1
  dtree : DTree r st.tree
  hroot : ∀ x ∈ st.tree, x.2.1 ≠ r
  tvis : ∀ x ∈ st.tree, x.2.1 ∈ st.vis
  tnd : (st.tree.map (fun x => x.2.1)).Nodup
  srcT : ∀ x ∈ src, x = r ∨ ∃ y ∈ st.tree, y.2.1 = x
  reach : ∀ x ∈ st.vis, Reach (accAdj c.adj c.acc) r x

def P1 (r : K) (c : Cfg K E) (u : K) (rest : List (K × E)) (st : TSt K E) (q : List K) : Prop :=
  Inv1 r c (u :: q) st ∧ ∃ done, c.adj u = done ++ rest

theorem Inv1.srcS {r : K} {c : Cfg K E} {src : List K} {st : TSt K E} (h : Inv1 r c src st) :
    ∀ x ∈ src, S r st.vis x := by
  intro x hx
  rcases h.srcT x hx with h' | ⟨y, hy, hyx⟩
  · exact Or.inl h'
  · exact Or.inr (hyx ▸ h.tvis y hy)

theorem Inv1.treeS {r : K} {c : Cfg K E} {src : List K} {st : TSt K E} (h : Inv1 r c src st) :
    ∀ x ∈ st.tree, S r st.vis x.1 := by
  intro x hx
  rcases h.dtree.src x hx with h' | ⟨y, hy, hyx⟩
  · exact Or.inl h'
  · exact Or.inr (hyx ▸ h.tvis y hy)

theorem Inv1.reachS {r : K} {c : Cfg K E} {src : List K} {st : TSt K E} (h : Inv1 r c src st)
    {x : K} (hx : S r st.vis x) : Reach (accAdj c.adj c.acc) r x := by
  rcases hx with h' | h'
  · subst h'; exact .refl _
  · exact h.reach x h'

/-- a fresh node that is not the target is not the root -/
theorem Inv1.fresh_ne_root {r : K} {c : Cfg K E} {src : List K} {st : TSt K E} (h : Inv1 r c src st)
    {v : K} (hv : v ∉ st.vis) (ht : c.target ≠ some v) : v ≠ r := by
  intro hvr; subst hvr
  rcases h.mode with h' | h'
  · exact hv h'
  · exact ht h'

theorem Inv1.fresh_notS {r : K} {c : Cfg K E} {src : List K} {st : TSt K E} (h : Inv1 r c src st)
    {v : K} (hv : v ∉ st.vis) (ht : c.target ≠ some v) : ¬ S r st.vis v :=
  fun hs => hs.elim (h.fresh_ne_root hv ht) hv

theorem mem_accAdj {adj : K → List (K × E)} {acc : K → K → E → Bool} {u v : K} {e : E} :
    (v, e) ∈ accAdj adj acc u ↔ (v, e) ∈ adj u ∧ acc u v e = true := by
  simp only [accAdj, List.mem_filter]

theorem steps1 (r : K) (c : Cfg K E) (u : K) : ScanSteps c u (P1 r c u) where
  skip := by
    rintro v e rest st q ⟨h, done, hd⟩ _
    refine ⟨⟨h.mode, h.visnd, h.tacc, ?_, h.dtree, h.hroot, h.tvis, h.tnd, h.srcT, h.reach⟩,
      done ++ [(v, e)], split_next hd⟩
    exact forall_mem_snoc.mpr ⟨h.trc, mem_of_split hd⟩
  push := by
    rintro v e rest st q ⟨h, done, hd⟩ hacc hv ht
    have hve : (v, e) ∈ c.adj u := mem_of_split hd
    have hveA : (v, e) ∈ accAdj c.adj c.acc u := mem_accAdj.mpr ⟨hve, hacc⟩
    have hvr : v ≠ r := h.fresh_ne_root hv ht
    refine ⟨⟨?_, ?_, ?_, ?_, ?_, ?_, ?_, ?_, ?_, ?_⟩, done ++ [(v, e)], split_next hd⟩
    · exact h.mode.elim (fun h' => Or.inl (List.mem_cons_of_mem _ h')) Or.inr
    · exact List.nodup_cons.mpr ⟨hv, h.visnd⟩
    · exact forall_mem_snoc.mpr ⟨h.tacc, hveA⟩
    · exact forall_mem_snoc.mpr ⟨h.trc, hve⟩
    · exact .snoc h.dtree (h.srcT u List.mem_cons_self)
    · exact forall_mem_snoc.mpr ⟨h.hroot, hvr⟩
    · exact forall_mem_snoc.mpr ⟨fun x hx => List.mem_cons_of_mem _ (h.tvis x hx), List.mem_cons_self⟩
    · refine nodup_map_snoc h.tnd fun hmem => ?_
      obtain ⟨x, hx, hxa⟩ := List.mem_map.mp hmem
      have hxa' : x.2.1 = v := hxa
      exact hv (hxa' ▸ h.tvis x hx)
    · intro x hx
      have hx' : x ∈ u :: q ∨ x = v := by
        rcases List.mem_cons.mp hx with h' | h'
        · exact Or.inl (h' ▸ List.mem_cons_self)
        · rcases mem_snoc.mp h' with h'' | h''
          · exact Or.inl (List.mem_cons_of_mem _ h'')
          · exact Or.inr h''
      rcases hx' with h' | h'
      · rcases h.srcT x h' with h'' | ⟨y, hy, hyx⟩
        · exact Or.inl h''
        · exact Or.inr ⟨y, List.mem_append_left _ hy, hyx⟩
      · exact Or.inr ⟨(u, v, e), mem_snoc.mpr (Or.inr rfl), h'.symm⟩
    · intro x hx
      rcases List.mem_cons.mp hx with h' | h'
      · subst h'
        exact .step (h.reachS (h.srcS u List.mem_cons_self)) hveA
      · exact h.reach x h'

theorem pop1 (r : K) (c : Cfg K E) (u : K) (q : List K) (st : TSt K E) (h : Inv1 r c (u :: q) st) :
    P1 r c u (c.adj u) st q := ⟨h, [], rfl⟩

theorem fin1 (r : K) (c : Cfg K E) (u : K) (st : TSt K E) (q : List K) (h : P1 r c u [] st q) :
    Inv1 r c q st :=
  { h.1 with srcT := fun x hx => h.1.srcT x (List.mem_cons_of_mem _ hx) }

theorem init1 (r : K) (c : Cfg K E) (vis0 : List K) (hm : r ∈ vis0 ∨ c.target = some r)
    (hv : ∀ x ∈ vis0, x = r) (hn : vis0.Nodup) : Inv1 r c [r] ⟨vis0, [], []⟩ where
  mode := hm
  visnd := hn
  tacc := nofun
  trc := nofun
  dtree := .nil
  hroot := nofun
  tvis := nofun
  tnd := List.nodup_nil
  srcT := fun x hx => Or.inl (List.mem_singleton.mp hx)
  reach := fun x hx => by rw [hv x hx]; exact .refl _

/-- what the structural invariant gives at the moment the target is found -/
theorem Inv1.found {r : K} {c : Cfg K E} {u : K} {q : List K} {st : TSt K E} (h : Inv1 r c (u :: q) st)
    {v : K} {e : E} (hve : (v, e) ∈ c.adj u) (hacc : c.acc u v e = true) (hv : v ∉ st.vis) :
    ∃ p, backtrack (st.tree ++ [(u, v, e)]) = p ++ [(u, v, e)] ∧ Chain r u p ∧ (∀ x ∈ p, x ∈ st.tree) ∧
      IsPath (accAdj c.adj c.acc) r v (p ++ [(u, v, e)]) ∧
      ((p ++ [(u, v, e)]).map (fun x => x.2.1)).Nodup := by
  have hdt : DTree r (st.tree ++ [(u, v, e)]) := .snoc h.dtree (h.srcT u List.mem_cons_self)
  obtain ⟨p, hp, hch, hsub⟩ := backtrack_spec r st.tree (u, v, e) hdt h.hroot
  have hveA : (v, e) ∈ accAdj c.adj c.acc u := mem_accAdj.mpr ⟨hve, hacc⟩
  have hw : Walk (accAdj c.adj c.acc) r u p := chain_walk _ hch fun x hx => h.tacc x (hsub x hx)
  refine ⟨p, hp, hch, hsub, ⟨by simp, .snoc hw hveA⟩, ?_⟩
  have hs := chain_simple r st.tree h.tnd h.hroot hch hsub
  refine nodup_map_snoc (List.nodup_cons.mp hs).2 fun hmem => ?_
  obtain ⟨x, hx, hxa⟩ := List.mem_map.mp hmem
  have hxa' : x.2.1 = v := hxa
  exact hv (hxa' ▸ h.tvis x (hsub x hx))

/-! ## Layer 0: the target stays unvisited while the search continues -/

def P0 (t : K) (_rest : List (K × E)) (st : TSt K E) (_q : List K) : Prop := t ∉ st.vis

theorem steps0 (c : Cfg K E) (t : K) (ht : c.target = some t) (u : K) : ScanSteps c u (P0 t) where
  skip := fun _ _ _ _ _ h _ => h
  push := by
    intro v e rest st q h _ _ hne hmem
    rcases List.mem_cons.mp hmem with h' | h'
    · exact hne (h' ▸ ht)
    · exact h h'

/-! ## Layer 2: closure modulo the queue -/

def I2 (r : K) (c : Cfg K E) (q : List K) (st : TSt K E) : Prop :=
  ∀ x, S r st.vis x → x ∉ q → ∀ p ∈ accAdj c.adj c.acc x, p.1 ∈ st.vis

def P2 (r : K) (c : Cfg K E) (u : K) (rest : List (K × E)) (st : TSt K E) (q : List K) : Prop :=
  (∀ x, S r st.vis x → x ≠ u → x ∉ q → ∀ p ∈ accAdj c.adj c.acc x, p.1 ∈ st.vis) ∧
  ∃ done, c.adj u = done ++ rest ∧ ∀ p ∈ done, c.acc u p.1 p.2 = true → p.1 ∈ st.vis

theorem steps2 (r : K) (c : Cfg K E) (u : K) : ScanSteps c u (P2 r c u) where
  skip := by
    rintro v e rest st q ⟨h, done, hd, hdone⟩ hc
    refine ⟨h, done ++ [(v, e)], split_next hd, forall_mem_snoc.mpr ⟨hdone, ?_⟩⟩
    intro ha
    rcases hc with hc | hc
    · rw [hc] at ha; cases ha
    · exact hc
  push := by
    rintro v e rest st q ⟨h, done, hd, hdone⟩ _ hv _
    refine ⟨?_, done ++ [(v, e)], split_next hd, forall_mem_snoc.mpr ⟨?_, ?_⟩⟩
    · intro x hx hxu hxq p hp
      have hxv : x ≠ v := fun h' => hxq (mem_snoc.mpr (Or.inr h'))
      have hxS : S r st.vis x := hx.elim Or.inl fun h' =>
        (List.mem_cons.mp h').elim (fun h'' => absurd h'' hxv) Or.inr
      exact List.mem_cons_of_mem _ (h x hxS hxu (fun h' => hxq (List.mem_append_left _ h')) p hp)
    · exact fun p hp ha => List.mem_cons_of_mem _ (hdone p hp ha)
    · exact fun _ => List.mem_cons_self

theorem pop2 (r : K) (c : Cfg K E) (u : K) (q : List K) (st : TSt K E) (h : I2 r c (u :: q) st) :
    P2 r c u (c.adj u) st q :=
  ⟨fun x hx hxu hxq => h x hx (fun h' => (List.mem_cons.mp h').elim hxu hxq), [], rfl, nofun⟩

theorem fin2 (r : K) (c : Cfg K E) (u : K) (st : TSt K E) (q : List K) (h : P2 r c u [] st q) :
    I2 r c q st := by
  obtain ⟨h, done, hd, hdone⟩ := h
  intro x hx hxq p hp
  by_cases hxu : x = u
  · subst hxu
    obtain ⟨hp1, hp2⟩ := mem_accAdj.mp (show (p.1, p.2) ∈ _ from hp)
    rw [hd, List.append_nil] at hp1
    exact hdone p hp1 hp2
  · exact h x hx hxu hxq p hp

theorem init2 (r : K) (c : Cfg K E) (vis0 : List K) (hv : ∀ x ∈ vis0, x = r) : I2 r c [r] ⟨vis0, [], []⟩ := by
  intro x hx hxq
  have : x = r := hx.elim id (hv x)
  exact absurd (List.mem_singleton.mpr this) hxq

/-- when the queue is empty the known set is closed: every walk from the root stays inside -/
theorem I2.walk {r : K} {c : Cfg K E} {st : TSt K E} (h : I2 r c [] st) {b : K} {p : List (Edge K E)}
    (hw : Walk (accAdj c.adj c.acc) r b p) : S r st.vis b ∧ (p ≠ [] → b ∈ st.vis) := by
  induction hw with
  | nil => exact ⟨Or.inl rfl, fun h' => absurd rfl h'⟩
  | @snoc b c' e p _ he ih =>
    have := h b ih.1 List.not_mem_nil (c', e) he
    exact ⟨Or.inr this, fun _ => this⟩


theorem ScanSteps.and {c : Cfg K E} {u : K} {P P' : List (K × E) → TSt K E → List K → Prop}
    (h : ScanSteps c u P) (h' : ScanSteps c u P') : ScanSteps c u (fun l st q => P l st q ∧ P' l st q) where
  skip := fun v e rest st q hp hc => ⟨h.skip v e rest st q hp.1 hc, h'.skip v e rest st q hp.2 hc⟩
  push := fun v e rest st q hp ha hv ht =>
    ⟨h.push v e rest st q hp.1 ha hv ht, h'.push v e rest st q hp.2 ha hv ht⟩

/-! ## Layer 3: ghost depth function -/

structure Min (r : K) (c : Cfg K E) (d : K → Nat) (u : K) (st : TSt K E) (q : List K) : Prop where
  d0 : d r = 0
  tdepth : ∀ x ∈ st.tree, d x.2.1 = d x.1 + 1
  low : ∀ x, S r st.vis x → ∀ p, Walk (accAdj c.adj c.acc) r x p → d x ≤ p.length
  front_ge : ∀ x ∈ q, d u ≤ d x
  front_le : ∀ x ∈ q, d x ≤ d u + 1
  sorted : q.Pairwise (fun a b => d a ≤ d b)

structure MinI (r : K) (c : Cfg K E) (d : K → Nat) (st : TSt K E) (q : List K) : Prop where
  d0 : d r = 0
  tdepth : ∀ x ∈ st.tree, d x.2.1 = d x.1 + 1
  low : ∀ x, S r st.vis x → ∀ p, Walk (accAdj c.adj c.acc) r x p → d x ≤ p.length
  span : ∀ x ∈ q, ∀ y ∈ q, d x ≤ d y + 1
  sorted : q.Pairwise (fun a b => d a ≤ d b)

def P3 (r : K) (c : Cfg K E) (u : K) (rest : List (K × E)) (st : TSt K E) (q : List K) : Prop :=
  P1 r c u rest st q ∧ P2 r c u rest st q ∧ ∃ d, Min r c d u st q

def I3 (r : K) (c : Cfg K E) (q : List K) (st : TSt K E) : Prop :=
  Inv1 r c q st ∧ I2 r c q st ∧ ∃ d, MinI r c d st q

section frontier
variable {r : K} {c : Cfg K E} {d : K → Nat} {u : K} {st : TSt K E} {q : List K}
  (hcl : ∀ x, S r st.vis x → x ≠ u → x ∉ q → ∀ p ∈ accAdj c.adj c.acc x, p.1 ∈ st.vis)
  (m : Min r c d u st q)
include hcl m

theorem front_step {b c' : K} {e : E} {p : List (Edge K E)} (hw : Walk (accAdj c.adj c.acc) r b p)
    (hb : S r st.vis b) (he : (c', e) ∈ accAdj c.adj c.acc b) (hc : c' ∉ st.vis) : d u ≤ p.length := by
  have hlow := m.low b hb p hw
  by_cases hbu : b = u
  · subst hbu; exact hlow
  · by_cases hbq : b ∈ q
    · exact Nat.le_trans (m.front_ge b hbq) hlow
    · exact absurd (hcl b hb hbu hbq (c', e) he) hc

/-- every walk to an unknown node is longer than the depth of the node being expanded -/
theorem frontier {x : K} {p : List (Edge K E)} (hw : Walk (accAdj c.adj c.acc) r x p)
    (hx : ¬ S r st.vis x) : d u + 1 ≤ p.length := by
  induction hw with
  | nil => exact absurd (Or.inl rfl) hx
  | @snoc b c' e p hw he ih =>
    rw [List.length_append, List.length_singleton]
    by_cases hb : S r st.vis b
    · exact Nat.succ_le_succ (front_step hcl m hw hb he fun h => hx (Or.inr h))
    · exact Nat.le_succ_of_le (ih hb)

theorem front_edge {b c' : K} {e : E} {p : List (Edge K E)} (hw : Walk (accAdj c.adj c.acc) r b p)
    (he : (c', e) ∈ accAdj c.adj c.acc b) (hc : c' ∉ st.vis) : d u ≤ p.length := by
  by_cases hb : S r st.vis b
  · exact front_step hcl m hw hb he hc
  · exact Nat.le_of_succ_le (frontier hcl m hw hb)

end frontier

theorem Min.push {r : K} {c : Cfg K E} {d : K → Nat} {u : K} {st : TSt K E} {q : List K} {rest : List (K × E)}
    (h1 : P1 r c u rest st q) (h2 : P2 r c u rest st q) (m : Min r c d u st q)
    {v : K} {e : E} {tr : List (Edge K E)} (hv : v ∉ st.vis) (ht : c.target ≠ some v) :
    Min r c (fun x => if x = v then d u + 1 else d x) u ⟨v :: st.vis, st.tree ++ [(u, v, e)], tr⟩ (q ++ [v]) := by
  have hnS : ¬ S r st.vis v := h1.1.fresh_notS hv ht
  have hd' : ∀ x, S r st.vis x → (if x = v then d u + 1 else d x) = d x := by
    intro x hx
    rw [if_neg]
    intro hxv; subst hxv; exact hnS hx
  have hSu : S r st.vis u := h1.1.srcS u List.mem_cons_self
  have hSq : ∀ x ∈ q, S r st.vis x := fun x hx => h1.1.srcS x (List.mem_cons_of_mem _ hx)
  have hdv : (if v = v then d u + 1 else d v) = d u + 1 := if_pos rfl
  refine ⟨?_, ?_, ?_, ?_, ?_, ?_⟩
  · show (if r = v then d u + 1 else d r) = 0
    rw [hd' r (Or.inl rfl)]; exact m.d0
  · refine forall_mem_snoc.mpr ⟨?_, ?_⟩
    · intro x hx
      show (if x.2.1 = v then d u + 1 else d x.2.1) = (if x.1 = v then d u + 1 else d x.1) + 1
      rw [hd' _ (h1.1.treeS x hx), hd' _ (Or.inr (h1.1.tvis x hx))]
      exact m.tdepth x hx
    · show (if v = v then d u + 1 else d v) = (if u = v then d u + 1 else d u) + 1
      rw [hdv, hd' u hSu]
  · intro x hx p hw
    show (if x = v then d u + 1 else d x) ≤ p.length
    by_cases hxv : x = v
    · subst hxv; rw [hdv]; exact frontier h2.1 m hw hnS
    · have hxS : S r st.vis x := hx.elim Or.inl fun h' =>
        (List.mem_cons.mp h').elim (fun h'' => absurd h'' hxv) Or.inr
      rw [hd' x hxS]; exact m.low x hxS p hw
  · intro x hx
    show (if u = v then d u + 1 else d u) ≤ (if x = v then d u + 1 else d x)
    rw [hd' u hSu]
    rcases mem_snoc.mp hx with h' | h'
    · rw [hd' x (hSq x h')]; exact m.front_ge x h'
    · subst h'; rw [hdv]; exact Nat.le_succ _
  · intro x hx
    show (if x = v then d u + 1 else d x) ≤ (if u = v then d u + 1 else d u) + 1
    rw [hd' u hSu]
    rcases mem_snoc.mp hx with h' | h'
    · rw [hd' x (hSq x h')]; exact m.front_le x h'
    · subst h'; rw [hdv]; exact Nat.le_refl _
  · rw [List.pairwise_append]
    refine ⟨?_, List.pairwise_singleton _ _, ?_⟩
    · refine m.sorted.imp_of_mem ?_
      intro a b ha hb hab
      show (if a = v then d u + 1 else d a) ≤ (if b = v then d u + 1 else d b)
      rw [hd' a (hSq a ha), hd' b (hSq b hb)]; exact hab
    · intro a ha b hb
      rw [List.mem_singleton] at hb; rw [hb]
      show (if a = v then d u + 1 else d a) ≤ (if v = v then d u + 1 else d v)
      rw [hd' a (hSq a ha), hdv]; exact m.front_le a ha

theorem steps3 (r : K) (c : Cfg K E) (u : K) : ScanSteps c u (P3 r c u) where
  skip := by
    rintro v e rest st q ⟨h1, h2, d, m⟩ hc
    exact ⟨(steps1 r c u).skip v e rest st q h1 hc, (steps2 r c u).skip v e rest st q h2 hc,
      d, ⟨m.d0, m.tdepth, m.low, m.front_ge, m.front_le, m.sorted⟩⟩
  push := by
    rintro v e rest st q ⟨h1, h2, d, m⟩ ha hv ht
    exact ⟨(steps1 r c u).push v e rest st q h1 ha hv ht, (steps2 r c u).push v e rest st q h2 ha hv ht,
      _, Min.push h1 h2 m hv ht⟩

theorem pop3 (r : K) (c : Cfg K E) (u : K) (q : List K) (st : TSt K E) (h : I3 r c (u :: q) st) :
    P3 r c u (c.adj u) st q := by
  obtain ⟨h1, h2, d, m⟩ := h
  have hs := List.pairwise_cons.mp m.sorted
  exact ⟨pop1 r c u q st h1, pop2 r c u q st h2, d, m.d0, m.tdepth, m.low, hs.1,
    fun x hx => m.span x (List.mem_cons_of_mem _ hx) u List.mem_cons_self, hs.2⟩

theorem fin3 (r : K) (c : Cfg K E) (u : K) (st : TSt K E) (q : List K) (h : P3 r c u [] st q) :
    I3 r c q st := by
  obtain ⟨h1, h2, d, m⟩ := h
  exact ⟨fin1 r c u st q h1, fin2 r c u st q h2, d, m.d0, m.tdepth, m.low,
    fun x hx y hy => Nat.le_trans (m.front_le x hx) (Nat.succ_le_succ (m.front_ge y hy)), m.sorted⟩

theorem init3 (r : K) (c : Cfg K E) (vis0 : List K) (hm : r ∈ vis0 ∨ c.target = some r)
    (hv : ∀ x ∈ vis0, x = r) (hn : vis0.Nodup) : I3 r c [r] ⟨vis0, [], []⟩ :=
  ⟨init1 r c vis0 hm hv hn, init2 r c vis0 hv, fun _ => 0, rfl, nofun, fun _ _ _ _ => Nat.zero_le _,
    fun _ _ _ _ => Nat.zero_le _, List.pairwise_singleton _ _⟩

/-- the result of a successful scan, seen through all three layers -/
theorem P3.found {r : K} {c : Cfg K E} {u : K} {st' : TSt K E} (h : FoundAt c u (P3 r c u) st') :
    ∃ t, c.target = some t ∧ IsPath (accAdj c.adj c.acc) r t (backtrack st'.tree) ∧
      ((backtrack st'.tree).map (fun x => x.2.1)).Nodup ∧
      ∀ p, IsPath (accAdj c.adj c.acc) r t p → (backtrack st'.tree).length ≤ p.length := by
  obtain ⟨v, e, rest, st, q, ⟨h1, h2, d, m⟩, hacc, hv, ht, rfl⟩ := h
  obtain ⟨done, hd⟩ := h1.2
  obtain ⟨p, hp, hch, hsub, hpath, hnd⟩ := h1.1.found (mem_of_split hd) hacc hv
  have hlen : p.length = d u := chain_depth st.tree d r m.d0 m.tdepth hch hsub
  refine ⟨v, ht, ?_, ?_, ?_⟩
  · show IsPath _ r v (backtrack (st.tree ++ [(u, v, e)]))
    rw [hp]; exact hpath
  · show ((backtrack (st.tree ++ [(u, v, e)])).map (fun x => x.2.1)).Nodup
    rw [hp]; exact hnd
  · intro p' hp'
    show (backtrack (st.tree ++ [(u, v, e)])).length ≤ p'.length
    rw [hp, List.length_append, List.length_singleton, hlen]
    obtain ⟨hne, hw⟩ := hp'
    cases hw with
    | nil => exact absurd rfl hne
    | @snoc b _ e' p'' hw' he' =>
      rw [List.length_append, List.length_singleton]
      exact Nat.succ_le_succ (front_edge h2.1 m hw' he' hv)

/-! ## The runs -/

theorem runLoop_bfs {adj : K → List (K × E)} {acc : K → K → E → Bool} {nval : K → Int} {root : K}
    {target : Option K} {cycle : Bool} {fuel : Nat} {r : Run K E}
    (h : runLoop adj acc nval .bfs root target cycle fuel = some r) :
    bfsLoop ⟨adj, acc, goal root target cycle⟩ fuel [root] ⟨if cycle then [] else [root], [], []⟩ =
      some (r.found, r.st) := by
  simp only [runLoop, Option.map_eq_some_iff] at h
  obtain ⟨⟨f, st⟩, h1, rfl⟩ := h
  exact h1

theorem init_vis (root : K) (target : Option K) (cycle : Bool) :
    (root ∈ (if cycle then [] else [root]) ∨ goal root target cycle = some root) ∧
    (∀ x ∈ (if cycle then [] else [root]), x = root) ∧ (if cycle then [] else [root]).Nodup := by
  cases cycle <;> simp [goal]

theorem run3 {adj : K → List (K × E)} {acc : K → K → E → Bool} {nval : K → Int} {root : K}
    {target : Option K} {cycle : Bool} {fuel : Nat} {r : Run K E}
    (h : runLoop adj acc nval .bfs root target cycle fuel = some r) :
    (r.found = true → ∃ u, FoundAt ⟨adj, acc, goal root target cycle⟩ u
        (P3 root ⟨adj, acc, goal root target cycle⟩ u) r.st) ∧
    (r.found = false → I3 root ⟨adj, acc, goal root target cycle⟩ [] r.st) := by
  obtain ⟨hm, hv, hn⟩ := init_vis root target cycle
  exact loop_rule (pop3 root _) (steps3 root _) (fin3 root _) fuel [root] _ r.found r.st
    (init3 root _ _ hm hv hn) (runLoop_bfs h)

end Bfs

section Runs
variable (adj : K → List (K × E)) (acc : K → K → E → Bool) (nval : K → Int) (root : K)
  (target : Option K) (cycle : Bool) (fuel : Nat)

theorem Bfs.run_sound (r : Run K E) (h : runLoop adj acc nval .bfs root target cycle fuel = some r)
    (hf : r.found = true) :
    ∃ t, goal root target cycle = some t ∧ IsPath (accAdj adj acc) root t (backtrack r.st.tree) := by
  obtain ⟨u, hu⟩ := (Bfs.run3 h).1 hf
  obtain ⟨t, ht, hp, _, _⟩ := Bfs.P3.found hu
  exact ⟨t, ht, hp⟩

theorem Bfs.run_simple (r : Run K E) (h : runLoop adj acc nval .bfs root target cycle fuel = some r)
    (hf : r.found = true) : ((backtrack r.st.tree).map (fun x => x.2.1)).Nodup := by
  obtain ⟨u, hu⟩ := (Bfs.run3 h).1 hf
  obtain ⟨t, _, _, hn, _⟩ := Bfs.P3.found hu
  exact hn

theorem Bfs.run_minimal (r : Run K E) (h : runLoop adj acc nval .bfs root target cycle fuel = some r)
    (hf : r.found = true) (t : K) (hg : goal root target cycle = some t) :
    ∀ q, IsPath (accAdj adj acc) root t q → (backtrack r.st.tree).length ≤ q.length := by
  obtain ⟨u, hu⟩ := (Bfs.run3 h).1 hf
  obtain ⟨t', ht', _, _, hmin⟩ := Bfs.P3.found hu
  have : t' = t := Option.some.inj (ht'.symm.trans hg)
  subst this
  exact hmin


theorem Bfs.run_complete (r : Run K E) (h : runLoop adj acc nval .bfs root target cycle fuel = some r)
    (hf : r.found = false) (t : K) (hg : goal root target cycle = some t) (hrt : cycle = false → t ≠ root) :
    ¬ ∃ q, IsPath (accAdj adj acc) root t q := by
  have hv : ∀ x ∈ (if cycle then [] else [root]), x = root := (Bfs.init_vis root target cycle).2.1
  have ht0 : t ∉ (if cycle then [] else [root]) := by
    cases cycle with
    | true => exact List.not_mem_nil
    | false => exact fun hmem => hrt rfl (List.mem_singleton.mp hmem)
  have key := Bfs.loop_rule (c := ⟨adj, acc, goal root target cycle⟩)
    (I := fun q st => Bfs.I2 root ⟨adj, acc, goal root target cycle⟩ q st ∧ t ∉ st.vis)
    (P := fun u l st q => Bfs.P2 root ⟨adj, acc, goal root target cycle⟩ u l st q ∧ Bfs.P0 t l st q)
    (fun u q st hI => ⟨Bfs.pop2 root _ u q st hI.1, hI.2⟩)
    (fun u => (Bfs.steps2 root _ u).and (Bfs.steps0 _ t hg u))
    (fun u st q hP => ⟨Bfs.fin2 root _ u st q hP.1, hP.2⟩)
    fuel [root] _ r.found r.st ⟨Bfs.init2 root _ _ hv, ht0⟩ (Bfs.runLoop_bfs h)
  obtain ⟨hcl, hnot⟩ := key.2 hf
  rintro ⟨q, hne, hw⟩
  exact hnot ((Bfs.I2.walk hcl hw).2 hne)

theorem Bfs.trace_tree_sound (r : Run K E) (h : runLoop adj acc nval .bfs root target cycle fuel = some r) :
    (∀ x ∈ r.st.tree, (x.2.1, x.2.2) ∈ accAdj adj acc x.1) ∧ (∀ x ∈ r.st.trace, (x.2.1, x.2.2) ∈ adj x.1) := by
  have h3 := Bfs.run3 h
  cases hf : r.found with
  | true =>
    obtain ⟨u, v, e, rest, st, q, ⟨h1, _, _⟩, hacc, _, _, hst⟩ := h3.1 hf
    obtain ⟨done, hd⟩ := h1.2
    have hve : (v, e) ∈ adj u := Bfs.mem_of_split hd
    rw [hst]
    exact ⟨Bfs.forall_mem_snoc.mpr ⟨h1.1.tacc, Bfs.mem_accAdj.mpr ⟨hve, hacc⟩⟩,
      Bfs.forall_mem_snoc.mpr ⟨h1.1.trc, hve⟩⟩
  | false =>
    have := (h3.2 hf).1
    exact ⟨this.tacc, this.trc⟩

theorem Bfs.trace_sound (r : Run K E) (h : runLoop adj acc nval .bfs root target cycle fuel = some r) :
    ∀ x ∈ r.st.trace, (x.2.1, x.2.2) ∈ adj x.1 :=
  (Bfs.trace_tree_sound adj acc nval root target cycle fuel r h).2

theorem Bfs.tree_accepted (r : Run K E) (h : runLoop adj acc nval .bfs root target cycle fuel = some r) :
    ∀ x ∈ r.st.tree, (x.2.1, x.2.2) ∈ accAdj adj acc x.1 :=
  (Bfs.trace_tree_sound adj acc nval root target cycle fuel r h).1

end Runs

/-! ## The C04 statements -/

theorem bfs_searchPath_some (adj : K → List (K × E)) (acc : K → K → E → Bool) (nval : K → Int) (root : K)
    (target : Option K) (cycle : Bool) (fuel : Nat) {kind : Kind} {res : Option (List (Edge K E))} {run : Run K E}
    (h : searchPath adj acc nval kind root target cycle fuel = some (res, run)) :
    runLoop adj acc nval kind root target cycle fuel = some run ∧
      res = if run.found then some (backtrack run.st.tree) else none := by
  simp only [searchPath, Option.map_eq_some_iff, Prod.mk.injEq] at h
  obtain ⟨r, h1, h2, rfl⟩ := h
  exact ⟨h1, h2.symm⟩

theorem Bfs.path_sound' (adj : K → List (K × E)) (acc : K → K → E → Bool) (nval : K → Int) (root t : K) (fuel : Nat)
    (p : List (Edge K E)) (run : Run K E)
    (h : searchPath adj acc nval .bfs root (some t) false fuel = some (some p, run)) :
    IsPath (accAdj adj acc) root t p := by
  obtain ⟨h1, h2⟩ := bfs_searchPath_some adj acc nval root (some t) false fuel h
  cases hf : run.found with
  | false => rw [hf] at h2; cases h2
  | true =>
    rw [hf] at h2
    obtain ⟨t', ht', hp⟩ := Bfs.run_sound adj acc nval root (some t) false fuel run h1 hf
    have : t' = t := (Option.some.inj ht').symm
    subst this
    rw [Option.some.inj h2]; exact hp

theorem Bfs.path_minimal' (adj : K → List (K × E)) (acc : K → K → E → Bool) (nval : K → Int) (root t : K) (fuel : Nat)
    (p : List (Edge K E)) (run : Run K E)
    (h : searchPath adj acc nval .bfs root (some t) false fuel = some (some p, run)) :
    ∀ q, IsPath (accAdj adj acc) root t q → p.length ≤ q.length := by
  obtain ⟨h1, h2⟩ := bfs_searchPath_some adj acc nval root (some t) false fuel h
  cases hf : run.found with
  | false => rw [hf] at h2; cases h2
  | true =>
    rw [hf] at h2
    rw [Option.some.inj h2]
    exact Bfs.run_minimal adj acc nval root (some t) false fuel run h1 hf t rfl

theorem Bfs.path_iff' (adj : K → List (K × E)) (acc : K → K → E → Bool) (nval : K → Int) (root t : K) (fuel : Nat)
    (res : Option (List (Edge K E))) (run : Run K E) (hrt : t ≠ root)
    (h : searchPath adj acc nval .bfs root (some t) false fuel = some (res, run)) :
    res.isSome = true ↔ Reach (accAdj adj acc) root t := by
  obtain ⟨h1, h2⟩ := bfs_searchPath_some adj acc nval root (some t) false fuel h
  cases hf : run.found with
  | false =>
    rw [hf] at h2; subst h2
    have := Bfs.run_complete adj acc nval root (some t) false fuel run h1 hf t rfl (fun _ => hrt)
    constructor
    · intro h'; cases h'
    · intro hr
      rcases (reach_iff_path _ root t).mp hr with h' | h'
      · exact absurd h'.symm hrt
      · exact absurd h' this
  | true =>
    rw [hf] at h2; subst h2
    obtain ⟨t', ht', hp⟩ := Bfs.run_sound adj acc nval root (some t) false fuel run h1 hf
    have : t' = t := (Option.some.inj ht').symm
    subst this
    exact ⟨fun _ => (reach_iff_path _ root t').mpr (Or.inr ⟨_, hp⟩), fun _ => rfl⟩

theorem Bfs.path_complete' (adj : K → List (K × E)) (acc : K → K → E → Bool) (nval : K → Int) (root t : K) (fuel : Nat)
    (run : Run K E) (hrt : t ≠ root)
    (h : searchPath adj acc nval .bfs root (some t) false fuel = some (none, run)) :
    ¬ Reach (accAdj adj acc) root t := by
  intro hr
  have := (Bfs.path_iff' adj acc nval root t fuel none run hrt h).mpr hr
  cases this

theorem Bfs.search_iff' (adj : K → List (K × E)) (acc : K → K → E → Bool) (nval : K → Int) (root t : K) (fuel : Nat)
    (x : Option K) (run : Run K E) (hrt : t ≠ root)
    (h : searchNode adj acc nval .bfs root (some t) fuel = some (x, run)) :
    (x = some t ∨ x = none) ∧ (x = some t ↔ Reach (accAdj adj acc) root t) := by
  simp only [searchNode, Option.map_eq_some_iff, Prod.mk.injEq] at h
  obtain ⟨r, h1, h2, rfl⟩ := h
  have hsp : searchPath adj acc nval .bfs root (some t) false fuel =
      some (if r.found then some (backtrack r.st.tree) else none, r) := by
    simp only [searchPath, h1, Option.map_some]
  have hiff := Bfs.path_iff' adj acc nval root t fuel _ r hrt hsp
  cases hf : r.found with
  | false =>
    rw [hf] at h2 hiff
    simp only [Bool.false_eq_true, if_false] at h2 hiff
    subst h2
    exact ⟨Or.inr rfl, ⟨nofun, fun hr => by cases hiff.mpr hr⟩⟩
  | true =>
    rw [hf] at h2 hiff
    simp only [if_true] at h2 hiff
    subst h2
    exact ⟨Or.inl rfl, ⟨fun _ => hiff.mp rfl, fun _ => rfl⟩⟩


/-! ## A filtered search is the unfiltered search of the accepted subgraph -/

theorem Bfs.scan_filter (c : Cfg K E) (adj' : K → List (K × E)) (u : K) (l : List (K × E))
    (st st2 : TSt K E) (q : List K) (hv : st.vis = st2.vis) (ht : st.tree = st2.tree) :
    (bfsScan c u l st q).1 =
      (bfsScan ⟨adj', fun _ _ _ => true, c.target⟩ u (l.filter (fun p => c.acc u p.1 p.2)) st2 q).1 ∧
    (bfsScan c u l st q).2.1.vis =
      (bfsScan ⟨adj', fun _ _ _ => true, c.target⟩ u (l.filter (fun p => c.acc u p.1 p.2)) st2 q).2.1.vis ∧
    (bfsScan c u l st q).2.1.tree =
      (bfsScan ⟨adj', fun _ _ _ => true, c.target⟩ u (l.filter (fun p => c.acc u p.1 p.2)) st2 q).2.1.tree ∧
    (bfsScan c u l st q).2.2 =
      (bfsScan ⟨adj', fun _ _ _ => true, c.target⟩ u (l.filter (fun p => c.acc u p.1 p.2)) st2 q).2.2 := by
  obtain ⟨vis, tree, tr⟩ := st
  obtain ⟨vis2, tree2, tr2⟩ := st2
  simp only at hv ht
  subst hv; subst ht
  induction l generalizing vis tree tr tr2 q with
  | nil => exact ⟨rfl, rfl, rfl, rfl⟩
  | cons p rest ih =>
    obtain ⟨v, e⟩ := p
    by_cases hacc : c.acc u v e = true
    · rw [List.filter_cons_of_pos (by simpa using hacc)]
      simp only [bfsScan, hacc, if_true]
      by_cases hvis : v ∈ vis
      · simp only [hvis, if_true]
        exact ih _ _ _ _ _
      · simp only [hvis, if_false]
        by_cases htg : c.target = some v
        · simp only [htg, if_true, and_self]
        · simp only [htg, if_false]
          exact ih _ _ _ _ _
    · have hacc' : c.acc u v e = false := by simpa using hacc
      rw [List.filter_cons_of_neg (by simpa using hacc)]
      simp only [bfsScan, hacc', Bool.false_eq_true, if_false]
      exact ih _ _ _ _ _

theorem Bfs.loop_filter (c : Cfg K E) (fuel : Nat) (q : List K) (st st2 : TSt K E)
    (hv : st.vis = st2.vis) (ht : st.tree = st2.tree) :
    (bfsLoop c fuel q st).map (fun r => (r.1, r.2.vis, r.2.tree)) =
      (bfsLoop ⟨accAdj c.adj c.acc, fun _ _ _ => true, c.target⟩ fuel q st2).map
        (fun r => (r.1, r.2.vis, r.2.tree)) := by
  induction fuel generalizing q st st2 with
  | zero => rfl
  | succ fuel ih =>
    cases q with
    | nil => simp only [bfsLoop, Option.map_some, hv, ht]
    | cons u q =>
      have key := Bfs.scan_filter c (accAdj c.adj c.acc) u (c.adj u) st st2 q hv ht
      simp only [bfsLoop]
      have hadj : accAdj c.adj c.acc u = (c.adj u).filter (fun p => c.acc u p.1 p.2) := rfl
      rw [hadj]
      rcases h1 : bfsScan c u (c.adj u) st q with ⟨f1, st1, q1⟩
      rcases h2 : bfsScan ⟨accAdj c.adj c.acc, fun _ _ _ => true, c.target⟩ u
        ((c.adj u).filter (fun p => c.acc u p.1 p.2)) st2 q with ⟨f2, st2', q2⟩
      rw [h1, h2] at key
      obtain ⟨k1, k2, k3, k4⟩ := key
      simp only at k1 k2 k3 k4
      subst k1; subst k4
      cases f1 with
      | true => simp only [Option.map_some, k2, k3]
      | false => exact ih q1 st1 st2' k2 k3

theorem Bfs.filter_subgraph (adj : K → List (K × E)) (acc : K → K → E → Bool) (nval : K → Int) (root : K)
    (target : Option K) (cycle : Bool) (fuel : Nat) :
    (runLoop adj acc nval .bfs root target cycle fuel).map (fun r => (r.found, r.st.vis, r.st.tree)) =
      (runLoop (accAdj adj acc) (fun _ _ _ => true) nval .bfs root target cycle fuel).map
        (fun r => (r.found, r.st.vis, r.st.tree)) := by
  have key := Bfs.loop_filter ⟨adj, acc, if cycle then some root else target⟩ fuel [root]
    ⟨if cycle then [] else [root], [], []⟩ ⟨if cycle then [] else [root], [], []⟩ rfl rfl
  simp only [runLoop, Option.map_map]
  exact key

/-! ## Fuel -/

namespace Bfs

theorem nodup_snoc {α : Type} {l : List α} {a : α} (h : l.Nodup) (ha : a ∉ l) : (l ++ [a]).Nodup := by
  rw [List.nodup_append]
  refine ⟨h, (by simp), ?_⟩
  intro x hx y hy hxy
  rw [List.mem_singleton] at hy
  exact ha (hy ▸ hxy ▸ hx)

theorem nodup_length_le {l m : List K} (h : l.Nodup) (hs : ∀ x ∈ l, x ∈ m) : l.length ≤ m.length := by
  induction l generalizing m with
  | nil => exact Nat.zero_le _
  | cons x l ih =>
    obtain ⟨hx, hl⟩ := List.nodup_cons.mp h
    have hxm : x ∈ m := hs x List.mem_cons_self
    have h1 : l.length ≤ (m.erase x).length := ih hl fun y hy =>
      (List.mem_erase_of_ne (show y ≠ x from fun hyx => hx (by rw [← hyx]; exact hy))).mpr (hs y (List.mem_cons_of_mem _ hy))
    have h2 := List.length_erase_of_mem hxm
    have h3 := List.length_pos_of_mem hxm
    rw [List.length_cons]
    omega

def P4 (r : K) (c : Cfg K E) (nodes ex : List K) (u : K) (rest : List (K × E)) (st : TSt K E) (q : List K) : Prop :=
  (r ∈ st.vis ∨ c.target = some r) ∧ (ex ++ q).Nodup ∧ u ∈ ex ∧ (∀ x ∈ ex ++ q, x ∈ nodes ∧ S r st.vis x) ∧
    ∃ done, c.adj u = done ++ rest

def I4 (r : K) (c : Cfg K E) (nodes ex : List K) (q : List K) (st : TSt K E) : Prop :=
  (r ∈ st.vis ∨ c.target = some r) ∧ (ex ++ q).Nodup ∧ (∀ x ∈ ex ++ q, x ∈ nodes ∧ S r st.vis x)

theorem steps4 (r : K) (c : Cfg K E) (nodes ex : List K) (hc : Closed (accAdj c.adj c.acc) nodes) (u : K) :
    ScanSteps c u (P4 r c nodes ex u) where
  skip := by
    rintro v e rest st q ⟨hm, hn, hu, hall, done, hd⟩ _
    exact ⟨hm, hn, hu, hall, done ++ [(v, e)], split_next hd⟩
  push := by
    rintro v e rest st q ⟨hm, hn, hu, hall, done, hd⟩ hacc hv ht
    have hvr : v ≠ r := by
      intro hvr; subst hvr
      exact hm.elim hv ht
    have hnS : ¬ S r st.vis v := fun hs => hs.elim hvr hv
    have hvn : v ∈ nodes :=
      hc u (hall u (List.mem_append_left _ hu)).1 (v, e) (mem_accAdj.mpr ⟨mem_of_split hd, hacc⟩)
    refine ⟨hm.elim (fun h' => Or.inl (List.mem_cons_of_mem _ h')) Or.inr, ?_, hu, ?_,
      done ++ [(v, e)], split_next hd⟩
    · rw [← List.append_assoc]
      exact nodup_snoc hn fun hmem => hnS (hall v hmem).2
    · rw [← List.append_assoc]
      exact forall_mem_snoc.mpr ⟨fun x hx => ⟨(hall x hx).1, (hall x hx).2.mono⟩, hvn, Or.inr List.mem_cons_self⟩

theorem loop_fuel (r : K) (c : Cfg K E) (nodes : List K) (hc : Closed (accAdj c.adj c.acc) nodes)
    (fuel : Nat) (ex q : List K) (st : TSt K E) (hI : I4 r c nodes ex q st)
    (hf : nodes.length < fuel + ex.length) : (bfsLoop c fuel q st).isSome = true := by
  induction fuel generalizing ex q st with
  | zero =>
    obtain ⟨_, hn, hall⟩ := hI
    have := nodup_length_le (List.nodup_append.mp hn).1 fun x hx => (hall x (List.mem_append_left _ hx)).1
    omega
  | succ fuel ih =>
    cases q with
    | nil => rfl
    | cons u q =>
      obtain ⟨hm, hn, hall⟩ := hI
      have hsplit : (ex ++ [u]) ++ q = ex ++ u :: q := by rw [List.append_assoc]; rfl
      have hP : P4 r c nodes (ex ++ [u]) u (c.adj u) st q :=
        ⟨hm, hsplit ▸ hn, mem_snoc.mpr (Or.inr rfl), hsplit ▸ hall, [], rfl⟩
      simp only [bfsLoop]
      rcases hsc : bfsScan c u (c.adj u) st q with ⟨f1, st1, q1⟩
      have hr := scan_rule (steps4 r c nodes (ex ++ [u]) hc u) (c.adj u) st q hP f1 st1 q1 hsc
      cases f1 with
      | true => rfl
      | false =>
        obtain ⟨hm', hn', _, hall', _⟩ := hr.2 rfl
        exact ih (ex ++ [u]) q1 st1 ⟨hm', hn', hall'⟩ (by rw [List.length_append, List.length_singleton]; omega)

end Bfs

theorem Bfs.fuel_enough' (adj : K → List (K × E)) (acc : K → K → E → Bool) (nval : K → Int) (root : K)
    (target : Option K) (cycle : Bool) (fuel : Nat) (nodes : List K)
    (hc : Closed (accAdj adj acc) nodes) (hr : root ∈ nodes) (hf : nodes.length < fuel) :
    (runLoop adj acc nval .bfs root target cycle fuel).isSome = true := by
  obtain ⟨hm, _, _⟩ := Bfs.init_vis root target cycle
  have key := Bfs.loop_fuel root ⟨adj, acc, goal root target cycle⟩ nodes hc fuel [] [root]
    ⟨if cycle then [] else [root], [], []⟩
    ⟨hm, (by simp), fun x hx => by
      rw [List.nil_append, List.mem_singleton] at hx; subst hx; exact ⟨hr, Or.inl rfl⟩⟩
    (by simpa using hf)
  simp only [runLoop, Option.isSome_map]
  exact key


/-! ## Expansion order and the callback trace (plain traversal: no filter, no target) -/

namespace Bfs

def P5 (c : Cfg K E) (u : K) (rest : List (K × E)) (st : TSt K E) (q : List K) : Prop :=
  ∃ L done, c.adj u = done ++ rest ∧
    st.trace = L.flatMap (edgesOf c.adj) ++ done.map (fun p => (u, p.1, p.2)) ∧
    L ++ u :: q = st.vis.reverse

def I5 (c : Cfg K E) (q : List K) (st : TSt K E) : Prop :=
  ∃ L, st.trace = L.flatMap (edgesOf c.adj) ∧ L ++ q = st.vis.reverse

theorem steps5 (c : Cfg K E) (u : K) : ScanSteps c u (P5 c u) where
  skip := by
    rintro v e rest st q ⟨L, done, hd, ht, hL⟩ _
    refine ⟨L, done ++ [(v, e)], split_next hd, ?_, hL⟩
    show st.trace ++ [(u, v, e)] = _
    rw [ht, List.map_append, List.append_assoc]; rfl
  push := by
    rintro v e rest st q ⟨L, done, hd, ht, hL⟩ _ _ _
    refine ⟨L, done ++ [(v, e)], split_next hd, ?_, ?_⟩
    · show st.trace ++ [(u, v, e)] = _
      rw [ht, List.map_append, List.append_assoc]; rfl
    · show L ++ u :: (q ++ [v]) = (v :: st.vis).reverse
      rw [List.reverse_cons, ← hL, List.append_assoc]; rfl

theorem pop5 (c : Cfg K E) (u : K) (q : List K) (st : TSt K E) (h : I5 c (u :: q) st) :
    P5 c u (c.adj u) st q := by
  obtain ⟨L, ht, hL⟩ := h
  exact ⟨L, [], rfl, by rw [ht, List.map_nil, List.append_nil], hL⟩

theorem fin5 (c : Cfg K E) (u : K) (st : TSt K E) (q : List K) (h : P5 c u [] st q) : I5 c q st := by
  obtain ⟨L, done, hd, ht, hL⟩ := h
  refine ⟨L ++ [u], ?_, by rw [List.append_assoc]; exact hL⟩
  rw [List.append_nil] at hd
  rw [ht, List.flatMap_append, List.flatMap_singleton, edgesOf, hd]

theorem accAdj_true (adj : K → List (K × E)) : accAdj adj (fun _ _ _ => true) = adj := by
  funext u
  exact List.filter_eq_self.mpr fun _ _ => rfl

theorem nodup_reverse {α : Type} {l : List α} (h : l.Nodup) : l.reverse.Nodup := by
  unfold List.Nodup at *
  rw [List.pairwise_reverse]
  exact h.imp fun hab => Ne.symm hab

end Bfs

theorem Bfs.trace_perm (adj : K → List (K × E)) (nval : K → Int) (root : K) (fuel : Nat) (r : Run K E)
    (h : runLoop adj (fun _ _ _ => true) nval .bfs root none false fuel = some r) :
    ∃ L : List K, L.Nodup ∧ (∀ u, u ∈ L ↔ Reach adj root u) ∧ r.st.trace.Perm (L.flatMap (edgesOf adj)) := by
  have hA : accAdj adj (fun _ _ _ => true) = adj := Bfs.accAdj_true adj
  have key := Bfs.loop_rule (c := ⟨adj, fun _ _ _ => true, none⟩)
    (I := fun q st => Bfs.I3 root ⟨adj, fun _ _ _ => true, none⟩ q st ∧ Bfs.I5 ⟨adj, fun _ _ _ => true, none⟩ q st)
    (P := fun u l st q => Bfs.P3 root ⟨adj, fun _ _ _ => true, none⟩ u l st q ∧
      Bfs.P5 ⟨adj, fun _ _ _ => true, none⟩ u l st q)
    (fun u q st hI => ⟨Bfs.pop3 root _ u q st hI.1, Bfs.pop5 _ u q st hI.2⟩)
    (fun u => (Bfs.steps3 root _ u).and (Bfs.steps5 _ u))
    (fun u st q hP => ⟨Bfs.fin3 root _ u st q hP.1, Bfs.fin5 _ u st q hP.2⟩)
    fuel [root] ⟨[root], [], []⟩ r.found r.st
    ⟨Bfs.init3 root _ [root] (Or.inl List.mem_cons_self) (fun x hx => List.mem_singleton.mp hx) (by simp),
      ⟨[], rfl, rfl⟩⟩ (Bfs.runLoop_bfs h)
  have hf : r.found = false := by
    cases hf : r.found with
    | false => rfl
    | true =>
      obtain ⟨u, v, e, rest, st, q, _, _, _, ht, _⟩ := key.1 hf
      cases ht
  obtain ⟨⟨h1, h2, _⟩, L, ht, hL⟩ := key.2 hf
  rw [List.append_nil] at hL
  have hroot : root ∈ r.st.vis := h1.mode.elim id nofun
  refine ⟨L, ?_, ?_, ht ▸ List.Perm.refl _⟩
  · rw [hL]; exact Bfs.nodup_reverse h1.visnd
  · intro u
    rw [hL, List.mem_reverse]
    constructor
    · intro hu; have := h1.reach u hu; rwa [hA] at this
    · intro hu
      obtain ⟨p, hp⟩ := walk_of_reach _ (hA.symm ▸ hu : Reach (accAdj adj (fun _ _ _ => true)) root u)
      rcases (Bfs.I2.walk h2 hp).1 with h' | h'
      · exact h' ▸ hroot
      · exact h'

end G

import GdslModel.Lemmas.Path
/-!
# Depth-first search (`dfsEdges`): soundness, simplicity, completeness, trace, fuel

The recursive loop is first turned into a big-step relation `DEv` (one constructor per way
through the loop body); all invariants are proved by induction on that relation.
-/
namespace G
set_option linter.unusedSectionVars false
variable {K E : Type} [DecidableEq K]

/-- the state after the callback saw `(u, v, e)` -/
@[reducible] def TSt.seen (st : TSt K E) (x : Edge K E) : TSt K E :=
  { vis := st.vis, tree := st.tree, trace := st.trace ++ [x] }

/-- the state after `(u, v, e)` was accepted and `v` is new -/
@[reducible] def TSt.enter (st : TSt K E) (x : Edge K E) : TSt K E :=
  { vis := x.2.1 :: st.vis, tree := st.tree ++ [x], trace := st.trace ++ [x] }

/-- big-step relation of `dfsEdges` (fuel forgotten) -/
inductive DEv (c : Cfg K E) : K → List (K × E) → TSt K E → Bool → TSt K E → Prop where
  | nil (u : K) (st : TSt K E) : DEv c u [] st false st
  | rej {u v : K} {e : E} {rest : List (K × E)} {st st' : TSt K E} {b : Bool} :
      c.acc u v e = false → DEv c u rest (st.seen (u, v, e)) b st' → DEv c u ((v, e) :: rest) st b st'
  | old {u v : K} {e : E} {rest : List (K × E)} {st st' : TSt K E} {b : Bool} :
      c.acc u v e = true → v ∈ st.vis → DEv c u rest (st.seen (u, v, e)) b st' →
      DEv c u ((v, e) :: rest) st b st'
  | hit {u v : K} {e : E} {rest : List (K × E)} {st : TSt K E} :
      c.acc u v e = true → v ∉ st.vis → c.target = some v →
      DEv c u ((v, e) :: rest) st true (st.enter (u, v, e))
  | downT {u v : K} {e : E} {rest : List (K × E)} {st st' : TSt K E} :
      c.acc u v e = true → v ∉ st.vis → c.target ≠ some v →
      DEv c v (c.adj v) (st.enter (u, v, e)) true st' → DEv c u ((v, e) :: rest) st true st'
  | downF {u v : K} {e : E} {rest : List (K × E)} {st st1 st' : TSt K E} {b : Bool} :
      c.acc u v e = true → v ∉ st.vis → c.target ≠ some v →
      DEv c v (c.adj v) (st.enter (u, v, e)) false st1 → DEv c u rest st1 b st' →
      DEv c u ((v, e) :: rest) st b st'

theorem dev_of_dfs (c : Cfg K E) (fuel : Nat) (u : K) (l : List (K × E)) (st : TSt K E)
    (b : Bool) (st' : TSt K E) (h : dfsEdges c fuel u l st = some (b, st')) : DEv c u l st b st' := by
  fun_induction dfsEdges c fuel u l st generalizing b st' with
  | case1 _ u st =>
    simp only [Option.some.injEq, Prod.mk.injEq] at h
    obtain ⟨rfl, rfl⟩ := h; exact .nil u st
  | case2 => simp at h
  | case3 fuel u v e rest st st1 ha hv ih => exact .old ha hv (ih b st' h)
  | case4 fuel u v e rest st st1 ha hv st2 ht =>
    simp only [Option.some.injEq, Prod.mk.injEq] at h
    obtain ⟨rfl, rfl⟩ := h; exact .hit ha hv ht
  | case5 => simp at h
  | case6 fuel u v e rest st st1 ha hv st2 ht st3 hr ih =>
    simp only [Option.some.injEq, Prod.mk.injEq] at h
    obtain ⟨rfl, rfl⟩ := h; exact .downT ha hv ht (ih true st3 hr)
  | case7 fuel u v e rest st st1 ha hv st2 ht st3 hr ih1 ih2 =>
    exact .downF ha hv ht (ih1 false st3 hr) (ih2 b st' h)
  | case8 fuel u v e rest st st1 ha ih =>
    exact .rej (by simpa using ha) (ih b st' h)

/-! ## Invariants, by induction on the big-step relation -/

theorem DEv.mono {c : Cfg K E} {u : K} {l : List (K × E)} {st st' : TSt K E} {b : Bool}
    (h : DEv c u l st b st') : ∀ x ∈ st.vis, x ∈ st'.vis := by
  induction h with
  | nil => exact fun _ h => h
  | rej _ _ ih => exact ih
  | old _ _ _ ih => exact ih
  | hit => exact fun x hx => List.mem_cons_of_mem _ hx
  | downT _ _ _ _ ih => exact fun x hx => ih x (List.mem_cons_of_mem _ hx)
  | downF _ _ _ _ _ ih1 ih2 => exact fun x hx => ih2 x (ih1 x (List.mem_cons_of_mem _ hx))

theorem DEv.tree_mono {c : Cfg K E} {u : K} {l : List (K × E)} {st st' : TSt K E} {b : Bool}
    (h : DEv c u l st b st') : ∀ x ∈ st.tree, x ∈ st'.tree := by
  induction h with
  | nil => exact fun _ h => h
  | rej _ _ ih => exact ih
  | old _ _ _ ih => exact ih
  | hit => exact fun x hx => List.mem_append_left _ hx
  | downT _ _ _ _ ih => exact fun x hx => ih x (List.mem_append_left _ hx)
  | downF _ _ _ _ _ ih1 ih2 => exact fun x hx => ih2 x (ih1 x (List.mem_append_left _ hx))

/-- the visited list is the initial one plus the targets of the tree edges (latest first), without repetition -/
theorem DEv.inv {c : Cfg K E} {u : K} {l : List (K × E)} {st st' : TSt K E} {b : Bool}
    (h : DEv c u l st b st') (base : List K)
    (h1 : st.vis = (st.tree.map (fun x => x.2.1)).reverse ++ base) (h2 : st.vis.Nodup) :
    st'.vis = (st'.tree.map (fun x => x.2.1)).reverse ++ base ∧ st'.vis.Nodup := by
  induction h with
  | nil => exact ⟨h1, h2⟩
  | rej _ _ ih => exact ih h1 h2
  | old _ _ _ ih => exact ih h1 h2
  | hit _ hv _ =>
    exact ⟨by simp [h1], List.nodup_cons.mpr ⟨hv, h2⟩⟩
  | downT _ hv _ _ ih =>
    exact ih (by simp [h1]) (List.nodup_cons.mpr ⟨hv, h2⟩)
  | downF _ hv _ _ _ ih1 ih2 =>
    obtain ⟨a, b⟩ := ih1 (by simp [h1]) (List.nodup_cons.mpr ⟨hv, h2⟩)
    exact ih2 a b

/-- on success the last tree edge enters the target -/
theorem DEv.last {c : Cfg K E} {u : K} {l : List (K × E)} {st st' : TSt K E} {b : Bool}
    (h : DEv c u l st b st') (hb : b = true) :
    ∃ T w, st'.tree = T ++ [w] ∧ c.target = some w.2.1 := by
  induction h with
  | nil => cases hb
  | rej _ _ ih => exact ih hb
  | old _ _ _ ih => exact ih hb
  | @hit u v e rest st _ _ ht => exact ⟨st.tree, (u, v, e), rfl, ht⟩
  | downT _ _ _ _ ih => exact ih rfl
  | downF _ _ _ _ _ _ ih2 => exact ih2 hb

/-- the edge tree is a discovery tree -/
theorem DEv.dtree {c : Cfg K E} {u : K} {l : List (K × E)} {st st' : TSt K E} {b : Bool}
    (h : DEv c u l st b st') (r : K) (ht : DTree r st.tree)
    (hu : u = r ∨ ∃ x ∈ st.tree, x.2.1 = u) : DTree r st'.tree := by
  induction h with
  | nil => exact ht
  | rej _ _ ih => exact ih ht hu
  | old _ _ _ ih => exact ih ht hu
  | hit => exact .snoc ht hu
  | @downT u v e rest st st' _ _ _ _ ih =>
    exact ih (.snoc ht hu) (Or.inr ⟨(u, v, e), by simp, rfl⟩)
  | @downF u v e rest st st1 st' b _ _ _ h1 _ ih1 ih2 =>
    refine ih2 (ih1 (.snoc ht hu) (Or.inr ⟨(u, v, e), by simp, rfl⟩)) ?_
    rcases hu with hu | ⟨x, hx, hxu⟩
    · exact Or.inl hu
    · exact Or.inr ⟨x, h1.tree_mono x (List.mem_append_left _ hx), hxu⟩

/-- tree edges are accepted edges of the graph, traced edges are edges of the graph -/
theorem DEv.edges {c : Cfg K E} {u : K} {l : List (K × E)} {st st' : TSt K E} {b : Bool}
    (h : DEv c u l st b st') (hl : ∀ p ∈ l, p ∈ c.adj u)
    (h1 : ∀ x ∈ st.tree, (x.2.1, x.2.2) ∈ accAdj c.adj c.acc x.1)
    (h2 : ∀ x ∈ st.trace, (x.2.1, x.2.2) ∈ c.adj x.1) :
    (∀ x ∈ st'.tree, (x.2.1, x.2.2) ∈ accAdj c.adj c.acc x.1) ∧
    (∀ x ∈ st'.trace, (x.2.1, x.2.2) ∈ c.adj x.1) := by
  induction h with
  | nil => exact ⟨h1, h2⟩
  | @rej u v e rest st st' b _ _ ih =>
    refine ih (fun p hp => hl p (List.mem_cons_of_mem _ hp)) h1 ?_
    intro x hx
    rcases List.mem_append.mp hx with hx | hx
    · exact h2 x hx
    · rw [List.mem_singleton.mp hx]; exact hl _ List.mem_cons_self
  | @old u v e rest st st' b _ _ _ ih =>
    refine ih (fun p hp => hl p (List.mem_cons_of_mem _ hp)) h1 ?_
    intro x hx
    rcases List.mem_append.mp hx with hx | hx
    · exact h2 x hx
    · rw [List.mem_singleton.mp hx]; exact hl _ List.mem_cons_self
  | @hit u v e rest st ha _ _ =>
    have hve : (v, e) ∈ c.adj u := hl _ List.mem_cons_self
    constructor
    · intro x hx
      rcases List.mem_append.mp hx with hx | hx
      · exact h1 x hx
      · rw [List.mem_singleton.mp hx]
        exact List.mem_filter.mpr ⟨hve, by simpa using ha⟩
    · intro x hx
      rcases List.mem_append.mp hx with hx | hx
      · exact h2 x hx
      · rw [List.mem_singleton.mp hx]; exact hve
  | @downT u v e rest st st' ha _ _ _ ih =>
    have hve : (v, e) ∈ c.adj u := hl _ List.mem_cons_self
    refine ih (fun p hp => hp) ?_ ?_
    · intro x hx
      rcases List.mem_append.mp hx with hx | hx
      · exact h1 x hx
      · rw [List.mem_singleton.mp hx]
        exact List.mem_filter.mpr ⟨hve, by simpa using ha⟩
    · intro x hx
      rcases List.mem_append.mp hx with hx | hx
      · exact h2 x hx
      · rw [List.mem_singleton.mp hx]; exact hve
  | @downF u v e rest st st1 st' b ha _ _ _ _ ih1 ih2 =>
    have hve : (v, e) ∈ c.adj u := hl _ List.mem_cons_self
    have := ih1 (fun p hp => hp) ?_ ?_
    · exact ih2 (fun p hp => hl p (List.mem_cons_of_mem _ hp)) this.1 this.2
    · intro x hx
      rcases List.mem_append.mp hx with hx | hx
      · exact h1 x hx
      · rw [List.mem_singleton.mp hx]
        exact List.mem_filter.mpr ⟨hve, by simpa using ha⟩
    · intro x hx
      rcases List.mem_append.mp hx with hx | hx
      · exact h2 x hx
      · rw [List.mem_singleton.mp hx]; exact hve

/-- what a `false` return guarantees -/
structure DPost (c : Cfg K E) (u : K) (l : List (K × E)) (st st' : TSt K E) : Prop where
  targets : ∀ p ∈ l, c.acc u p.1 p.2 = true → p.1 ∈ st'.vis
  newClosed : ∀ x ∈ st'.vis, x ∈ st.vis ∨ ∀ p ∈ c.adj x, c.acc x p.1 p.2 = true → p.1 ∈ st'.vis
  noTarget : ∀ t, c.target = some t → t ∉ st.vis → t ∉ st'.vis

theorem DEv.post {c : Cfg K E} {u : K} {l : List (K × E)} {st st' : TSt K E} {b : Bool}
    (h : DEv c u l st b st') (hb : b = false) : DPost c u l st st' := by
  induction h with
  | nil => exact ⟨by simp, fun _ h => Or.inl h, fun _ _ h => h⟩
  | @rej u v e rest st st' b ha _ ih =>
    have p := ih hb
    refine ⟨?_, p.newClosed, p.noTarget⟩
    intro q hq hacc
    rcases List.mem_cons.mp hq with rfl | hq
    · rw [ha] at hacc; cases hacc
    · exact p.targets q hq hacc
  | @old u v e rest st st' b _ hv hr ih =>
    have p := ih hb
    refine ⟨?_, p.newClosed, p.noTarget⟩
    intro q hq hacc
    rcases List.mem_cons.mp hq with rfl | hq
    · exact hr.mono _ hv
    · exact p.targets q hq hacc
  | hit => cases hb
  | downT => cases hb
  | @downF u v e rest st st1 st' b _ hv ht h1 h2 ih1 ih2 =>
    have p1 := ih1 rfl
    have p2 := ih2 hb
    refine ⟨?_, ?_, ?_⟩
    · intro q hq hacc
      rcases List.mem_cons.mp hq with rfl | hq
      · exact h2.mono _ (h1.mono _ List.mem_cons_self)
      · exact p2.targets q hq hacc
    · intro x hx
      rcases p2.newClosed x hx with hx1 | hcl
      · rcases p1.newClosed x hx1 with hx0 | hcl
        · rcases List.mem_cons.mp hx0 with rfl | hx0
          · right; intro q hq hacc; exact h2.mono _ (p1.targets q hq hacc)
          · left; exact hx0
        · right; intro q hq hacc; exact h2.mono _ (hcl q hq hacc)
      · right; exact hcl
    · intro t htt hnt
      apply p2.noTarget t htt; apply p1.noTarget t htt
      intro hmem; rcases List.mem_cons.mp hmem with h' | h'
      · exact ht (by rw [htt, h'])
      · exact hnt h'

/-! ## The entry points -/

/-- the initial state of `runLoop` -/
@[reducible] def st0 (root : K) (cycle : Bool) : TSt K E := { vis := if cycle then [] else [root] }

theorem run_dev (adj : K → List (K × E)) (acc : K → K → E → Bool) (nval : K → Int) (root : K)
    (target : Option K) (cycle : Bool) (fuel : Nat) (r : Run K E)
    (h : runLoop adj acc nval .dfs root target cycle fuel = some r) :
    DEv { adj := adj, acc := acc, target := goal root target cycle } root (adj root)
      (st0 root cycle) r.found r.st := by
  simp only [runLoop, Option.map_eq_some_iff] at h
  obtain ⟨⟨f, st⟩, hd, rfl⟩ := h
  exact dev_of_dfs _ _ _ _ _ _ _ hd

theorem dfs_searchPath_some (adj : K → List (K × E)) (acc : K → K → E → Bool) (nval : K → Int) (kind : Kind)
    (root : K) (target : Option K) (cycle : Bool) (fuel : Nat) (res : Option (List (Edge K E)))
    (run : Run K E) (h : searchPath adj acc nval kind root target cycle fuel = some (res, run)) :
    runLoop adj acc nval kind root target cycle fuel = some run ∧
    res = if run.found then some (backtrack run.st.tree) else none := by
  simp only [searchPath, Option.map_eq_some_iff, Prod.mk.injEq] at h
  obtain ⟨r, hr, h1, rfl⟩ := h
  exact ⟨hr, h1.symm⟩

theorem st0_nodup (root : K) (cycle : Bool) : (st0 (E := E) root cycle).vis.Nodup := by
  cases cycle <;> simp

/-- everything the success of a run tells about the edge tree and the returned path -/
theorem Dfs.run_core (adj : K → List (K × E)) (acc : K → K → E → Bool) (nval : K → Int) (root : K)
    (target : Option K) (cycle : Bool) (fuel : Nat) (r : Run K E)
    (h : runLoop adj acc nval .dfs root target cycle fuel = some r) (hf : r.found = true) :
    ∃ T w p, r.st.tree = T ++ [w] ∧ goal root target cycle = some w.2.1 ∧
      backtrack r.st.tree = p ++ [w] ∧ Chain root w.1 p ∧ (∀ x ∈ p, x ∈ T) ∧
      ((T ++ [w]).map (fun x => x.2.1)).Nodup ∧ (∀ x ∈ T, x.2.1 ≠ root) ∧
      (cycle = false → w.2.1 ≠ root) ∧
      (∀ x ∈ T ++ [w], (x.2.1, x.2.2) ∈ accAdj adj acc x.1) := by
  have hd := run_dev adj acc nval root target cycle fuel r h
  obtain ⟨T, w, hT, hg⟩ := hd.last hf
  have hg : goal root target cycle = some w.2.1 := hg
  obtain ⟨hvis, hnd⟩ := hd.inv (st0 (E := E) root cycle).vis (by simp) (st0_nodup root cycle)
  have hdt : DTree root r.st.tree := hd.dtree root .nil (Or.inl rfl)
  have hed := (hd.edges (fun p hp => hp) (by simp) (by simp)).1
  rw [hvis, List.nodup_append] at hnd
  obtain ⟨hnd1, _, hdisj⟩ := hnd
  rw [(List.reverse_perm _).nodup_iff] at hnd1
  rw [hT] at hnd1 hdt hdisj hed
  have hw : cycle = false → w.2.1 ≠ root := by
    intro hc heq
    subst hc
    exact hdisj w.2.1 (by simp) root (by simp) heq
  have hroot : ∀ x ∈ T, x.2.1 ≠ root := by
    intro x hx heq
    cases cycle with
    | false =>
      exact hdisj x.2.1 (by simp only [List.mem_reverse, List.mem_map]; exact ⟨x, by simp [hx], rfl⟩)
        root (by simp) heq
    | true =>
      have hwr : w.2.1 = root := by
        have : some root = some w.2.1 := by simpa [goal] using hg
        exact (Option.some.inj this).symm
      rw [List.map_append, List.nodup_append] at hnd1
      exact hnd1.2.2 x.2.1 (List.mem_map.mpr ⟨x, hx, rfl⟩) w.2.1 (by simp) (heq.trans hwr.symm)
  obtain ⟨p, hbt, hch, hsub⟩ := backtrack_spec root T w hdt hroot
  exact ⟨T, w, p, hT, hg, by rw [hT]; exact hbt, hch, hsub, hnd1, hroot, hw, hed⟩

theorem Dfs.run_sound (adj : K → List (K × E)) (acc : K → K → E → Bool) (nval : K → Int) (root : K)
    (target : Option K) (cycle : Bool) (fuel : Nat) (r : Run K E)
    (h : runLoop adj acc nval .dfs root target cycle fuel = some r) (hf : r.found = true) :
    ∃ t, goal root target cycle = some t ∧ IsPath (accAdj adj acc) root t (backtrack r.st.tree) := by
  obtain ⟨T, w, p, hT, hg, hbt, hch, hsub, _, _, _, hed⟩ :=
    Dfs.run_core adj acc nval root target cycle fuel r h hf
  refine ⟨w.2.1, hg, ?_⟩
  rw [hbt]
  refine ⟨by simp, ?_⟩
  have hc2 : Chain root w.2.1 (p ++ [w]) := Chain.snoc (c := w.2.1) (e := w.2.2) hch
  refine chain_walk _ hc2 ?_
  intro x hx
  rcases List.mem_append.mp hx with hx | hx
  · exact hed x (List.mem_append_left _ (hsub x hx))
  · exact hed x (List.mem_append_right _ hx)

/-- the targets of the returned path are pairwise distinct (in cycle mode the last one is the root) -/
theorem Dfs.run_simple (adj : K → List (K × E)) (acc : K → K → E → Bool) (nval : K → Int) (root : K)
    (target : Option K) (cycle : Bool) (fuel : Nat) (r : Run K E)
    (h : runLoop adj acc nval .dfs root target cycle fuel = some r) (hf : r.found = true) :
    ((backtrack r.st.tree).map (fun x => x.2.1)).Nodup := by
  obtain ⟨T, w, p, hT, hg, hbt, hch, hsub, hnd, hroot, _, _⟩ :=
    Dfs.run_core adj acc nval root target cycle fuel r h hf
  have hnT : (T.map (fun x => x.2.1)).Nodup := by
    rw [List.map_append, List.nodup_append] at hnd; exact hnd.1
  have hs := chain_simple root T hnT hroot hch hsub
  rw [hbt, List.map_append, List.nodup_append]
  refine ⟨(List.nodup_cons.mp hs).2, by simp, ?_⟩
  intro a ha b hb hab
  simp only [List.map_cons, List.map_nil, List.mem_singleton] at hb
  obtain ⟨x, hx, rfl⟩ := List.mem_map.mp ha
  rw [List.map_append, List.nodup_append] at hnd
  exact hnd.2.2 _ (List.mem_map.mpr ⟨x, hsub x hx, rfl⟩) _ (by simp) (hab.trans hb)

/-- in a non-cycle run the node sequence of the returned path repeats no node -/
theorem Dfs.run_simple_nodes (adj : K → List (K × E)) (acc : K → K → E → Bool) (nval : K → Int) (root : K)
    (target : Option K) (fuel : Nat) (r : Run K E)
    (h : runLoop adj acc nval .dfs root target false fuel = some r) (hf : r.found = true) :
    (pathNodes (backtrack r.st.tree)).Nodup := by
  have hsimple := Dfs.run_simple adj acc nval root target false fuel r h hf
  obtain ⟨T, w, p, hT, hg, hbt, hch, hsub, hnd, hroot, hw, _⟩ :=
    Dfs.run_core adj acc nval root target false fuel r h hf
  have hc2 : Chain root w.2.1 (p ++ [w]) := Chain.snoc (c := w.2.1) (e := w.2.2) hch
  rw [hbt] at hsimple ⊢
  rw [pathNodes_chain hc2 (by simp)]
  refine List.nodup_cons.mpr ⟨?_, hsimple⟩
  intro hmem
  obtain ⟨x, hx, hxr⟩ := List.mem_map.mp hmem
  rcases List.mem_append.mp hx with hx | hx
  · exact hroot x (hsub x hx) hxr
  · rw [List.mem_singleton.mp hx] at hxr; exact hw rfl hxr

/-- a nonempty walk of accepted edges from the root ends in a visited node, if the run reported failure -/
theorem walk_visited (c : Cfg K E) (root : K) (st st' : TSt K E)
    (hp : DPost c root (c.adj root) st st') (hst : ∀ x ∈ st.vis, x = root)
    {a b : K} {p : List (Edge K E)} (hw : Walk (accAdj c.adj c.acc) a b p) (ha : a = root) :
    (p = [] ∧ b = root) ∨ (p ≠ [] ∧ b ∈ st'.vis) := by
  induction hw with
  | nil => exact Or.inl ⟨rfl, ha⟩
  | @snoc b d e p _ hbd ih =>
    right
    refine ⟨by simp, ?_⟩
    obtain ⟨hbd1, hbd2⟩ := List.mem_filter.mp hbd
    have hacc : c.acc b d e = true := by simpa using hbd2
    have hrootcase : b = root → d ∈ st'.vis := by
      intro hb; subst hb; exact hp.targets (d, e) hbd1 hacc
    rcases ih with ⟨_, hb⟩ | ⟨_, hb⟩
    · exact hrootcase hb
    · rcases hp.newClosed b hb with hb0 | hcl
      · exact hrootcase (hst b hb0)
      · exact hcl (d, e) hbd1 hacc

theorem Dfs.run_complete (adj : K → List (K × E)) (acc : K → K → E → Bool) (nval : K → Int) (root : K)
    (target : Option K) (cycle : Bool) (fuel : Nat) (r : Run K E)
    (h : runLoop adj acc nval .dfs root target cycle fuel = some r) (hf : r.found = false)
    (t : K) (hg : goal root target cycle = some t) (hrt : cycle = false → t ≠ root) :
    ¬ ∃ q, IsPath (accAdj adj acc) root t q := by
  rintro ⟨q, hne, hw⟩
  have hd := run_dev adj acc nval root target cycle fuel r h
  have hp := hd.post hf
  have hst : ∀ x ∈ (st0 (E := E) root cycle).vis, x = root := by
    cases cycle <;> simp
  rcases walk_visited _ root _ _ hp hst hw rfl with ⟨h1, _⟩ | ⟨_, h2⟩
  · exact hne h1
  · refine hp.noTarget t hg ?_ h2
    cases cycle with
    | true => simp
    | false => simpa using hrt rfl

/-! ## The statements of `Props/C05.lean` -/

theorem Dfs.path_sound' (adj : K → List (K × E)) (acc : K → K → E → Bool) (nval : K → Int) (root t : K) (fuel : Nat)
    (p : List (Edge K E)) (run : Run K E)
    (h : searchPath adj acc nval .dfs root (some t) false fuel = some (some p, run)) :
    IsPath (accAdj adj acc) root t p := by
  obtain ⟨hr, hres⟩ := dfs_searchPath_some _ _ _ _ _ _ _ _ _ _ h
  cases hf : run.found with
  | false => simp [hf] at hres
  | true =>
    simp only [hf, if_true, Option.some.injEq] at hres
    obtain ⟨t', hg, hp⟩ := Dfs.run_sound adj acc nval root (some t) false fuel run hr hf
    have : t = t' := by simpa [goal] using hg
    rw [hres, this]; exact hp

theorem Dfs.path_simple' (adj : K → List (K × E)) (acc : K → K → E → Bool) (nval : K → Int) (root t : K) (fuel : Nat)
    (p : List (Edge K E)) (run : Run K E)
    (h : searchPath adj acc nval .dfs root (some t) false fuel = some (some p, run)) :
    (pathNodes p).Nodup := by
  obtain ⟨hr, hres⟩ := dfs_searchPath_some _ _ _ _ _ _ _ _ _ _ h
  cases hf : run.found with
  | false => simp [hf] at hres
  | true =>
    simp only [hf, if_true, Option.some.injEq] at hres
    rw [hres]; exact Dfs.run_simple_nodes adj acc nval root (some t) fuel run hr hf

theorem Dfs.path_complete' (adj : K → List (K × E)) (acc : K → K → E → Bool) (nval : K → Int) (root t : K) (fuel : Nat)
    (run : Run K E) (hrt : t ≠ root)
    (h : searchPath adj acc nval .dfs root (some t) false fuel = some (none, run)) :
    ¬ Reach (accAdj adj acc) root t := by
  obtain ⟨hr, hres⟩ := dfs_searchPath_some _ _ _ _ _ _ _ _ _ _ h
  cases hf : run.found with
  | true => simp [hf] at hres
  | false =>
    intro hreach
    rcases (reach_iff_path _ _ _).mp hreach with heq | hp
    · exact hrt heq.symm
    · exact Dfs.run_complete adj acc nval root (some t) false fuel run hr hf t (by simp [goal])
        (fun _ => hrt) hp

theorem Dfs.path_iff' (adj : K → List (K × E)) (acc : K → K → E → Bool) (nval : K → Int) (root t : K) (fuel : Nat)
    (res : Option (List (Edge K E))) (run : Run K E) (hrt : t ≠ root)
    (h : searchPath adj acc nval .dfs root (some t) false fuel = some (res, run)) :
    res.isSome = true ↔ Reach (accAdj adj acc) root t := by
  cases res with
  | none =>
    have := Dfs.path_complete' adj acc nval root t fuel run hrt h
    simp [this]
  | some p =>
    have := Dfs.path_sound' adj acc nval root t fuel p run h
    simp only [Option.isSome_some, true_iff]
    exact (reach_iff_path _ _ _).mpr (Or.inr ⟨p, this⟩)

theorem Dfs.search_iff' (adj : K → List (K × E)) (acc : K → K → E → Bool) (nval : K → Int) (root t : K) (fuel : Nat)
    (x : Option K) (run : Run K E) (hrt : t ≠ root)
    (h : searchNode adj acc nval .dfs root (some t) fuel = some (x, run)) :
    (x = some t ∨ x = none) ∧ (x = some t ↔ Reach (accAdj adj acc) root t) := by
  simp only [searchNode, Option.map_eq_some_iff, Prod.mk.injEq] at h
  obtain ⟨r, hr, hx, rfl⟩ := h
  cases hf : r.found with
  | true =>
    simp only [hf, if_true] at hx
    obtain ⟨t', hg, hp⟩ := Dfs.run_sound adj acc nval root (some t) false fuel r hr hf
    have ht : t = t' := by simpa [goal] using hg
    subst ht
    have hreach : Reach (accAdj adj acc) root t := (reach_iff_path _ _ _).mpr (Or.inr ⟨_, hp⟩)
    subst hx
    exact ⟨Or.inl rfl, fun _ => hreach, fun _ => rfl⟩
  | false =>
    simp only [hf] at hx
    have hnr : ¬ Reach (accAdj adj acc) root t := by
      intro hreach
      rcases (reach_iff_path _ _ _).mp hreach with heq | hp
      · exact hrt heq.symm
      · exact Dfs.run_complete adj acc nval root (some t) false fuel r hr hf t (by simp [goal])
          (fun _ => hrt) hp
    have hxn : x = none := by simpa using hx.symm
    subst hxn
    exact ⟨Or.inr rfl, ⟨fun h => (nomatch h), fun h => absurd h hnr⟩⟩

/-! ## Fuel: more than the number of nodes suffices -/

/-- how many entries of `nodes` are not visited yet -/
def dfs_unv (nodes vis : List K) : Nat := (nodes.filter (fun x => decide (x ∉ vis))).length

theorem dfs_unv_le (nodes vis : List K) : dfs_unv nodes vis ≤ nodes.length := List.length_filter_le _ _

theorem dfs_unv_cons_in (x : K) (ns vis : List K) (h : x ∈ vis) : dfs_unv (x :: ns) vis = dfs_unv ns vis := by
  simp [dfs_unv, h]

theorem dfs_unv_cons_out (x : K) (ns vis : List K) (h : x ∉ vis) : dfs_unv (x :: ns) vis = dfs_unv ns vis + 1 := by
  simp [dfs_unv, h]

theorem dfs_unv_mono (nodes vis vis' : List K) (h : ∀ x ∈ vis, x ∈ vis') : dfs_unv nodes vis' ≤ dfs_unv nodes vis := by
  induction nodes with
  | nil => simp [dfs_unv]
  | cons x ns ih =>
    by_cases hx : x ∈ vis
    · rw [dfs_unv_cons_in x ns vis hx, dfs_unv_cons_in x ns vis' (h x hx)]; exact ih
    · by_cases hx' : x ∈ vis'
      · rw [dfs_unv_cons_out x ns vis hx, dfs_unv_cons_in x ns vis' hx']; omega
      · rw [dfs_unv_cons_out x ns vis hx, dfs_unv_cons_out x ns vis' hx']; omega

theorem dfs_unv_lt (nodes vis : List K) (v : K) (hv : v ∈ nodes) (hn : v ∉ vis) :
    dfs_unv nodes (v :: vis) < dfs_unv nodes vis := by
  induction nodes with
  | nil => cases hv
  | cons x ns ih =>
    by_cases hxv : x = v
    · subst hxv
      have hm := dfs_unv_mono ns vis (x :: vis) (fun y hy => List.mem_cons_of_mem _ hy)
      rw [dfs_unv_cons_out x ns vis hn, dfs_unv_cons_in x ns (x :: vis) List.mem_cons_self]; omega
    · have hv' : v ∈ ns := by
        rcases List.mem_cons.mp hv with h | h
        · exact absurd h.symm hxv
        · exact h
      have ih' := ih hv'
      by_cases hx : x ∈ vis
      · rw [dfs_unv_cons_in x ns vis hx, dfs_unv_cons_in x ns (v :: vis) (List.mem_cons_of_mem _ hx)]
        exact ih'
      · have hx2 : x ∉ v :: vis := by
          intro hm; rcases List.mem_cons.mp hm with h | h
          · exact hxv h
          · exact hx h
        rw [dfs_unv_cons_out x ns vis hx, dfs_unv_cons_out x ns (v :: vis) hx2]; omega

theorem dfs_total (c : Cfg K E) (nodes : List K) (hc : Closed (accAdj c.adj c.acc) nodes)
    (fuel : Nat) (u : K) (l : List (K × E)) (st : TSt K E) (hu : u ∈ nodes)
    (hl : ∀ p ∈ l, p ∈ c.adj u) (hf : dfs_unv nodes st.vis < fuel) :
    (dfsEdges c fuel u l st).isSome = true := by
  fun_induction dfsEdges c fuel u l st with
  | case1 => rfl
  | case2 => omega
  | case3 fuel u v e rest st st1 ha hv ih =>
    exact ih hu (fun p hp => hl p (List.mem_cons_of_mem _ hp)) hf
  | case4 => rfl
  | case5 fuel u v e rest st st1 ha hv st2 ht hr ih =>
    have hvn : v ∈ nodes :=
      hc u hu (v, e) (List.mem_filter.mpr ⟨hl _ List.mem_cons_self, by simpa using ha⟩)
    have hlt := dfs_unv_lt nodes st.vis v hvn hv
    have := ih hvn (fun p hp => hp) (by show dfs_unv nodes (v :: st.vis) < fuel; omega)
    rw [hr] at this; cases this
  | case6 => rfl
  | case7 fuel u v e rest st st1 ha hv st2 ht st3 hr ih1 ih2 =>
    have hvn : v ∈ nodes :=
      hc u hu (v, e) (List.mem_filter.mpr ⟨hl _ List.mem_cons_self, by simpa using ha⟩)
    have hlt := dfs_unv_lt nodes st.vis v hvn hv
    have hm := dfs_unv_mono nodes (v :: st.vis) st3.vis (dev_of_dfs _ _ _ _ _ _ _ hr).mono
    exact ih2 hu (fun p hp => hl p (List.mem_cons_of_mem _ hp)) (by omega)
  | case8 fuel u v e rest st st1 ha ih =>
    exact ih hu (fun p hp => hl p (List.mem_cons_of_mem _ hp)) hf

theorem Dfs.fuel_enough' (adj : K → List (K × E)) (acc : K → K → E → Bool) (nval : K → Int) (root : K)
    (target : Option K) (cycle : Bool) (fuel : Nat) (nodes : List K)
    (hc : Closed (accAdj adj acc) nodes) (hr : root ∈ nodes) (hf : nodes.length < fuel) :
    (runLoop adj acc nval .dfs root target cycle fuel).isSome = true := by
  simp only [runLoop, Option.isSome_map]
  exact dfs_total { adj := adj, acc := acc, target := if cycle then some root else target } nodes hc
    fuel root (adj root) _ hr (fun p hp => hp) (Nat.lt_of_le_of_lt (dfs_unv_le _ _) hf)

/-! ## Filtering is the same as searching the subgraph of accepted edges -/

theorem dfsEdges_cons_acc (c : Cfg K E) (fuel : Nat) (u v : K) (e : E) (rest : List (K × E)) (st : TSt K E)
    (ha : c.acc u v e = true) :
    dfsEdges c (fuel + 1) u ((v, e) :: rest) st =
      if v ∈ st.vis then dfsEdges c (fuel + 1) u rest (st.seen (u, v, e))
      else if c.target = some v then some (true, st.enter (u, v, e))
      else match dfsEdges c fuel v (c.adj v) (st.enter (u, v, e)) with
        | none => none
        | some (true, st') => some (true, st')
        | some (false, st') => dfsEdges c (fuel + 1) u rest st' := by
  rw [dfsEdges]
  simp only [ha, if_true]
  rfl

/-- the configuration that sees only the accepted edges and accepts them all -/
@[reducible] def Cfg.filtered (c : Cfg K E) : Cfg K E :=
  { adj := accAdj c.adj c.acc, acc := fun _ _ _ => true, target := c.target }

theorem dfs_filter (c : Cfg K E) (fuel : Nat) (u : K) (l : List (K × E)) (st : TSt K E)
    (b : Bool) (st' : TSt K E) (h : dfsEdges c fuel u l st = some (b, st'))
    (s2 : TSt K E) (hv : s2.vis = st.vis) (ht : s2.tree = st.tree) :
    ∃ s2', dfsEdges c.filtered fuel u (l.filter (fun p => c.acc u p.1 p.2)) s2 = some (b, s2') ∧
      s2'.vis = st'.vis ∧ s2'.tree = st'.tree := by
  fun_induction dfsEdges c fuel u l st generalizing b st' s2 with
  | case1 _ u st =>
    simp only [Option.some.injEq, Prod.mk.injEq] at h
    obtain ⟨rfl, rfl⟩ := h
    exact ⟨s2, by simp [dfsEdges], hv, ht⟩
  | case2 => simp at h
  | case3 fuel u v e rest st st1 ha hvis ih =>
    obtain ⟨s2', h1, h2, h3⟩ := ih b st' h (s2.seen (u, v, e)) hv ht
    refine ⟨s2', ?_, h2, h3⟩
    have hvis2 : v ∈ s2.vis := by rw [hv]; exact hvis
    rw [List.filter_cons_of_pos (by simpa using ha), dfsEdges_cons_acc _ _ _ _ _ _ _ rfl, if_pos hvis2]
    exact h1
  | case4 fuel u v e rest st st1 ha hvis st2 htg =>
    simp only [Option.some.injEq, Prod.mk.injEq] at h
    obtain ⟨rfl, rfl⟩ := h
    have hvis2 : v ∉ s2.vis := by rw [hv]; exact hvis
    refine ⟨s2.enter (u, v, e), ?_, by simp [hv, st2, st1], by simp [ht, st2, st1]⟩
    rw [List.filter_cons_of_pos (by simpa using ha), dfsEdges_cons_acc _ _ _ _ _ _ _ rfl, if_neg hvis2,
      if_pos htg]
  | case5 => simp at h
  | case6 fuel u v e rest st st1 ha hvis st2 htg st3 hr ih =>
    simp only [Option.some.injEq, Prod.mk.injEq] at h
    obtain ⟨rfl, rfl⟩ := h
    have hvis2 : v ∉ s2.vis := by rw [hv]; exact hvis
    obtain ⟨s2', h1, h2, h3⟩ := ih true st3 hr (s2.enter (u, v, e)) (by simp [hv, st2, st1])
      (by simp [ht, st2, st1])
    refine ⟨s2', ?_, h2, h3⟩
    rw [List.filter_cons_of_pos (by simpa using ha), dfsEdges_cons_acc _ _ _ _ _ _ _ rfl, if_neg hvis2,
      if_neg htg]
    have h1' : dfsEdges c.filtered fuel v (c.filtered.adj v) (s2.enter (u, v, e)) = some (true, s2') := h1
    rw [h1']
  | case7 fuel u v e rest st st1 ha hvis st2 htg st3 hr ih1 ih2 =>
    have hvis2 : v ∉ s2.vis := by rw [hv]; exact hvis
    obtain ⟨s3, h1, h2, h3⟩ := ih1 false st3 hr (s2.enter (u, v, e)) (by simp [hv, st2, st1])
      (by simp [ht, st2, st1])
    obtain ⟨s2', g1, g2, g3⟩ := ih2 b st' h s3 h2 h3
    refine ⟨s2', ?_, g2, g3⟩
    rw [List.filter_cons_of_pos (by simpa using ha), dfsEdges_cons_acc _ _ _ _ _ _ _ rfl, if_neg hvis2,
      if_neg htg]
    have h1' : dfsEdges c.filtered fuel v (c.filtered.adj v) (s2.enter (u, v, e)) = some (false, s3) := h1
    rw [h1']
    exact g1
  | case8 fuel u v e rest st st1 ha ih =>
    obtain ⟨s2', h1, h2, h3⟩ := ih b st' h s2 hv ht
    refine ⟨s2', ?_, h2, h3⟩
    rw [List.filter_cons_of_neg (by simpa using ha)]
    exact h1

/-- If the filtered run does not run out of fuel, the run on the accepted subgraph (with the same fuel)
    gives the same answer, visited list and edge tree. (The unconditional equation is false: the filtered
    run needs fuel to skip rejected edges, the subgraph run does not see them. Fuel 1, edges
    `0 → 1` accepted, `1 → 2` rejected: `none` on the left, `some` on the right.) -/
theorem Dfs.filter_subgraph_some (adj : K → List (K × E)) (acc : K → K → E → Bool) (nval : K → Int) (root : K)
    (target : Option K) (cycle : Bool) (fuel : Nat) (r : Run K E)
    (h : runLoop adj acc nval .dfs root target cycle fuel = some r) :
    (runLoop (accAdj adj acc) (fun _ _ _ => true) nval .dfs root target cycle fuel).map
      (fun r => (r.found, r.st.vis, r.st.tree)) = some (r.found, r.st.vis, r.st.tree) := by
  simp only [runLoop, Option.map_eq_some_iff] at h
  obtain ⟨⟨f, st⟩, hd, rfl⟩ := h
  obtain ⟨s2', h1, h2, h3⟩ := dfs_filter _ _ _ _ _ _ _ hd (st0 root cycle) rfl rfl
  have h1' : dfsEdges (Cfg.mk (accAdj adj acc) (fun _ _ _ => true)
      (if cycle then some root else target)) fuel root (accAdj adj acc root)
      (st0 root cycle) = some (f, s2') := h1
  simp only [runLoop, h1', Option.map_some, h2, h3]

theorem Dfs.filter_subgraph (adj : K → List (K × E)) (acc : K → K → E → Bool) (nval : K → Int) (root : K)
    (target : Option K) (cycle : Bool) (fuel : Nat)
    (hs : (runLoop adj acc nval .dfs root target cycle fuel).isSome = true) :
    (runLoop adj acc nval .dfs root target cycle fuel).map (fun r => (r.found, r.st.vis, r.st.tree)) =
    (runLoop (accAdj adj acc) (fun _ _ _ => true) nval .dfs root target cycle fuel).map
      (fun r => (r.found, r.st.vis, r.st.tree)) := by
  obtain ⟨r, hr⟩ := Option.isSome_iff_exists.mp hs
  rw [Dfs.filter_subgraph_some adj acc nval root target cycle fuel r hr, hr]
  rfl

/-- with enough fuel (`Dfs.fuel_enough'`) the equation holds unconditionally -/
theorem Dfs.filter_subgraph_closed (adj : K → List (K × E)) (acc : K → K → E → Bool) (nval : K → Int) (root : K)
    (target : Option K) (cycle : Bool) (fuel : Nat) (nodes : List K)
    (hc : Closed (accAdj adj acc) nodes) (hr : root ∈ nodes) (hf : nodes.length < fuel) :
    (runLoop adj acc nval .dfs root target cycle fuel).map (fun r => (r.found, r.st.vis, r.st.tree)) =
    (runLoop (accAdj adj acc) (fun _ _ _ => true) nval .dfs root target cycle fuel).map
      (fun r => (r.found, r.st.vis, r.st.tree)) :=
  Dfs.filter_subgraph adj acc nval root target cycle fuel
    (Dfs.fuel_enough' adj acc nval root target cycle fuel nodes hc hr hf)

/-! ## Trace and tree -/

theorem Dfs.trace_sound (adj : K → List (K × E)) (acc : K → K → E → Bool) (nval : K → Int) (root : K)
    (target : Option K) (cycle : Bool) (fuel : Nat) (r : Run K E)
    (h : runLoop adj acc nval .dfs root target cycle fuel = some r) :
    ∀ x ∈ r.st.trace, (x.2.1, x.2.2) ∈ adj x.1 :=
  ((run_dev adj acc nval root target cycle fuel r h).edges (fun _ hp => hp) (by simp) (by simp)).2

theorem Dfs.tree_accepted (adj : K → List (K × E)) (acc : K → K → E → Bool) (nval : K → Int) (root : K)
    (target : Option K) (cycle : Bool) (fuel : Nat) (r : Run K E)
    (h : runLoop adj acc nval .dfs root target cycle fuel = some r) :
    ∀ x ∈ r.st.tree, (x.2.1, x.2.2) ∈ accAdj adj acc x.1 :=
  ((run_dev adj acc nval root target cycle fuel r h).edges (fun _ hp => hp) (by simp) (by simp)).1

theorem perm_shuffle {α : Type} (S X A B C D : List α) :
    (S ++ X ++ (A ++ B) ++ (C ++ D)).Perm (S ++ (X ++ C ++ (D ++ B ++ A))) := by
  classical
  rw [List.perm_iff_count]
  intro a
  simp only [List.count_append]
  omega

/-- a `false` return has shown the callback every remaining edge of `u` and every edge of every newly
    visited node, exactly once -/
theorem DEv.trace_perm {c : Cfg K E} {u : K} {l : List (K × E)} {st st' : TSt K E} {b : Bool}
    (h : DEv c u l st b st') (hb : b = false) :
    ∃ N, st'.vis = N ++ st.vis ∧
      st'.trace.Perm (st.trace ++ (l.map (fun p => (u, p.1, p.2)) ++ N.flatMap (edgesOf c.adj))) := by
  induction h with
  | nil u st => exact ⟨[], rfl, by simp⟩
  | @rej u v e rest st st' b _ _ ih =>
    obtain ⟨N, h1, h2⟩ := ih hb
    exact ⟨N, h1, h2.trans (by simp)⟩
  | @old u v e rest st st' b _ _ _ ih =>
    obtain ⟨N, h1, h2⟩ := ih hb
    exact ⟨N, h1, h2.trans (by simp)⟩
  | hit => cases hb
  | downT => cases hb
  | @downF u v e rest st st1 st' b _ _ _ _ _ ih1 ih2 =>
    obtain ⟨N1, a1, a2⟩ := ih1 rfl
    obtain ⟨N2, b1, b2⟩ := ih2 hb
    refine ⟨N2 ++ N1 ++ [v], by rw [b1, a1]; simp, ?_⟩
    refine b2.trans ((List.Perm.append_right _ a2).trans ?_)
    have := perm_shuffle st.trace [(u, v, e)] (edgesOf c.adj v) (N1.flatMap (edgesOf c.adj))
      (rest.map (fun p => (u, p.1, p.2))) (N2.flatMap (edgesOf c.adj))
    refine this.trans ?_
    simp [edgesOf]

/-- sources and targets of a discovery tree made of graph edges are reachable from the root -/
theorem dtree_reach (A : K → List (K × E)) (r : K) {T : List (Edge K E)} (ht : DTree r T)
    (hs : ∀ x ∈ T, (x.2.1, x.2.2) ∈ A x.1) : ∀ x ∈ T, Reach A r x.1 ∧ Reach A r x.2.1 := by
  induction ht with
  | nil => intro x hx; cases hx
  | @snoc t u v e _ hu ih =>
    have ih' := ih (fun x hx => hs x (List.mem_append_left _ hx))
    intro x hx
    rcases List.mem_append.mp hx with hx | hx
    · exact ih' x hx
    · rw [List.mem_singleton.mp hx]
      have hru : Reach A r u := by
        rcases hu with rfl | ⟨y, hy, rfl⟩
        · exact .refl _
        · exact (ih' y hy).2
      exact ⟨hru, .step hru (hs (u, v, e) (by simp))⟩

theorem dfs_accAdj_true (adj : K → List (K × E)) : accAdj adj (fun _ _ _ => true) = adj := by
  funext u; simp [accAdj]

/-- A run that reports failure has shown the callback every edge (accepted or not) of every node that is
    reachable by accepted edges, exactly once. Both modes, any filter. -/
theorem Dfs.trace_perm_acc (adj : K → List (K × E)) (acc : K → K → E → Bool) (nval : K → Int) (root : K)
    (target : Option K) (cycle : Bool) (fuel : Nat) (r : Run K E)
    (h : runLoop adj acc nval .dfs root target cycle fuel = some r) (hf : r.found = false) :
    ∃ L : List K, L.Nodup ∧ (∀ u, u ∈ L ↔ Reach (accAdj adj acc) root u) ∧
      r.st.trace.Perm (L.flatMap (edgesOf adj)) := by
  have hd := run_dev adj acc nval root target cycle fuel r h
  have hp := hd.post hf
  obtain ⟨hvis, hnd⟩ := hd.inv (st0 (E := E) root cycle).vis (by simp) (st0_nodup root cycle)
  have hdt : DTree root r.st.tree := hd.dtree root .nil (Or.inl rfl)
  have hed := (hd.edges (fun p hp => hp) (by simp) (by simp)).1
  have hreachT := dtree_reach (accAdj adj acc) root hdt hed
  obtain ⟨N, hN, hperm⟩ := hd.trace_perm hf
  have hst : ∀ x ∈ (st0 (E := E) root cycle).vis, x = root := by
    cases cycle <;> simp
  have hrootN : root ∉ N := by
    intro hmem
    cases cycle with
    | false =>
      rw [hN] at hnd
      exact (List.nodup_append.mp hnd).2.2 root hmem root (by simp) rfl
    | true =>
      exact hp.noTarget root (by simp [goal]) (by simp) (by rw [hN]; exact List.mem_append_left _ hmem)
  refine ⟨root :: N, ?_, ?_, ?_⟩
  · rw [hN] at hnd
    exact List.nodup_cons.mpr ⟨hrootN, (List.nodup_append.mp hnd).1⟩
  · intro u
    constructor
    · intro hu
      rcases List.mem_cons.mp hu with rfl | hu
      · exact .refl _
      · have hu' : u ∈ r.st.vis := by rw [hN]; exact List.mem_append_left _ hu
        rw [hvis] at hu'
        rcases List.mem_append.mp hu' with hu' | hu'
        · obtain ⟨x, hx, rfl⟩ := List.mem_map.mp (List.mem_reverse.mp hu')
          exact (hreachT x hx).2
        · rw [hst u hu']; exact .refl _
    · intro hu
      rcases (reach_iff_path _ _ _).mp hu with rfl | ⟨q, hne, hw⟩
      · exact List.mem_cons_self
      · rcases walk_visited _ root _ _ hp hst hw rfl with ⟨h1, _⟩ | ⟨_, h2⟩
        · exact absurd h1 hne
        · rw [hN] at h2
          rcases List.mem_append.mp h2 with h2 | h2
          · exact List.mem_cons_of_mem _ h2
          · rw [hst u h2]; exact List.mem_cons_self
  · refine hperm.trans ?_
    simp [edgesOf]

/-- without filter and target the callback sees every edge of every reachable node exactly once -/
theorem Dfs.trace_perm (adj : K → List (K × E)) (nval : K → Int) (root : K) (fuel : Nat) (r : Run K E)
    (h : runLoop adj (fun _ _ _ => true) nval .dfs root none false fuel = some r) :
    ∃ L : List K, L.Nodup ∧ (∀ u, u ∈ L ↔ Reach adj root u) ∧
      r.st.trace.Perm (L.flatMap (edgesOf adj)) := by
  have hf : r.found = false := by
    cases hfound : r.found with
    | false => rfl
    | true =>
      obtain ⟨_, _, _, ht⟩ := (run_dev adj _ nval root none false fuel r h).last hfound
      simp [goal] at ht
  have := Dfs.trace_perm_acc adj (fun _ _ _ => true) nval root none false fuel r h hf
  rw [dfs_accAdj_true] at this
  exact this

end G

import GdslModel.Model.Spec
/-!
# Store and list lemmas (core Lean only)

`get`/`set` of the association-list store, `vals`, `removeFirst`, `hasKey`, and the
specification-side list functions `eraseKey` / `dropKey`.
-/
namespace G
variable {K E : Type} [DecidableEq K]

/-! ### store -/

theorem setCells_find (l : List (K × Adj K E)) (k x : K) (a : Adj K E) :
    (setCells l k a).find? (fun p => p.1 = x) = if x = k then some (k, a) else l.find? (fun p => p.1 = x) := by
  fun_induction setCells l k a <;> grind

theorem get_set (s : Store K E) (k x : K) (a : Adj K E) :
    (s.set k a).get x = if x = k then a else s.get x := by
  unfold Store.get Store.set
  simp only [setCells_find]
  by_cases h : x = k <;> simp [h]

@[simp] theorem get_set_same (s : Store K E) (k : K) (a : Adj K E) : (s.set k a).get k = a := by
  simp [get_set]

theorem get_set_other (s : Store K E) (k x : K) (a : Adj K E) (h : x ≠ k) : (s.set k a).get x = s.get x := by
  simp [get_set, h]

@[simp] theorem get_empty (k : K) : ({} : Store K E).get k = {} := by simp [Store.get]

/-! ### vals -/

@[simp] theorem vals_nil (k : K) : vals ([] : List (K × E)) k = [] := rfl

@[simp] theorem vals_append (l₁ l₂ : List (K × E)) (k : K) : vals (l₁ ++ l₂) k = vals l₁ k ++ vals l₂ k := by
  simp [vals]

@[simp] theorem vals_single_same (k : K) (e : E) : vals [(k, e)] k = [e] := by simp [vals]

theorem vals_single_other (k j : K) (e : E) (h : k ≠ j) : vals [(k, e)] j = [] := by simp [vals, h]

theorem vals_cons (k' : K) (e : E) (l : List (K × E)) (k : K) :
    vals ((k', e) :: l) k = if k' = k then e :: vals l k else vals l k := by
  by_cases h : k' = k <;> simp [vals, h]

theorem vals_eq_nil_iff (l : List (K × E)) (k : K) : vals l k = [] ↔ ∀ p ∈ l, p.1 ≠ k := by
  simp [vals, List.filter_eq_nil_iff]

theorem vals_length (l : List (K × E)) (k : K) : (vals l k).length = (l.filter (fun p => p.1 = k)).length := by
  simp [vals]

/-- a list without any key is empty -/
theorem eq_nil_of_vals_nil (l : List (K × E)) (h : ∀ k, vals l k = []) : l = [] := by
  cases l with
  | nil => rfl
  | cons p t =>
    have := h p.1
    rw [vals_eq_nil_iff] at this
    exact absurd rfl (this p (by simp))

/-! ### hasKey -/

theorem hasKey_iff_vals (l : List (K × E)) (k : K) : hasKey l k = true ↔ vals l k ≠ [] := by
  simp [hasKey, vals, List.filter_eq_nil_iff]

theorem hasKey_false_iff_vals (l : List (K × E)) (k : K) : hasKey l k = false ↔ vals l k = [] := by
  rw [← Bool.not_eq_true, hasKey_iff_vals]; simp

/-- two lists with the same emptiness of `vals` give the same `hasKey` answer -/
theorem hasKey_congr (l₁ l₂ : List (K × E)) (k₁ k₂ : K) (h : vals l₁ k₁ = vals l₂ k₂) :
    hasKey l₁ k₁ = hasKey l₂ k₂ := by
  cases h1 : hasKey l₁ k₁ <;> cases h2 : hasKey l₂ k₂ <;> try rfl
  · rw [hasKey_false_iff_vals] at h1; rw [hasKey_iff_vals] at h2; exact absurd (h ▸ h1) h2
  · rw [hasKey_false_iff_vals] at h2; rw [hasKey_iff_vals] at h1; exact absurd (h ▸ h2) h1

/-! ### removeFirst -/

theorem removeFirst_same (l : List (K × E)) (k : K) (e : E) (l' : List (K × E))
    (h : removeFirst l k = some (e, l')) : vals l k = e :: vals l' k := by
  fun_induction removeFirst l k generalizing e l' <;> simp_all [vals] <;> grind

theorem removeFirst_other (l : List (K × E)) (k j : K) (e : E) (l' : List (K × E))
    (h : removeFirst l k = some (e, l')) (hj : j ≠ k) : vals l j = vals l' j := by
  fun_induction removeFirst l k generalizing e l' <;> simp_all [vals] <;> grind

theorem removeFirst_some (l : List (K × E)) (k : K) (e : E) (l' : List (K × E))
    (h : removeFirst l k = some (e, l')) :
    vals l k = e :: vals l' k ∧ ∀ j, j ≠ k → vals l j = vals l' j :=
  ⟨removeFirst_same l k e l' h, fun j hj => removeFirst_other l k j e l' h hj⟩

theorem removeFirst_none (l : List (K × E)) (k : K) (h : removeFirst l k = none) : vals l k = [] := by
  induction l with
  | nil => rfl
  | cons p t ih =>
    obtain ⟨k', e⟩ := p
    simp only [removeFirst] at h
    split at h
    · simp at h
    · rename_i hk
      cases hr : removeFirst t k with
      | none => simp [vals, hk]; simpa [vals] using ih hr
      | some x => simp [hr] at h

theorem removeFirst_isSome (l : List (K × E)) (k : K) (h : vals l k ≠ []) : (removeFirst l k).isSome := by
  cases hr : removeFirst l k with
  | none => exact absurd (removeFirst_none l k hr) h
  | some _ => rfl

theorem removeFirst_eq_none (l : List (K × E)) (k : K) (h : vals l k = []) : removeFirst l k = none := by
  cases hr : removeFirst l k with
  | none => rfl
  | some x => obtain ⟨e, l'⟩ := x; have := (removeFirst_some l k e l' hr).1; rw [h] at this; simp at this

theorem removeFirst_length (l : List (K × E)) (k : K) (e : E) (l' : List (K × E))
    (h : removeFirst l k = some (e, l')) : l'.length + 1 = l.length := by
  fun_induction removeFirst l k generalizing e l' <;> simp_all <;> grind

/-- list-level effect of `removeFirst`: the remaining list is `eraseKey` -/
theorem removeFirst_eraseKey (l : List (K × E)) (k : K) (e : E) (l' : List (K × E))
    (h : removeFirst l k = some (e, l')) : l' = eraseKey l k := by
  fun_induction removeFirst l k generalizing e l' <;> simp_all [eraseKey] <;> grind

/-- `removeFirst` on a list whose `vals` start with `e` returns `e` and `eraseKey` -/
theorem removeFirst_of_vals (l : List (K × E)) (k : K) (e : E) (t : List E) (h : vals l k = e :: t) :
    removeFirst l k = some (e, eraseKey l k) := by
  have hs := removeFirst_isSome l k (by rw [h]; simp)
  obtain ⟨⟨e', l'⟩, hr⟩ := Option.isSome_iff_exists.mp hs
  have h1 := removeFirst_same l k e' l' hr
  rw [h] at h1
  have he : e = e' := (List.cons.inj h1).1
  rw [hr, ← removeFirst_eraseKey l k e' l' hr, he]

/-! ### eraseKey / dropKey -/

theorem eraseKey_cons (k' : K) (e : E) (t : List (K × E)) (k : K) :
    eraseKey ((k', e) :: t) k = if k' = k then t else (k', e) :: eraseKey t k := by
  by_cases h : k' = k <;> simp [eraseKey, h]

theorem dropKey_cons (k' : K) (e : E) (t : List (K × E)) (k : K) :
    dropKey ((k', e) :: t) k = if k' = k then dropKey t k else (k', e) :: dropKey t k := by
  by_cases h : k' = k <;> simp [dropKey, h]

@[simp] theorem eraseKey_nil (k : K) : eraseKey ([] : List (K × E)) k = [] := rfl
@[simp] theorem dropKey_nil (k : K) : dropKey ([] : List (K × E)) k = [] := rfl

theorem vals_eraseKey (l : List (K × E)) (k j : K) :
    vals (eraseKey l k) j = if j = k then (vals l k).tail else vals l j := by
  induction l with
  | nil => simp
  | cons p t ih =>
    obtain ⟨k', e⟩ := p
    rw [eraseKey_cons]
    by_cases hk : k' = k
    · subst hk
      by_cases hj : j = k'
      · subst hj; simp [vals_cons]
      · have : ¬ k' = j := fun h => hj h.symm
        simp [vals_cons, hj, this]
    · simp only [hk, if_false, vals_cons, ih]
      by_cases hj : j = k
      · subst hj; simp [hk]
      · by_cases hkj : k' = j <;> simp [hj, hkj]

theorem vals_dropKey (l : List (K × E)) (k j : K) :
    vals (dropKey l k) j = if j = k then [] else vals l j := by
  induction l with
  | nil => simp
  | cons p t ih =>
    obtain ⟨k', e⟩ := p
    rw [dropKey_cons]
    by_cases hk : k' = k
    · subst hk
      by_cases hj : j = k'
      · subst hj; simp [ih]
      · have : ¬ k' = j := fun h => hj h.symm
        simp [vals_cons, hj, this, ih]
    · simp only [hk, if_false, vals_cons, ih]
      by_cases hj : j = k
      · subst hj; simp [hk]
      · by_cases hkj : k' = j <;> simp [hj, hkj]

theorem dropKey_eraseKey (l : List (K × E)) (k : K) : dropKey (eraseKey l k) k = dropKey l k := by
  induction l with
  | nil => simp
  | cons p t ih =>
    obtain ⟨k', e⟩ := p
    rw [eraseKey_cons]
    by_cases hk : k' = k
    · simp [hk, dropKey_cons]
    · simp [hk, dropKey_cons, ih]

theorem dropKey_eq_self (l : List (K × E)) (k : K) (h : vals l k = []) : dropKey l k = l := by
  rw [vals_eq_nil_iff] at h
  unfold dropKey
  rw [List.filter_eq_self]
  intro p hp; simpa using h p hp

theorem removeFirst_dropKey (l : List (K × E)) (k : K) (e : E) (l' : List (K × E))
    (h : removeFirst l k = some (e, l')) : dropKey l' k = dropKey l k := by
  rw [removeFirst_eraseKey l k e l' h, dropKey_eraseKey]

/-! ### positional access -/

theorem vals_drop_getElem (l : List (K × E)) (pos : Nat) (v : K) (e : E) (h : l[pos]? = some (v, e)) (b : K) :
    vals (l.drop pos) b = (if v = b then [e] else []) ++ vals (l.drop (pos + 1)) b := by
  have hlt : pos < l.length := by
    rcases Nat.lt_or_ge pos l.length with h' | h'
    · exact h'
    · simp [List.getElem?_eq_none h'] at h
  have : l.drop pos = (v, e) :: l.drop (pos + 1) := by
    rw [List.drop_eq_getElem_cons hlt]
    simp [List.getElem?_eq_getElem hlt] at h
    rw [h]
  rw [this]; by_cases hv : v = b <;> simp [vals, hv]

/-- an entry of `l` with key `v` shows up in `vals l v` -/
theorem vals_ne_nil_of_mem (l : List (K × E)) (v : K) (e : E) (h : (v, e) ∈ l) : vals l v ≠ [] := by
  intro hn
  rw [vals_eq_nil_iff] at hn
  exact hn (v, e) h rfl

end G

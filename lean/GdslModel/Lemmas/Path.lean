import GdslModel.Model.Spec
/-!
# `backtrack_edge_tree` and chains (shared by C04, C05, C06, C09)
INTERFACE FILE: the statements below are fixed; proofs are to be filled in.
-/
namespace G
set_option linter.unusedSectionVars false
variable {K E : Type} [DecidableEq K]

/-! ## helpers -/

/-- discovery trees, latest edge first -/
def RevOK (r : K) : List (Edge K E) → Prop
  | [] => True
  | e :: l => RevOK r l ∧ (e.1 = r ∨ ∃ e' ∈ l, e'.2.1 = e.1)

theorem DTree.snoc_inv {r : K} {t : List (Edge K E)} {x : Edge K E} (h : DTree r (t ++ [x])) :
    DTree r t ∧ (x.1 = r ∨ ∃ y ∈ t, y.2.1 = x.1) := by
  generalize hl : t ++ [x] = l at h
  cases h with
  | nil => simp at hl
  | @snoc t' u v e ht hu =>
    obtain ⟨h1, h2⟩ := List.append_inj' hl rfl
    simp only [List.cons.injEq, and_true] at h2
    subst h1; subst h2
    exact ⟨ht, hu⟩

theorem DTree.revOK {r : K} {t : List (Edge K E)} (h : DTree r t) : RevOK r t.reverse := by
  induction h with
  | nil => exact True.intro
  | @snoc t u v e _ hu ih =>
    rw [List.reverse_append]
    refine ⟨ih, ?_⟩
    rcases hu with hu | ⟨y, hy, hyu⟩
    · exact Or.inl hu
    · exact Or.inr ⟨y, List.mem_reverse.mpr hy, hyu⟩

/-- every edge source in a discovery tree is the root or the target of a tree edge -/
theorem DTree.src {r : K} {t : List (Edge K E)} (h : DTree r t) :
    ∀ x ∈ t, x.1 = r ∨ ∃ y ∈ t, y.2.1 = x.1 := by
  induction h with
  | nil => intro x hx; cases hx
  | @snoc t u v e _ hu ih =>
    intro x hx
    rcases List.mem_append.mp hx with hx | hx
    · rcases ih x hx with h | ⟨y, hy, hyx⟩
      · exact Or.inl h
      · exact Or.inr ⟨y, List.mem_append_left _ hy, hyx⟩
    · rw [List.mem_singleton] at hx; subst hx
      rcases hu with h | ⟨y, hy, hyx⟩
      · exact Or.inl h
      · exact Or.inr ⟨y, List.mem_append_left _ hy, hyx⟩

theorem backLoop_chain (r : K) (rest : List (Edge K E)) (cur : Edge K E) (acc : List (Edge K E))
    (hok : RevOK r rest) (hroot : ∀ e ∈ rest, e.2.1 ≠ r)
    (hcur : cur.1 = r ∨ ∃ e' ∈ rest, e'.2.1 = cur.1) :
    ∃ p, backLoop rest cur acc = p ++ acc ∧ Chain r cur.1 p ∧ ∀ e ∈ p, e ∈ rest := by
  induction rest generalizing cur acc with
  | nil =>
    rcases hcur with h | ⟨e', he', _⟩
    · exact ⟨[], by simp [backLoop], by rw [h]; exact .nil r, by simp⟩
    · cases he'
  | cons e rest ih =>
    obtain ⟨hok', he⟩ := hok
    have hroot' : ∀ e' ∈ rest, e'.2.1 ≠ r := fun e' h => hroot e' (List.mem_cons_of_mem _ h)
    simp only [backLoop]
    by_cases hce : cur.1 = e.2.1
    · simp only [if_pos hce]
      obtain ⟨p, hp, hch, hsub⟩ := ih e (e :: acc) hok' hroot' he
      refine ⟨p ++ [e], by rw [hp]; simp, ?_, ?_⟩
      · rw [hce]
        obtain ⟨e1, e2, e3⟩ := e
        exact Chain.snoc hch
      · intro x hx; rcases List.mem_append.mp hx with h | h
        · exact List.mem_cons_of_mem _ (hsub x h)
        · rw [List.mem_singleton] at h; subst h; exact List.mem_cons_self
    · simp only [if_neg hce]
      have hcur' : cur.1 = r ∨ ∃ e' ∈ rest, e'.2.1 = cur.1 := by
        rcases hcur with h | ⟨e', he', heq⟩
        · exact Or.inl h
        · rcases List.mem_cons.mp he' with h | h
          · subst h; exact absurd heq.symm hce
          · exact Or.inr ⟨e', h, heq⟩
      obtain ⟨p, hp, hch, hsub⟩ := ih cur acc hok' hroot' hcur'
      exact ⟨p, hp, hch, fun x hx => List.mem_cons_of_mem _ (hsub x hx)⟩

/-- the end of a chain and all edge sources lie on the node list `a :: targets` -/
theorem Chain.nodes_mem {a b : K} {p : List (Edge K E)} (hc : Chain a b p) :
    b ∈ a :: p.map (fun x => x.2.1) ∧ ∀ x ∈ p, x.1 ∈ a :: p.map (fun x => x.2.1) := by
  induction hc with
  | nil => exact ⟨List.mem_cons_self, fun x hx => by cases hx⟩
  | @snoc b c e p _ ih =>
    obtain ⟨ih1, ih2⟩ := ih
    have mono : ∀ y, y ∈ a :: p.map (fun x => x.2.1) → y ∈ a :: (p ++ [(b, c, e)]).map (fun x => x.2.1) := by
      intro y hy
      rcases List.mem_cons.mp hy with h | h
      · exact h ▸ List.mem_cons_self
      · exact List.mem_cons_of_mem _ (by rw [List.map_append]; exact List.mem_append_left _ h)
    refine ⟨List.mem_cons_of_mem _ (by simp), ?_⟩
    intro x hx
    rcases List.mem_append.mp hx with h | h
    · exact mono _ (ih2 x h)
    · rw [List.mem_singleton] at h; subst h; exact mono _ ih1

/-- on a chain whose node list has no repetition, no edge leaves the end node -/
theorem Chain.no_src_end {a b : K} {p : List (Edge K E)} (hc : Chain a b p)
    (hn : (a :: p.map (fun x => x.2.1)).Nodup) : ∀ x ∈ p, x.1 ≠ b := by
  induction hc with
  | nil => intro x hx; cases hx
  | @snoc b c e p hc _ =>
    have hnd : (a :: (p.map (fun x => x.2.1) ++ [c])).Nodup := by simpa using hn
    have hc_not : c ∉ a :: p.map (fun x => x.2.1) := by
      intro hmem
      rw [← List.cons_append, List.nodup_append] at hnd
      exact hnd.2.2 c hmem c (List.mem_singleton.mpr rfl) rfl
    obtain ⟨h1, h2⟩ := hc.nodes_mem
    intro x hx heq
    rcases List.mem_append.mp hx with h | h
    · exact hc_not (heq ▸ h2 x h)
    · rw [List.mem_singleton] at h; subst h; exact hc_not (heq ▸ h1)

theorem Chain.head {a b : K} {p : List (Edge K E)} (hc : Chain a b p) :
    (p = [] ∧ a = b) ∨ ∃ v e rest, p = (a, v, e) :: rest := by
  induction hc with
  | nil => exact Or.inl ⟨rfl, rfl⟩
  | @snoc b c e p _ ih =>
    right
    rcases ih with ⟨h1, h2⟩ | ⟨v, e', rest, h⟩
    · subst h1; subst h2; exact ⟨c, e, [], rfl⟩
    · subst h; exact ⟨v, e', rest ++ [(b, c, e)], rfl⟩

theorem eq_of_nodup_map_tgt {tree : List (Edge K E)} (hn : (tree.map (fun x => x.2.1)).Nodup)
    {x y : Edge K E} (hx : x ∈ tree) (hy : y ∈ tree) (h : x.2.1 = y.2.1) : x = y := by
  induction tree with
  | nil => cases hx
  | cons z tree ih =>
    rw [List.map_cons, List.nodup_cons] at hn
    rcases List.mem_cons.mp hx with hx' | hx'
    · rcases List.mem_cons.mp hy with hy' | hy'
      · rw [hx', hy']
      · subst hx'; exact absurd (List.mem_map.mpr ⟨y, hy', h.symm⟩) hn.1
    · rcases List.mem_cons.mp hy with hy' | hy'
      · subst hy'; exact absurd (List.mem_map.mpr ⟨x, hx', h⟩) hn.1
      · exact ih hn.2 hx' hy'

/-! ## the interface -/

/-- the path returned for a discovery tree ending in `w` is `p ++ [w]` with `p` a chain of earlier
    tree edges from the root to the source of `w`; `w.2.1 = r` is allowed (cycle search) but no
    earlier edge enters the root -/
theorem backtrack_spec (r : K) (tree : List (Edge K E)) (w : Edge K E)
    (ht : DTree r (tree ++ [w])) (hroot : ∀ x ∈ tree, x.2.1 ≠ r) :
    ∃ p, backtrack (tree ++ [w]) = p ++ [w] ∧ Chain r w.1 p ∧ ∀ x ∈ p, x ∈ tree := by
  obtain ⟨ht', hw⟩ := ht.snoc_inv
  have hw' : w.1 = r ∨ ∃ e' ∈ tree.reverse, e'.2.1 = w.1 := by
    rcases hw with h | ⟨y, hy, hyw⟩
    · exact Or.inl h
    · exact Or.inr ⟨y, List.mem_reverse.mpr hy, hyw⟩
  obtain ⟨p, hp, hch, hsub⟩ := backLoop_chain r tree.reverse w [w] ht'.revOK
    (fun e he => hroot e (List.mem_reverse.mp he)) hw'
  refine ⟨p, ?_, hch, fun x hx => List.mem_reverse.mp (hsub x hx)⟩
  simp only [backtrack, List.reverse_append, List.reverse_cons, List.reverse_nil, List.nil_append,
    List.cons_append]
  exact hp

/-- a chain of edges that all exist in the graph is a walk -/
theorem chain_walk (adj : K → List (K × E)) {a b : K} {p : List (Edge K E)} (hc : Chain a b p)
    (hs : ∀ x ∈ p, (x.2.1, x.2.2) ∈ adj x.1) : Walk adj a b p := by
  induction hc with
  | nil => exact .nil a
  | @snoc b c e p _ ih =>
    exact .snoc (ih fun x hx => hs x (List.mem_append_left _ hx))
      (hs (b, c, e) (List.mem_append_right _ (List.mem_singleton.mpr rfl)))

/-- with a depth function that grows by one along tree edges, a chain of tree edges from the root to `a`
    has exactly `d a` edges -/
theorem chain_depth (tree : List (Edge K E)) (d : K → Nat) (r : K) (hd0 : d r = 0)
    (hd : ∀ x ∈ tree, d x.2.1 = d x.1 + 1) {a : K} {p : List (Edge K E)} (hc : Chain r a p)
    (hs : ∀ x ∈ p, x ∈ tree) : p.length = d a := by
  induction hc with
  | nil => exact hd0.symm
  | @snoc b c e p _ ih =>
    have h1 := ih fun x hx => hs x (List.mem_append_left _ hx)
    have h2 := hd (b, c, e) (hs _ (List.mem_append_right _ (List.mem_singleton.mpr rfl)))
    simp only [List.length_append, List.length_cons, List.length_nil] at *
    omega

/-- in a tree whose edge targets are distinct and never the root, a chain from the root repeats no node -/
theorem chain_simple (r : K) (tree : List (Edge K E)) (hn : (tree.map (fun x => x.2.1)).Nodup)
    (hroot : ∀ x ∈ tree, x.2.1 ≠ r) {a : K} {p : List (Edge K E)} (hc : Chain r a p)
    (hs : ∀ x ∈ p, x ∈ tree) : (r :: p.map (fun x => x.2.1)).Nodup := by
  induction hc with
  | nil => simp
  | @snoc b c e p hc ih =>
    have hsp : ∀ x ∈ p, x ∈ tree := fun x hx => hs x (List.mem_append_left _ hx)
    have hw : (b, c, e) ∈ tree := hs _ (List.mem_append_right _ (List.mem_singleton.mpr rfl))
    have ih' := ih hsp
    have hcr : c ≠ r := hroot _ hw
    have hcp : c ∉ p.map (fun x => x.2.1) := by
      intro hmem
      obtain ⟨x, hx, hxc⟩ := List.mem_map.mp hmem
      have : x = (b, c, e) := eq_of_nodup_map_tgt hn (hsp x hx) hw hxc
      subst this
      exact hc.no_src_end ih' _ hx rfl
    rw [List.map_append, ← List.cons_append, List.nodup_append]
    refine ⟨ih', by simp, ?_⟩
    intro x hx y hy hxy
    rw [List.map_cons, List.map_nil, List.mem_singleton] at hy
    subst hy; subst hxy
    rcases List.mem_cons.mp hx with h | h
    · exact hcr h
    · exact hcp h

theorem pathNodes_chain {a b : K} {p : List (Edge K E)} (hc : Chain a b p) (hne : p ≠ []) :
    pathNodes p = a :: p.map (fun x => x.2.1) := by
  rcases hc.head with ⟨h, _⟩ | ⟨v, e, rest, h⟩
  · exact absurd h hne
  · subst h; rfl

theorem reach_of_walk (adj : K → List (K × E)) {a b : K} {p : List (Edge K E)} (h : Walk adj a b p) :
    Reach adj a b := by
  induction h with
  | nil => exact .refl a
  | snoc _ he ih => exact .step ih he

theorem walk_of_reach (adj : K → List (K × E)) {a b : K} (h : Reach adj a b) :
    ∃ p, Walk adj a b p := by
  induction h with
  | refl => exact ⟨[], .nil a⟩
  | step _ he ih => obtain ⟨p, hp⟩ := ih; exact ⟨_, .snoc hp he⟩

/-- reachability by one or more steps is the existence of a non-empty walk -/
theorem reach_iff_path (adj : K → List (K × E)) (a b : K) :
    Reach adj a b ↔ a = b ∨ ∃ p, IsPath adj a b p := by
  constructor
  · intro h
    cases h with
    | refl => exact Or.inl rfl
    | step h' he =>
      obtain ⟨p, hp⟩ := walk_of_reach adj h'
      exact Or.inr ⟨_, by simp, .snoc hp he⟩
  · rintro (h | ⟨p, _, hp⟩)
    · subst h; exact .refl a
    · exact reach_of_walk adj hp

end G

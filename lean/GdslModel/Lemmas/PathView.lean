import GdslModel.Model.Search
import GdslModel.Model.Spec
/-!
# The accessors of a returned `Path` (`first_node`, `last_node`, `first_edge`, `last_edge`, `to_vec_nodes`)
agree with the walk the path is: helper lemmas for C04, C05, C06, C09.
-/
namespace G
set_option linter.unusedSectionVars false
variable {K E : Type} [DecidableEq K]

theorem Walk.nil_eq {adj : K → List (K × E)} {a b : K} (h : Walk adj a b []) : a = b := by
  generalize hp : ([] : List (Edge K E)) = p at h
  cases h with
  | nil => rfl
  | snoc hw hm => simp at hp

theorem Walk.first_last {adj : K → List (K × E)} {a b : K} {p : List (Edge K E)} (h : Walk adj a b p) (hne : p ≠ []) :
    pathFirstNode p = some a ∧ pathLastNode p = some b := by
  induction h with
  | nil => exact absurd rfl hne
  | @snoc b c e p hw hm ih =>
    refine ⟨?_, by simp [pathLastNode]⟩
    cases p with
    | nil => have := Walk.nil_eq hw; subst this; simp [pathFirstNode]
    | cons x xs =>
      have := (ih (by simp)).1
      simpa [pathFirstNode] using this

/-- `to_vec_nodes` is the start followed by the target of every edge; on a walk consecutive entries are the two
    ends of the corresponding edge -/
theorem pathNodes_eq (p : List (Edge K E)) (hne : p ≠ []) :
    pathNodes p = (p.head?.map (·.1)).toList ++ p.map (·.2.1) := by
  cases p with
  | nil => exact absurd rfl hne
  | cons x xs => obtain ⟨u, v, e⟩ := x; simp [pathNodes]

theorem IsPath.accessors {adj : K → List (K × E)} {r t : K} {p : List (Edge K E)} (h : IsPath adj r t p) :
    pathFirstNode p = some r ∧ pathLastNode p = some t ∧
    (∃ x, pathFirstEdge p = some x ∧ x.1 = r) ∧ (∃ y, pathLastEdge p = some y ∧ y.2.1 = t) ∧
    pathNodes p = r :: p.map (·.2.1) ∧ (pathNodes p).length = p.length + 1 := by
  obtain ⟨hne, hw⟩ := h
  obtain ⟨h1, h2⟩ := hw.first_last hne
  refine ⟨h1, h2, ?_, ?_, ?_, ?_⟩
  · cases p with
    | nil => exact absurd rfl hne
    | cons x xs => exact ⟨x, rfl, by simpa [pathFirstNode] using h1⟩
  · unfold pathLastNode at h2
    cases hl : p.getLast? with
    | none => simp [hl] at h2
    | some y => exact ⟨y, by simp [pathLastEdge, hl], by simpa [hl] using h2⟩
  · rw [pathNodes_eq p hne]
    unfold pathFirstNode at h1
    rw [h1]; rfl
  · rw [pathNodes_eq p hne]
    unfold pathFirstNode at h1
    rw [h1]; simp

end G
